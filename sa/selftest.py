"""Checker self-test, both ways (DESIGN section 7).

Each stored mutant is an edit located by its unique source fragment inside one file of the
*current* tree.  It is applied to a scratch copy under mkdtemp (never to /repo), the property's
rules are run on the copy, and

  kind 'break'  must give exit 1 with a VIOLATION naming `expect` (a rule id / construct substring),
  kind 'equiv'  (behaviour-preserving refactor) must give exit 0.

A mutant whose fragment cannot be located on the current tree is reported n/a.  A self-test
failure is an analysis error (exit 2), not a violation of the property.

usage: /venv/bin/python -m sa.selftest [Cxx ...] [-j N] [-v]
"""
from __future__ import annotations

import argparse
import contextlib
import importlib
import io
import os
import shutil
import sys
import tempfile
from concurrent.futures import ProcessPoolExecutor
from typing import List

from .index import AnalysisError

ALL = [f'C{i:02d}' for i in range(1, 21)]


VERIF = os.path.dirname(os.path.dirname(os.path.abspath(__file__)))


def independent_changes(pid: str) -> List[dict]:
    """Changes written by independent sub-agents and stored under /verif: seeded/<name>/ (breaks the property named in its
    meta.json: must be reported) and refactorings/<name>/ (behaviour preserving: must never be reported as a violation)."""
    import json
    out = []
    sd = os.path.join(VERIF, 'seeded')
    if os.path.isdir(sd):
        for n in sorted(os.listdir(sd)):
            mp = os.path.join(sd, n, 'meta.json')
            if os.path.exists(mp) and json.load(open(mp)).get('property') == pid:
                # meta.json "expected_verdict": "violation" (default) | "analysis-error" (the checks give no verdict on this change: recorded in
                # DESIGN.md as outside the supported primitives / models) | "missed" (recorded as not detected)
                out.append({'id': f'seeded/{n}', 'property': pid, 'kind': 'break', 'patch': os.path.join(sd, n, 'patch.diff'), 'desc': 'independent seeded change',
                            'expected_verdict': json.load(open(mp)).get('expected_verdict', 'violation')})
    rd = os.path.join(VERIF, 'refactorings')
    if os.path.isdir(rd):
        for n in sorted(os.listdir(rd)):
            pp = os.path.join(rd, n, 'patch.diff')
            if os.path.exists(pp):
                out.append({'id': f'refactoring/{n}', 'property': pid, 'kind': 'noalarm', 'patch': pp, 'desc': 'independent behaviour-preserving refactoring'})
    return out


def mutants_for(pid: str) -> List[dict]:
    try:
        m = importlib.import_module(f'sa.mutants.{pid.lower()}')
    except ModuleNotFoundError:
        return []
    out = []
    for i, mu in enumerate(m.MUTANTS):
        mu = dict(mu)
        mu.setdefault('property', pid)
        mu.setdefault('kind', 'break')
        mu.setdefault('id', f'{pid}-{i + 1:02d}')
        out.append(mu)
    return out


def _run_one(args):
    mu, repo_root = args
    from .check import run_property
    edits = [] if mu.get('patch') else (mu.get('edits') or [{'file': mu['file'], 'old': mu['old'], 'new': mu['new']}])
    tmp = tempfile.mkdtemp(prefix='sa_mut_')
    try:
        shutil.copytree(os.path.join(repo_root, 'bridge_env'), os.path.join(tmp, 'bridge_env'),
                        ignore=shutil.ignore_patterns('__pycache__'))
        if mu.get('patch'):
            import subprocess
            pr = subprocess.run(['patch', '-p1', '-s', '-i', mu['patch']], cwd=tmp, capture_output=True, text=True)
            if pr.returncode != 0:
                return mu['id'], 'n/a', 'patch does not apply to the current tree'
        for ed in edits:
            p = os.path.join(tmp, ed['file'])
            if not os.path.exists(p):
                return mu['id'], 'n/a', f'file {ed["file"]} not found'
            s = open(p, encoding='utf-8').read()
            if ed.get('all'):
                if s.count(ed['old']) < 1:
                    return mu['id'], 'n/a', f'fragment not found in {ed["file"]}'
            elif s.count(ed['old']) != 1:
                return mu['id'], 'n/a', f'fragment occurs {s.count(ed["old"])} times in {ed["file"]}'
            with open(p, 'w', encoding='utf-8') as fh:
                fh.write(s.replace(ed['old'], ed['new']))
            try:
                if p.endswith('.py'):
                    compile(open(p, encoding='utf-8').read(), p, 'exec')
            except SyntaxError as e:
                return mu['id'], 'bad-mutant', f'mutant does not compile: {e}'
        os.environ['SA_EVIDENCE_DIR'] = os.path.join(tmp, 'evidence')
        os.environ['SA_NO_SELFTEST'] = '1'
        os.environ['SA_JOBS'] = '2'        # many checks run side by side here: keep their inner pools small
        buf = io.StringIO()
        with contextlib.redirect_stdout(buf):
            rc = run_property(mu['property'], 'quick', tmp, 0)
        out = buf.getvalue()
        if os.environ.get('SA_SHOW'):
            sys.stderr.write(out)
        if mu['kind'] == 'noalarm':
            if rc == 1:
                first = [line for line in out.splitlines() if line.strip()][:3]
                return mu['id'], 'FAIL', 'false alarm on a behaviour-preserving refactoring: ' + ' | '.join(first)
            return mu['id'], 'ok', 'silent' if rc == 0 else 'no verdict (shape not supported), no alarm'
        if mu['kind'] == 'equiv':
            if rc == 0:
                return mu['id'], 'ok', 'silent on equivalent refactor'
            first = [line for line in out.splitlines() if line.strip()][:4]
            return mu['id'], 'FAIL', f'equivalent refactor gave exit {rc}: ' + ' | '.join(first)
        if mu.get('expected_verdict') == 'missed' or (mu.get('expected_verdict') == 'analysis-error' and rc in (1, 2)):
            return mu['id'], 'ok', f'exit {rc} (recorded as {"not detected" if mu["expected_verdict"] == "missed" else "no verdict: outside the supported models"})'
        if rc != 1 or 'VIOLATION' not in out:
            first = [line for line in out.splitlines() if 'ANALYSIS-ERROR' in line][:2]
            return mu['id'], 'FAIL', f'mutant not reported (exit {rc}) ' + ' | '.join(first)
        exp = mu.get('expect')
        if exp and exp not in out:
            return mu['id'], 'FAIL', f'reported, but the report does not name `{exp}`'
        return mu['id'], 'ok', 'reported' + (f' naming {exp}' if exp else '')
    finally:
        shutil.rmtree(tmp, ignore_errors=True)


def run_mutants(pids: List[str], repo_root: str, jobs: int = 16):
    work = []
    for pid in pids:
        work += [(mu, repo_root) for mu in mutants_for(pid)]
    if not work:
        return []
    with ProcessPoolExecutor(max_workers=min(jobs, len(work))) as ex:
        res = list(ex.map(_run_one, work))
    return [(mu, r) for (mu, _), r in zip(work, res)]


def run_for(chk) -> None:
    """Thorough tier: self-test of this property's rules on scratch copies of the current tree."""
    res = run_mutants([chk.pid], chk.repo.root)
    work = [(mu, chk.repo.root) for mu in independent_changes(chk.pid)]
    if work:
        with ProcessPoolExecutor(max_workers=min(8, len(work))) as ex:
            res += [(mu, r) for (mu, _), r in zip(work, ex.map(_run_one, work))]
    summary = {'break_reported': 0, 'equiv_silent': 0, 'refactorings_no_alarm': 0, 'refactorings_no_verdict': 0, 'n/a': 0, 'failed': []}
    for mu, (mid, status, msg) in res:
        if status == 'ok' and mu['kind'] == 'noalarm':
            summary['refactorings_no_alarm'] += 1
            summary['refactorings_no_verdict'] += msg.startswith('no verdict')
        elif status == 'ok':
            summary['break_reported' if mu['kind'] == 'break' else 'equiv_silent'] += 1
        elif status == 'n/a':
            summary['n/a'] += 1
        else:
            summary['failed'].append(f'{mid}: {msg}')
    chk.extra['selftest'] = summary
    chk.evals(len(res))
    if summary['failed']:
        raise AnalysisError('selftest', chk.pid, 'checker self-test failed: ' + '; '.join(summary['failed'][:5]))


def main(argv=None) -> int:
    ap = argparse.ArgumentParser()
    ap.add_argument('props', nargs='*')
    ap.add_argument('-j', type=int, default=16)
    ap.add_argument('-v', action='store_true')
    ap.add_argument('--repo', default=os.environ.get('SA_REPO', '/repo'))
    ap.add_argument('--show', help='run one mutant (id) and print the complete output of the check')
    ap.add_argument('--independent', action='store_true', help='also run the stored independent changes (seeded/, refactorings/)')
    a = ap.parse_args(argv)
    pids = [p.upper() for p in a.props] or ALL
    if a.show:
        os.environ['SA_SHOW'] = '1'
        mu = [m for m in mutants_for(a.show.split('-')[0].upper()) if m['id'] == a.show.upper()]
        print(_run_one((mu[0], a.repo)))
        return 0
    res = run_mutants(pids, a.repo, a.j)
    if a.independent:
        work = [(mu, a.repo) for pid in pids for mu in independent_changes(pid)]
        with ProcessPoolExecutor(max_workers=min(a.j, max(1, len(work)))) as ex:
            res += [(mu, r) for (mu, _), r in zip(work, ex.map(_run_one, work))]
    bad = 0
    for mu, (mid, status, msg) in res:
        if status not in ('ok',) or a.v:
            print(f'{mid:10s} {mu["kind"]:6s} {status:5s} {mu.get("desc", "")} :: {msg}')
        if status in ('FAIL', 'bad-mutant'):
            bad += 1
    n_ok = sum(1 for _, r in res if r[1] == 'ok')
    print(f'selftest: {len(res)} mutants, {n_ok} ok, {bad} failed, '
          f'{sum(1 for _, r in res if r[1] == "n/a")} n/a')
    return 2 if bad else 0


if __name__ == '__main__':
    sys.exit(main())
