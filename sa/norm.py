"""E4(c,e) - small algebra: affine normal forms and guards as propositional formulas
compared by truth table (three-valued evaluation, no solver)."""
from __future__ import annotations

import ast
import itertools
from typing import Callable, Dict, List, Optional, Tuple


# --------------------------------------------------------------------------------------------------
# affine normal form  a1*t1 + a2*t2 + ... + c   (terms keyed by canonical text)
# --------------------------------------------------------------------------------------------------
def affine(e: ast.AST, rewrite: Optional[Callable[[ast.AST], Optional[ast.AST]]] = None) -> Optional[Tuple[Dict[str, int], int]]:
    """Returns ({term_text: coeff}, const) or None if not affine over +,-,*const, unary -."""
    if rewrite is not None:
        r = rewrite(e)
        if r is not None:
            return affine(r, rewrite)
    if isinstance(e, ast.Constant) and isinstance(e.value, int) and not isinstance(e.value, bool):
        return {}, e.value
    if isinstance(e, ast.UnaryOp) and isinstance(e.op, ast.USub):
        a = affine(e.operand, rewrite)
        if a is None:
            return None
        return {k: -v for k, v in a[0].items()}, -a[1]
    if isinstance(e, ast.BinOp) and isinstance(e.op, (ast.Add, ast.Sub)):
        a, b = affine(e.left, rewrite), affine(e.right, rewrite)
        if a is None or b is None:
            return None
        s = 1 if isinstance(e.op, ast.Add) else -1
        terms = dict(a[0])
        for k, v in b[0].items():
            terms[k] = terms.get(k, 0) + s * v
        return {k: v for k, v in terms.items() if v != 0}, a[1] + s * b[1]
    if isinstance(e, ast.BinOp) and isinstance(e.op, ast.Mult):
        a, b = affine(e.left, rewrite), affine(e.right, rewrite)
        if a is None or b is None:
            return None
        if not a[0]:
            return {k: v * a[1] for k, v in b[0].items() if v * a[1] != 0}, a[1] * b[1]
        if not b[0]:
            return {k: v * b[1] for k, v in a[0].items() if v * b[1] != 0}, a[1] * b[1]
        return None
    if isinstance(e, (ast.Name, ast.Attribute, ast.Subscript, ast.Call)):
        return {ast.unparse(e): 1}, 0
    return None


def affine_eq(e1: ast.AST, e2: ast.AST, rewrite=None) -> Optional[bool]:
    a, b = affine(e1, rewrite), affine(e2, rewrite)
    if a is None or b is None:
        return None
    return a == b


# --------------------------------------------------------------------------------------------------
# propositional formulas
# --------------------------------------------------------------------------------------------------
class F:
    """('and'|'or', [F]) | ('not', F) | ('atom', node) | ('const', bool)"""

    def __init__(self, op, *args):
        self.op, self.args = op, args

    def __repr__(self):
        if self.op == 'atom':
            return ast.unparse(self.args[0])
        if self.op == 'const':
            return str(self.args[0])
        if self.op == 'not':
            return f'not({self.args[0]!r})'
        return '(' + f' {self.op} '.join(repr(a) for a in self.args[0]) + ')'


def formula(e: ast.AST) -> F:
    if isinstance(e, ast.BoolOp):
        return F('and' if isinstance(e.op, ast.And) else 'or', [formula(v) for v in e.values])
    if isinstance(e, ast.UnaryOp) and isinstance(e.op, ast.Not):
        return F('not', formula(e.operand))
    if isinstance(e, ast.Constant) and isinstance(e.value, bool):
        return F('const', e.value)
    if isinstance(e, ast.Constant) and e.value is None:
        return F('const', False)
    if isinstance(e, ast.Compare) and len(e.ops) == 1:
        op = e.ops[0]
        neg = {ast.IsNot: ast.Is, ast.NotEq: ast.Eq, ast.NotIn: ast.In}
        if type(op) in neg:
            pos = ast.Compare(e.left, [neg[type(op)]()], e.comparators)
            return F('not', F('atom', pos))
        return F('atom', e)
    if isinstance(e, ast.Compare) and len(e.ops) > 1:
        parts = []
        left = e.left
        for op, c in zip(e.ops, e.comparators):
            parts.append(formula(ast.Compare(left, [op], [c])))
            left = c
        return F('and', parts)
    return F('atom', e)


def atoms(f: F) -> List[ast.AST]:
    if f.op == 'atom':
        return [f.args[0]]
    if f.op == 'const':
        return []
    if f.op == 'not':
        return atoms(f.args[0])
    out = []
    for a in f.args[0]:
        out += atoms(a)
    return out


def ev3(f: F, val: Callable[[ast.AST], Optional[bool]]) -> Optional[bool]:
    """Three-valued evaluation; `val(atom_node)` returns True/False/None (unknown)."""
    if f.op == 'const':
        return f.args[0]
    if f.op == 'atom':
        return val(f.args[0])
    if f.op == 'not':
        r = ev3(f.args[0], val)
        return None if r is None else (not r)
    rs = [ev3(a, val) for a in f.args[0]]
    if f.op == 'and':
        if any(r is False for r in rs):
            return False
        return None if any(r is None for r in rs) else True
    if any(r is True for r in rs):
        return True
    return None if any(r is None for r in rs) else False


def is_const(e: ast.AST, value) -> bool:
    return isinstance(e, ast.Constant) and e.value is value or \
        (isinstance(e, ast.Constant) and not isinstance(value, bool) and not isinstance(e.value, bool)
         and e.value == value and value is not None)


def same_expr(a: ast.AST, b: ast.AST) -> bool:
    return ast.unparse(a) == ast.unparse(b)


def cmp_const(atom: ast.AST) -> Optional[Tuple[ast.AST, str, int]]:
    """`x OP c` / `c OP x` with integer constant -> (x, 'ge', k) meaning x >= k, possibly negated
    by the caller: returns (x, kind, k) with kind in {'ge','lt','eq'} normalised to `x >= k`,
    `x < k`, `x == k`."""
    if not (isinstance(atom, ast.Compare) and len(atom.ops) == 1):
        return None
    left, op, right = atom.left, atom.ops[0], atom.comparators[0]

    def const(n):
        if isinstance(n, ast.Constant) and isinstance(n.value, int) and not isinstance(n.value, bool):
            return n.value
        if isinstance(n, ast.UnaryOp) and isinstance(n.op, ast.USub) and isinstance(n.operand, ast.Constant) \
                and isinstance(n.operand.value, int):
            return -n.operand.value
        return None
    cr, cl = const(right), const(left)
    if cr is not None and cl is None:
        x, c = left, cr
        if isinstance(op, ast.GtE):
            return x, 'ge', c
        if isinstance(op, ast.Gt):
            return x, 'ge', c + 1
        if isinstance(op, ast.Lt):
            return x, 'lt', c
        if isinstance(op, ast.LtE):
            return x, 'lt', c + 1
        if isinstance(op, ast.Eq):
            return x, 'eq', c
    if cl is not None and cr is None:
        x, c = right, cl
        if isinstance(op, ast.LtE):    # c <= x
            return x, 'ge', c
        if isinstance(op, ast.Lt):     # c < x
            return x, 'ge', c + 1
        if isinstance(op, ast.Gt):     # c > x
            return x, 'lt', c
        if isinstance(op, ast.GtE):    # c >= x
            return x, 'lt', c + 1
        if isinstance(op, ast.Eq):
            return x, 'eq', c
    return None


def eval_cmp_const(kind: str, k: int, x: int) -> bool:
    return x >= k if kind == 'ge' else (x < k if kind == 'lt' else x == k)


def identity_atom(atom: ast.AST) -> Optional[Tuple[ast.AST, ast.AST]]:
    """`a is b` / `a == b` -> (a, b)."""
    if isinstance(atom, ast.Compare) and len(atom.ops) == 1 and isinstance(atom.ops[0], (ast.Is, ast.Eq)):
        return atom.left, atom.comparators[0]
    return None


def all_valuations(keys: List[str]):
    for bits in itertools.product([False, True], repeat=len(keys)):
        yield dict(zip(keys, bits))
