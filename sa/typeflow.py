"""E8 - typed-field flow for the JSON / PBN readers, and JSON-type inference for the writers.

Reader side: anything obtained from json.load / a regex group / a dict of strings is `Raw`;
enum subscripts and the library converters produce library types.  Rule: where an annotation
names a library value type, the supplied expression must have that type, not Raw.  (mypy cannot
do this: the data is `dict`, i.e. Any.)

Writer side: every expression stored in a record is given a JSON type (string / integer / null /
array / object) from constructors (`str(..)`), annotations and enum value types, to be compared
with the shipped JSON schema."""
from __future__ import annotations

import ast
from typing import Dict, List, Optional

from .index import AnalysisError, ClassInfo, ModuleInfo, Repo

LIB = {'Player', 'Pair', 'Suit', 'Vul', 'Bid', 'Card', 'Contract', 'Hands', 'TrickHistory', 'BoardSetting', 'BoardLog',
       'PlayingHistory', 'Scoring'}


# ---- type terms: ('leaf', name) | ('opt', T) | ('list', T) | ('dict', K, V) | ('tuple', T) | ('set', T) -------------
def parse_annotation(a: Optional[ast.AST]):
    if a is None:
        return ('leaf', 'Unknown')
    if isinstance(a, ast.Constant) and isinstance(a.value, str):
        return parse_annotation(ast.parse(a.value, mode='eval').body)
    if isinstance(a, ast.Constant) and a.value is None:
        return ('leaf', 'None')
    if isinstance(a, ast.Name):
        return ('leaf', a.id)
    if isinstance(a, ast.Attribute):
        return ('leaf', a.attr)
    if isinstance(a, ast.Subscript):
        head = ast.unparse(a.value).split('.')[-1]
        args = list(a.slice.elts) if isinstance(a.slice, ast.Tuple) else [a.slice]
        if head == 'Optional':
            return ('opt', parse_annotation(args[0]))
        if head in ('List', 'list', 'Sequence', 'Iterable'):
            return ('list', parse_annotation(args[0]))
        if head in ('Set', 'set', 'FrozenSet'):
            return ('set', parse_annotation(args[0]))
        if head in ('Dict', 'dict', 'Mapping'):
            return ('dict', parse_annotation(args[0]), parse_annotation(args[1]))
        if head in ('Tuple', 'tuple'):
            return ('tuple', parse_annotation(args[0]))
    return ('leaf', 'Unknown')


def show(t) -> str:
    k = t[0]
    if k == 'leaf':
        return t[1]
    if k == 'opt':
        return f'Optional[{show(t[1])}]'
    if k == 'list':
        return f'List[{show(t[1])}]'
    if k == 'set':
        return f'Set[{show(t[1])}]'
    if k == 'tuple':
        return f'Tuple[{show(t[1])}, ...]'
    if k == 'dict':
        return f'Dict[{show(t[1])}, {show(t[2])}]'
    return str(t)


RAW = ('leaf', 'Raw')
NONE = ('leaf', 'None')
UNK = ('leaf', 'Unknown')


def join(a, b):
    if a == b:
        return a
    if a == NONE:
        return b if b[0] == 'opt' else ('opt', b)
    if b == NONE:
        return a if a[0] == 'opt' else ('opt', a)
    if a[0] == 'opt' and b[0] != 'opt':
        return ('opt', join(a[1], b))
    if b[0] == 'opt' and a[0] != 'opt':
        return ('opt', join(a, b[1]))
    return UNK


def mismatch(inferred, annot) -> Optional[str]:
    """None if `inferred` may flow into a slot annotated `annot`; else a reason.  Only library value
    types are policed (a Raw str into `str` is fine)."""
    if annot[0] == 'opt':
        if inferred == NONE:
            return None
        return mismatch(inferred[1] if inferred[0] == 'opt' else inferred, annot[1])
    if inferred[0] == 'opt':
        return mismatch(inferred[1], annot)
    if annot[0] == 'leaf':
        if annot[1] in LIB:
            if inferred == ('leaf', annot[1]):
                return None
            return f'{show(inferred)} where {annot[1]} is declared'
        return None
    if annot[0] in ('list', 'set', 'tuple'):
        if inferred[0] in ('list', 'set', 'tuple'):
            return mismatch(inferred[1], annot[1])
        if inferred in (RAW, UNK):
            return mismatch(inferred, annot[1])
        return f'{show(inferred)} where {show(annot)} is declared'
    if annot[0] == 'dict':
        if inferred[0] == 'dict':
            return mismatch(inferred[1], annot[1]) or mismatch(inferred[2], annot[2])
        if inferred in (RAW, UNK):
            return mismatch(inferred, annot[1]) or mismatch(inferred, annot[2])
        return f'{show(inferred)} where {show(annot)} is declared'
    return None


class TypeInfer:
    def __init__(self, repo: Repo, mod: ModuleInfo, params: Dict[str, tuple], raw_names=(), owner: Optional[ClassInfo] = None):
        self.repo, self.mod = repo, mod
        self.owner = owner            # class whose method is being typed (resolves self.m(...) / cls.m(...))
        self.scopes: List[Dict[str, tuple]] = [dict(params)]
        self.checks: List[tuple] = []     # (callee, slot, inferred, annotation, node)
        for n in raw_names:
            self.scopes[0][n] = RAW

    def lookup(self, name):
        for s in reversed(self.scopes):
            if name in s:
                return s[name]
        return None

    def _class(self, name: str) -> Optional[ClassInfo]:
        r = self.repo.resolve_name(self.mod, name)
        if r and r[0] == 'class':
            return r[1]
        return None

    def field_type(self, ci: ClassInfo, field: str):
        for c in self.repo.mro(ci):
            if field in c.annots:
                return parse_annotation(c.annots[field])
            if field in c.methods:
                fn = c.methods[field]
                if c.method_kind(field) == 'property':
                    return parse_annotation(fn.returns)
        return UNK

    def infer(self, e: ast.AST):
        if isinstance(e, ast.Constant):
            if e.value is None:
                return NONE
            return ('leaf', type(e.value).__name__)
        if isinstance(e, ast.Name):
            t = self.lookup(e.id)
            return t if t is not None else UNK
        if isinstance(e, ast.JoinedStr):
            return ('leaf', 'str')
        if isinstance(e, (ast.Compare, ast.BoolOp)) or (isinstance(e, ast.UnaryOp) and isinstance(e.op, ast.Not)):
            return ('leaf', 'bool')
        if isinstance(e, ast.IfExp):
            return join(self.infer(e.body), self.infer(e.orelse))
        if isinstance(e, ast.Subscript):
            if isinstance(e.value, ast.Name):
                ci = self._class(e.value.id)
                if ci is not None and ci.is_enum:
                    return ('leaf', ci.name)
            bt = self.infer(e.value)
            if bt == RAW:
                return RAW
            if bt[0] == 'opt':
                bt = bt[1]
            if bt[0] == 'dict':
                return bt[2]
            if bt[0] in ('list', 'tuple'):
                return bt[1]
            if bt == ('leaf', 'Hands'):
                return ('set', ('leaf', 'Card'))
            return UNK
        if isinstance(e, ast.Attribute):
            bt = self.infer(e.value)
            if bt[0] == 'opt':
                bt = bt[1]
            if bt[0] == 'leaf' and bt[1] in LIB and self.repo.has_cls(bt[1]):
                ci = self.repo.cls(bt[1])
                if e.attr == 'value' and ci.is_enum:
                    vals = {type(v).__name__ for v in ci.enum_members().values()}
                    return ('leaf', vals.pop()) if len(vals) == 1 else UNK
                if e.attr == 'name' and ci.is_enum:
                    return ('leaf', 'str')
                return self.field_type(ci, e.attr)
            return RAW if bt == RAW else UNK
        if isinstance(e, ast.Call):
            return self._call(e)
        if isinstance(e, (ast.ListComp, ast.SetComp, ast.GeneratorExp)):
            self._bind_generators(e.generators)
            t = self.infer(e.elt)
            for _ in e.generators:
                self.scopes.pop()
            return ('set' if isinstance(e, ast.SetComp) else 'list', t)
        if isinstance(e, ast.Call) and isinstance(e.func, ast.Name) and e.func.id == 'dict' and len(e.args) == 1 and not e.keywords \
                and isinstance(e.args[0], (ast.GeneratorExp, ast.ListComp)) and isinstance(e.args[0].elt, ast.Tuple) and len(e.args[0].elt.elts) == 2:
            g_ = e.args[0]
            return self.infer(ast.DictComp(key=g_.elt.elts[0], value=g_.elt.elts[1], generators=g_.generators))
        if isinstance(e, ast.Call) and isinstance(e.func, ast.Name) and e.func.id in ('list', 'set', 'tuple') and len(e.args) == 1 and not e.keywords \
                and isinstance(e.args[0], (ast.GeneratorExp, ast.ListComp)):
            inner_ = self.infer(ast.ListComp(elt=e.args[0].elt, generators=e.args[0].generators))
            return (e.func.id, inner_[1]) if isinstance(inner_, tuple) and len(inner_) == 2 and inner_[0] == 'list' else UNK
        if isinstance(e, ast.DictComp):
            self._bind_generators(e.generators)
            k, v = self.infer(e.key), self.infer(e.value)
            for _ in e.generators:
                self.scopes.pop()
            return ('dict', k, v)
        if isinstance(e, ast.Dict):
            ks = [self.infer(k) for k in e.keys if k is not None]
            vs = [self.infer(v) for v in e.values]
            kt = ks[0] if ks and all(k == ks[0] for k in ks) else UNK
            vt = vs[0] if vs and all(v == vs[0] for v in vs) else UNK
            return ('dict', kt, vt)
        if isinstance(e, (ast.List, ast.Tuple)):
            ts = [self.infer(x) for x in e.elts]
            return ('list' if isinstance(e, ast.List) else 'tuple', ts[0] if ts and all(t == ts[0] for t in ts) else UNK)
        return UNK

    def _bind_generators(self, gens):
        for g in gens:
            it = g.iter
            scope: Dict[str, tuple] = {}
            elem = UNK
            if isinstance(it, ast.Call) and isinstance(it.func, ast.Attribute) and it.func.attr == 'items' and not it.args:
                bt = self.infer(it.func.value)
                if bt[0] == 'opt':
                    bt = bt[1]
                if bt == RAW:
                    elem = ('pair', RAW, RAW)
                elif bt[0] == 'dict':
                    elem = ('pair', bt[1], bt[2])
            else:
                if isinstance(it, ast.Name) and self._class(it.id) is not None and self._class(it.id).is_enum:
                    elem = ('leaf', self._class(it.id).name)
                else:
                    bt = self.infer(it)
                    if bt[0] == 'opt':
                        bt = bt[1]
                    if bt == RAW:
                        elem = RAW
                    elif bt[0] in ('list', 'set', 'tuple'):
                        elem = bt[1]
                    elif bt[0] == 'dict':
                        elem = bt[1]
            if isinstance(g.target, ast.Name):
                scope[g.target.id] = elem if elem[0] != 'pair' else UNK
            elif isinstance(g.target, ast.Tuple) and len(g.target.elts) == 2 and elem[0] == 'pair':
                for t, ty in zip(g.target.elts, elem[1:]):
                    if isinstance(t, ast.Name):
                        scope[t.id] = ty
            else:
                for t in ast.walk(g.target):
                    if isinstance(t, ast.Name):
                        scope[t.id] = UNK
            self.scopes.append(scope)

    def _call(self, e: ast.Call):
        f = e.func
        if isinstance(f, ast.Name):
            if f.id == 'str':
                return ('leaf', 'str')
            if f.id == 'int':
                return ('leaf', 'int')
            if f.id == 'dict' and len(e.args) == 1 and not e.keywords and isinstance(e.args[0], (ast.GeneratorExp, ast.ListComp)) \
                    and isinstance(e.args[0].elt, ast.Tuple) and len(e.args[0].elt.elts) == 2:
                g_ = e.args[0]          # dict(<(key, value) pairs>) is the dict comprehension {key: value for ...}
                return self.infer(ast.DictComp(key=g_.elt.elts[0], value=g_.elt.elts[1], generators=g_.generators))
            if f.id == 'dict' and len(e.args) == 1:
                return self.infer(e.args[0])
            if f.id in ('tuple', 'list', 'sorted', 'set'):
                inner = self.infer(e.args[0]) if e.args else UNK
                el = inner[1] if inner[0] in ('list', 'set', 'tuple') else (RAW if inner == RAW else UNK)
                return ({'tuple': 'tuple', 'set': 'set'}.get(f.id, 'list'), el)
            ci = self._class(f.id)
            if ci is not None:
                if ci.is_dataclass or ci.is_namedtuple:
                    fields = [n for n in ci.order if n in ci.annots]
                    for i, a in enumerate(e.args):
                        if i < len(fields):
                            self.checks.append((ci.name, fields[i], self.infer(a), parse_annotation(ci.annots[fields[i]]), a))
                    for k in e.keywords:
                        if k.arg in ci.annots:
                            self.checks.append((ci.name, k.arg, self.infer(k.value), parse_annotation(ci.annots[k.arg]), k.value))
                return ('leaf', ci.name)
            r = self.repo.resolve_name(self.mod, f.id)
            if r and r[0] == 'func':
                self._check_args(f.id, r[2], e, skip_first=False)
                return parse_annotation(r[2].returns)
            return UNK
        if isinstance(f, ast.Attribute):
            if ast.unparse(f) in ('json.load', 'json.loads'):
                return RAW
            if isinstance(f.value, ast.Name):
                ci = self._class(f.value.id)
                if ci is not None:
                    for c in self.repo.mro(ci):
                        if f.attr in c.methods:
                            self._check_args(f'{c.name}.{f.attr}', c.methods[f.attr], e,
                                             skip_first=c.method_kind(f.attr) in ('class', 'method'))
                            return parse_annotation(c.methods[f.attr].returns)
            bt = self.infer(f.value)
            if bt == RAW:
                return RAW
            if bt[0] == 'leaf' and bt[1] in LIB and self.repo.has_cls(bt[1]):
                ci = self.repo.cls(bt[1])
                for c in self.repo.mro(ci):
                    if f.attr in c.methods:
                        return parse_annotation(c.methods[f.attr].returns)
            if f.attr == 'group':
                return RAW
        return UNK


    def _check_args(self, name, fn: ast.FunctionDef, call: ast.Call, skip_first: bool):
        params = fn.args.args[1:] if skip_first else fn.args.args
        for i, a in enumerate(call.args):
            if i < len(params) and params[i].annotation is not None:
                self.checks.append((name, params[i].arg, self.infer(a), parse_annotation(params[i].annotation), a))
        for k in call.keywords:
            for prm in params:
                if prm.arg == k.arg and prm.annotation is not None:
                    self.checks.append((name, prm.arg, self.infer(k.value), parse_annotation(prm.annotation), k.value))


# --------------------------------------------------------------------------------------------------------------------
# JSON types of writer expressions
# --------------------------------------------------------------------------------------------------------------------
def jt(types, **kw):
    d = {'types': set(types)}
    d.update(kw)
    return d


class JsonTyper:
    """Expression -> {'types': {...}, 'items': jt, 'properties': {k: jt}, 'additional': jt, 'unknown': reason}."""

    def __init__(self, ti: TypeInfer):
        self.ti = ti

    def of(self, e: ast.AST):
        if isinstance(e, ast.Constant):
            if e.value is None:
                return jt({'null'})
            if isinstance(e.value, bool):
                return jt({'boolean'})
            if isinstance(e.value, int):
                return jt({'integer'})
            if isinstance(e.value, str):
                return jt({'string'})
        if isinstance(e, ast.JoinedStr):
            return jt({'string'})
        if isinstance(e, ast.IfExp):
            a, b = self.of(e.body), self.of(e.orelse)
            out = jt(a['types'] | b['types'])
            for k in ('items', 'properties', 'additional', 'unknown', 'language', 'undecided'):
                if k in a or k in b:
                    out[k] = a.get(k, b.get(k))
            return out
        if isinstance(e, ast.Dict):
            props = {}
            for k, v in zip(e.keys, e.values):
                if not (isinstance(k, ast.Constant) and isinstance(k.value, str)):
                    return jt({'object'}, unknown=f'non-literal key `{ast.unparse(k) if k else "**"}`')
                props[k.value] = self.of(v)
            return jt({'object'}, properties=props)
        if isinstance(e, ast.DictComp):
            self.ti._bind_generators(e.generators)
            kt = self.of(e.key)
            vt = self.of(e.value)
            for _ in e.generators:
                self.ti.scopes.pop()
            out = jt({'object'}, additional=vt)
            if kt['types'] != {'string'}:
                out['unknown'] = f'dict key `{ast.unparse(e.key)}` is not a string'
            return out
        if isinstance(e, ast.Call) and isinstance(e.func, ast.Name) and e.func.id == 'dict' and len(e.args) == 1 and not e.keywords \
                and isinstance(e.args[0], (ast.GeneratorExp, ast.ListComp)) and isinstance(e.args[0].elt, ast.Tuple) and len(e.args[0].elt.elts) == 2:
            # dict(<(key, value) pairs>) is the dict comprehension {key: value for ...}
            g = e.args[0]
            return self.of(ast.DictComp(key=g.elt.elts[0], value=g.elt.elts[1], generators=g.generators))
        if isinstance(e, ast.Call) and isinstance(e.func, ast.Name) and e.func.id in ('list', 'tuple', 'sorted') and len(e.args) == 1 and not e.keywords \
                and isinstance(e.args[0], (ast.GeneratorExp, ast.ListComp)):
            return self.of(e.args[0])
        if isinstance(e, (ast.ListComp, ast.GeneratorExp)):
            self.ti._bind_generators(e.generators)
            it = self.of(e.elt)
            for _ in e.generators:
                self.ti.scopes.pop()
            return jt({'array'}, items=it)
        if isinstance(e, (ast.List, ast.Tuple)):
            its = [self.of(x) for x in e.elts]
            return jt({'array'}, items=its[0] if its else jt(set()))
        if isinstance(e, ast.Call) and isinstance(e.func, ast.Name) and e.func.id == 'str' and len(e.args) == 1 and not e.keywords:
            at = self.ti.infer(e.args[0])
            if at[0] == 'opt':
                at = at[1]      # str(x) of an Optional[Enum]: the None arm is the writer's own conditional
            if at[0] == 'leaf' and self.ti.repo.has_cls(at[1]) and self.ti.repo.cls(at[1]).is_enum:
                # the finite language of str(<enum member>), by folding __str__ over the members
                from .fold import Folder
                f = Folder(self.ti.repo)
                try:
                    lang = {f.str_of(m) for m in f.members(at[1])}
                    return jt({'string'}, language=lang)
                except Exception:  # noqa - language unknown, plain string
                    return jt({'string'})
        inl = self._inline(e)
        if inl is not None:
            return inl
        t = self.ti.infer(e)
        return self.from_type(t, e)

    def _inline(self, e):
        """A call of a helper whose body is one `return <expr>` (a method of the class being typed, or a function of the module):
        the JSON type of the returned expression with the parameters bound to the types of the arguments."""
        if not isinstance(e, ast.Call) or getattr(self, '_depth', 0) > 4:
            return None
        f = e.func
        fn = owner = None
        skip = False
        mod = self.ti.mod
        if isinstance(f, ast.Attribute) and isinstance(f.value, ast.Name) and f.value.id in ('self', 'cls') and self.ti.owner is not None:
            for c in self.ti.repo.mro(self.ti.owner):
                if f.attr in c.methods:
                    fn, owner, mod = c.methods[f.attr], c, c.module
                    skip = c.method_kind(f.attr) in ('method', 'class')
                    break
        elif isinstance(f, ast.Name):
            r = self.ti.repo.resolve_name(self.ti.mod, f.id)
            if r and r[0] == 'func':
                fn, mod = r[2], r[1]
        if fn is None:
            return None
        body = [b for b in fn.body if not (isinstance(b, ast.Expr) and isinstance(b.value, ast.Constant))]
        # the body may only select among returned expressions: if / return (/ pass); every returned expression is typed and joined
        rets: list = []

        def scan(stmts) -> bool:
            """Collects the returned expressions; True when the block always returns."""
            for st in stmts:
                if isinstance(st, ast.Return):
                    rets.append(st.value if st.value is not None else ast.Constant(None))
                    return True
                if isinstance(st, ast.If):
                    a, b = scan(st.body), scan(st.orelse)
                    if a and b:
                        return True
                    continue
                if isinstance(st, ast.Pass) or (isinstance(st, ast.Expr) and isinstance(st.value, ast.Constant)):
                    continue
                raise ValueError
            return False
        try:
            if not scan(body):
                rets.append(ast.Constant(None))
        except ValueError:
            return None
        if not rets:
            return None
        if fn.args.vararg or fn.args.kwarg or fn.args.kwonlyargs:
            return None
        params = [a.arg for a in (fn.args.args[1:] if skip else fn.args.args)]
        scope = {}
        for i, a in enumerate(e.args):
            if i >= len(params) or isinstance(a, ast.Starred):
                return None
            scope[params[i]] = self.ti.infer(a)
        for k in e.keywords:
            if k.arg not in params:
                return None
            scope[k.arg] = self.ti.infer(k.value)
        for prm, d in zip(reversed(params), reversed(fn.args.defaults)):
            if prm not in scope:
                scope[prm] = self.ti.infer(d)
        if set(params) - set(scope):
            return None
        saved = (self.ti.scopes, self.ti.mod, self.ti.owner)
        self.ti.scopes, self.ti.mod, self.ti.owner = [scope], mod, owner if owner is not None else None
        self._depth = getattr(self, '_depth', 0) + 1
        try:
            out = None
            for r in rets:
                t = self.of(r)
                if out is None:
                    out = dict(t)
                    out['types'] = set(t['types'])
                else:
                    out['types'] |= t['types']
                    for k in ('items', 'properties', 'additional', 'unknown', 'language', 'undecided'):
                        if k in t and k not in out:
                            out[k] = t[k]
            return out
        finally:
            self._depth -= 1
            self.ti.scopes, self.ti.mod, self.ti.owner = saved

    def from_type(self, t, e):
        if t[0] == 'opt':
            inner = self.from_type(t[1], e)
            inner = dict(inner)
            inner['types'] = set(inner['types']) | {'null'}
            return inner
        if t == NONE:
            return jt({'null'})
        if t[0] == 'leaf':
            m = {'str': 'string', 'int': 'integer', 'bool': 'boolean', 'float': 'number'}
            if t[1] in m:
                return jt({m[t[1]]})
            if t == UNK:
                return jt(set(), undecided=f'the type of `{ast.unparse(e)}` cannot be inferred')
            return jt(set(), unknown=f'`{ast.unparse(e)}` has type {show(t)}: not JSON-serialisable as such')
        if t[0] in ('list', 'tuple'):
            return jt({'array'}, items=self.from_type(t[1], e))
        if t[0] == 'dict':
            out = jt({'object'}, additional=self.from_type(t[2], e))
            if t[1] != ('leaf', 'str'):
                out['unknown'] = f'`{ast.unparse(e)}`: dict keyed by {show(t[1])}'
            return out
        return jt(set(), unknown=f'`{ast.unparse(e)}`: {show(t)}')


def schema_types(node) -> set:
    t = node.get('type')
    if t is None:
        return {'string', 'integer', 'number', 'boolean', 'null', 'array', 'object'}
    s = set(t) if isinstance(t, list) else {t}
    if 'number' in s:
        s.add('integer')
    return s


def against_schema(j, node, resolve, path='') -> List[str]:
    """Reasons why JSON type `j` is not within schema `node` (empty = conforms)."""
    node = resolve(node)
    out = []
    if 'undecided' in j:
        raise AnalysisError('typeflow', path or 'value', j['undecided'] + ': outside the expressions the JSON typer understands')
    if 'unknown' in j:
        out.append(f'{path or "value"}: {j["unknown"]}')
    extra = j['types'] - schema_types(node)
    if extra:
        out.append(f'{path or "value"}: writer produces {sorted(extra)}, schema allows {sorted(schema_types(node))}')
    if 'enum' in node:
        allowed = node['enum']
        if 'null' in j['types'] and None not in allowed:
            out.append(f'{path or "value"}: writer produces null (e.g. on a passed-out board), the schema enum {allowed} does not allow it')
        if 'string' in j['types']:
            if 'language' in j:
                miss = sorted(x for x in j['language'] if x not in allowed)
                if miss:
                    out.append(f'{path or "value"}: writer produces {miss}, the schema enum {allowed} does not allow them')
            else:
                out.append(f'{path or "value"}: the schema restricts the value to {allowed} but the strings the writer produces are not a known finite set')
        if ('integer' in j['types'] or 'boolean' in j['types']) and not any(isinstance(x, (int, bool)) for x in allowed):
            out.append(f'{path or "value"}: writer produces numbers, the schema enum {allowed} has none')
    if 'array' in j['types'] and 'items' in j and 'items' in node:
        out += against_schema(j['items'], node['items'], resolve, path + '[]')
    if 'object' in j['types']:
        props = resolve(node).get('properties', {})
        for k, v in j.get('properties', {}).items():
            if k in props:
                out += against_schema(v, props[k], resolve, f'{path}.{k}' if path else k)
        if 'additional' in j:
            for k, sub in props.items():
                out += against_schema(j['additional'], sub, resolve, f'{path}.{k}' if path else k)
        for req in node.get('required', []):
            if 'properties' in j and req not in j['properties']:
                out.append(f'{path or "record"}: required key {req!r} is not written unconditionally')
    return out
