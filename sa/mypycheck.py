"""Thorough tier: cross-check of the program index (E1) against mypy's type-resolved program.

The summariser, the folder and the skeleton interpreter resolve `self.m(...)`, `super().m(...)` and `cls.m(...)` through
sa.index (MRO walk over the classes of the package).  Here the repository's own mypy (2.x, used as a library; nothing of the
subject is imported or executed - mypy is itself a static analyser) type-checks the package with export_types, and for every
call site `<receiver>.m(...)` whose receiver mypy types as an instance / class of a package class, the class that DEFINES `m`
according to mypy must be the class sa.index resolves.  A disagreement is an analysis error (the resolver cannot be trusted
for that site); the counts go into the evidence.

Run as a subprocess (`python -m sa.mypycheck <repo>`): prints one JSON object and leaves with os._exit (mypy's teardown is slow)."""
from __future__ import annotations

import json
import os
import sys


def main(root: str) -> None:
    sys.path.insert(0, os.path.dirname(os.path.dirname(os.path.abspath(__file__))))
    from sa.index import Repo
    out = {'available': False}
    try:
        from mypy import build
        from mypy.find_sources import create_source_list
        from mypy.nodes import CallExpr, ClassDef, MemberExpr, MypyFile, Node, SuperExpr
        from mypy.options import Options
        from mypy.types import CallableType, Instance, TypeType, get_proper_type
    except Exception as e:  # noqa
        out['why'] = f'mypy not importable: {e}'
        print(json.dumps(out))
        sys.stdout.flush()
        os._exit(0)
    repo = Repo(root)
    os.chdir(root)
    o = Options()
    o.preserve_asts = True
    o.export_types = True
    o.incremental = False
    o.cache_dir = os.devnull
    o.ignore_missing_imports = True
    res = build.build(create_source_list(['bridge_env'], o), o)
    child_attrs = {}

    def children(node):
        t = type(node)
        names = child_attrs.get(t)
        if names is None:
            names = child_attrs[t] = [n for n in dir(t) if not n.startswith('_') and not callable(getattr(t, n, None))] + \
                [n for n in getattr(node, '__dict__', {}) if not n.startswith('_')]
        for n in names:
            try:
                v = getattr(node, n)
            except Exception:  # noqa
                continue
            if isinstance(v, Node) and not isinstance(v, MypyFile):
                yield v
            elif isinstance(v, (list, tuple)):
                for x in v:
                    if isinstance(x, Node):
                        yield x
                    elif isinstance(x, (list, tuple)):
                        for y in x:
                            if isinstance(y, Node):
                                yield y
    sites = agree = 0
    disagreements = []
    unresolved_by_index = 0
    for mid, st in res.graph.items():
        if not mid.startswith('bridge_env') or st.tree is None:
            continue
        stack = [(st.tree, None)]
        seen = set()
        while stack:
            node, cls = stack.pop()
            if id(node) in seen:
                continue
            seen.add(id(node))
            if isinstance(node, ClassDef):
                cls = node
            if isinstance(node, CallExpr) and isinstance(node.callee, MemberExpr):
                c = node.callee
                owner = None
                if isinstance(c.expr, SuperExpr):
                    pass
                else:
                    rt = res.types.get(c.expr)
                    rt = get_proper_type(rt) if rt is not None else None
                    ti = None
                    if isinstance(rt, Instance):
                        ti = rt.type
                    elif isinstance(rt, TypeType) and isinstance(get_proper_type(rt.item), Instance):
                        ti = get_proper_type(rt.item).type
                    elif isinstance(rt, CallableType) and rt.is_type_obj():
                        ti = rt.type_object()
                    if ti is not None and ti.fullname.startswith('bridge_env.'):
                        m = ti.get_method(c.name)
                        if m is not None and getattr(m, 'info', None) is not None:
                            owner = (ti.name, m.info.name)
                if owner is not None:
                    sites += 1
                    recv_cls, def_cls = owner
                    if repo.has_cls(recv_cls) and repo.has_method(recv_cls, c.name):
                        ci, _fn = repo.method(recv_cls, c.name, 'mypycheck')
                        if ci.name.split('.')[-1] == def_cls:
                            agree += 1
                        else:
                            disagreements.append(f'{mid}:{node.line} {recv_cls}.{c.name}: index -> {ci.name}, mypy -> {def_cls}')
                    else:
                        unresolved_by_index += 1
            for ch in children(node):
                stack.append((ch, cls))
    out = {'available': True, 'mypy_errors': len(res.errors), 'call_sites_typed_by_mypy': sites, 'agree': agree,
           'disagreements': disagreements[:20], 'not_resolved_by_index': unresolved_by_index}
    print(json.dumps(out))
    sys.stdout.flush()
    os._exit(0)


if __name__ == '__main__':
    main(sys.argv[1] if len(sys.argv) > 1 else '/repo')
