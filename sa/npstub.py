"""A model of the part of numpy the subject uses: one-dimensional arrays of numbers.

The folder (sa.fold) never imports or runs numpy; when a rule asks for it (`Folder.numpy = npstub`) the names of the numpy module
resolve to the functions below and arrays are `Arr` objects with numpy's documented semantics for 1-d arrays: element, slice,
boolean-mask and index-array reads and writes with scalar broadcasting, elementwise comparison / arithmetic, where / nonzero,
reductions.  Anything outside this model (more dimensions, other functions) is `Unsupported` -> analysis error, never a guess."""
from __future__ import annotations

import operator
from typing import Any, List

from .fold import FoldRaise, Unsupported

INT_TYPES = {'int8', 'int16', 'int32', 'int64', 'uint8', 'uint16', 'uint32', 'uint64', 'int_', 'intp', 'int'}
FLOAT_TYPES = {'float16', 'float32', 'float64', 'float_', 'float', 'double'}
BOOL_TYPES = {'bool_', 'bool', 'bool8'}


class DType:
    _sa_native = True

    hasobject = False       # the model has numeric and boolean element types only

    def __init__(self, name):
        self.name = name

    def __repr__(self):
        return f'dtype({self.name})'

    def __eq__(self, o):
        return isinstance(o, DType) and kind(o) == kind(self) and o.name == self.name

    def __hash__(self):
        return hash(self.name)

    def __call__(self, v=0):          # np.int32(3): a scalar
        return coerce(v, self)


def kind(dt) -> str:
    n = dt.name if isinstance(dt, DType) else dt if isinstance(dt, str) else getattr(dt, '__name__', None)
    if isinstance(dt, tuple) and len(dt) == 2 and dt[0] == 'builtin':
        n = dt[1]
    if n in INT_TYPES:
        return 'i'
    if n in FLOAT_TYPES:
        return 'f'
    if n in BOOL_TYPES:
        return 'b'
    raise Unsupported(f'numpy dtype {dt!r}')


def coerce(v, dt):
    k = kind(dt)
    if isinstance(v, Arr):
        raise Unsupported('array stored as an element')
    if not isinstance(v, (int, float, bool)):
        raise FoldRaise('TypeError', f'cannot store {type(v).__name__} in a numeric array')
    return int(v) if k == 'i' else float(v) if k == 'f' else bool(v)


def as_dtype(dt, default='float64') -> DType:
    if dt is None:
        return DType(default)
    if isinstance(dt, DType):
        return dt
    if isinstance(dt, str):
        return DType(dt)
    if isinstance(dt, tuple) and len(dt) == 2 and dt[0] == 'builtin':
        return DType({'int': 'int64', 'float': 'float64', 'bool': 'bool_'}.get(dt[1], dt[1]))
    if dt in (int, float, bool):
        return DType({int: 'int64', float: 'float64', bool: 'bool_'}[dt])
    raise Unsupported(f'numpy dtype {dt!r}')


class Arr:
    """numpy.ndarray, one dimension."""
    _sa_native = True
    __hash__ = None

    def __init__(self, data, dtype):
        self.dtype = as_dtype(dtype)
        self.data: List[Any] = [coerce(x, self.dtype) for x in data]

    # -- shape -----------------------------------------------------------------------------------------------------------
    def __len__(self):
        return len(self.data)

    def __iter__(self):
        return iter(list(self.data))

    def __repr__(self):
        return f'array({self.data})'

    @property
    def shape(self):
        return (len(self.data),)

    @property
    def size(self):
        return len(self.data)

    ndim = 1

    def __bool__(self):
        if len(self.data) == 1:
            return bool(self.data[0])
        raise FoldRaise('ValueError', 'The truth value of an array with more than one element is ambiguous')

    # -- indexing ---------------------------------------------------------------------------------------------------------
    def _positions(self, k) -> List[int]:
        n = len(self.data)
        if isinstance(k, slice):
            return list(range(*k.indices(n)))
        if isinstance(k, Arr) and kind(k.dtype) == 'b' or (isinstance(k, list) and k and all(isinstance(x, bool) for x in k)):
            mask = k.data if isinstance(k, Arr) else k
            if len(mask) != n:
                raise FoldRaise('IndexError', 'boolean index did not match indexed array')
            return [i for i, m in enumerate(mask) if m]
        if isinstance(k, (Arr, list, tuple)) and not (isinstance(k, tuple) and len(k) != 1):
            idxs = k.data if isinstance(k, Arr) else list(k[0] if isinstance(k, tuple) and isinstance(k[0], (list, Arr)) else k)
            if isinstance(idxs, Arr):
                idxs = idxs.data
            out = []
            for i in idxs:
                if isinstance(i, bool) or not isinstance(i, int):
                    raise FoldRaise('IndexError', 'arrays used as indices must be of integer (or boolean) type')
                if not -n <= i < n:
                    raise FoldRaise('IndexError', f'index {i} is out of bounds for axis 0 with size {n}')
                out.append(i % n if n else i)
            return out
        raise Unsupported(f'numpy index {type(k).__name__}')

    def __getitem__(self, k):
        if isinstance(k, bool):
            raise Unsupported('boolean scalar index')
        if isinstance(k, int):
            n = len(self.data)
            if not -n <= k < n:
                raise FoldRaise('IndexError', f'index {k} is out of bounds for axis 0 with size {n}')
            return self.data[k]
        if isinstance(k, float):
            raise FoldRaise('IndexError', 'only integers, slices (`:`), ellipsis (`...`), numpy.newaxis (`None`) and integer or boolean arrays are valid indices')
        return Arr([self.data[i] for i in self._positions(k)], self.dtype)

    def __setitem__(self, k, v):
        if isinstance(k, int) and not isinstance(k, bool):
            n = len(self.data)
            if not -n <= k < n:
                raise FoldRaise('IndexError', f'index {k} is out of bounds for axis 0 with size {n}')
            self.data[k] = coerce(v, self.dtype)
            return
        if isinstance(k, float):
            raise FoldRaise('IndexError', 'only integers, slices and integer or boolean arrays are valid indices')
        pos = self._positions(k)
        if isinstance(v, (Arr, list, tuple)):
            vs = v.data if isinstance(v, Arr) else list(v)
            if len(vs) == 1:
                vs = vs * len(pos)
            if len(vs) != len(pos):
                raise FoldRaise('ValueError', f'could not broadcast input array from shape ({len(vs)},) into shape ({len(pos)},)')
        else:
            vs = [v] * len(pos)
        for i, x in zip(pos, vs):
            self.data[i] = coerce(x, self.dtype)

    # -- elementwise -------------------------------------------------------------------------------------------------------
    def _zip(self, o, op, dtype=None, swap=False):
        if isinstance(o, (Arr, list, tuple)):
            od = o.data if isinstance(o, Arr) else list(o)
            if len(od) == 1 and len(self.data) != 1:
                od = od * len(self.data)
            sd = self.data if len(self.data) != 1 or len(od) == 1 else self.data * len(od)
            if len(od) != len(sd):
                raise FoldRaise('ValueError', f'operands could not be broadcast together with shapes ({len(sd)},) ({len(od)},)')
        elif isinstance(o, (int, float, bool)):
            sd, od = self.data, [o] * len(self.data)
        else:
            return NotImplemented
        vals = [op(b, a) if swap else op(a, b) for a, b in zip(sd, od)]
        if dtype is None:
            ks = {kind(self.dtype)} | ({kind(o.dtype)} if isinstance(o, Arr) else {'f' if isinstance(o, float) else 'i'})
            if any(isinstance(x, float) for x in vals):
                ks.add('f')
            dtype = 'float64' if 'f' in ks else 'int64' if 'i' in ks else 'bool_'
        return Arr(vals, dtype)

    def __eq__(self, o): return self._zip(o, operator.eq, 'bool_')      # noqa: E704
    def __ne__(self, o): return self._zip(o, operator.ne, 'bool_')      # noqa: E704
    def __lt__(self, o): return self._zip(o, operator.lt, 'bool_')      # noqa: E704
    def __le__(self, o): return self._zip(o, operator.le, 'bool_')      # noqa: E704
    def __gt__(self, o): return self._zip(o, operator.gt, 'bool_')      # noqa: E704
    def __ge__(self, o): return self._zip(o, operator.ge, 'bool_')      # noqa: E704
    def __add__(self, o): return self._zip(o, operator.add)             # noqa: E704
    def __radd__(self, o): return self._zip(o, operator.add, swap=True)  # noqa: E704
    def __sub__(self, o): return self._zip(o, operator.sub)             # noqa: E704
    def __rsub__(self, o): return self._zip(o, operator.sub, swap=True)  # noqa: E704
    def __mul__(self, o): return self._zip(o, operator.mul)             # noqa: E704
    def __rmul__(self, o): return self._zip(o, operator.mul, swap=True)  # noqa: E704

    def _logic(self, o, op):
        if kind(self.dtype) == 'f' or (isinstance(o, Arr) and kind(o.dtype) == 'f') or isinstance(o, float):
            raise FoldRaise('TypeError', 'bitwise operation on a float array')
        return self._zip(o, op, 'bool_' if kind(self.dtype) == 'b' and (not isinstance(o, Arr) or kind(o.dtype) == 'b') else 'int64')

    def __and__(self, o): return self._logic(o, operator.and_)          # noqa: E704
    def __or__(self, o): return self._logic(o, operator.or_)            # noqa: E704
    def __xor__(self, o): return self._logic(o, operator.xor)           # noqa: E704
    __rand__, __ror__, __rxor__ = __and__, __or__, __xor__

    def __invert__(self):
        if kind(self.dtype) == 'b':
            return Arr([not x for x in self.data], 'bool_')
        if kind(self.dtype) == 'i':
            return Arr([~x for x in self.data], self.dtype)
        raise FoldRaise('TypeError', "ufunc 'invert' not supported for the input types")

    def __neg__(self):
        return Arr([-x for x in self.data], self.dtype)

    # -- methods -----------------------------------------------------------------------------------------------------------
    def tolist(self):
        return list(self.data)

    def copy(self, order='C'):
        return Arr(self.data, self.dtype)

    def astype(self, dtype):
        return Arr(self.data, as_dtype(dtype))

    def fill(self, v):
        self.data = [coerce(v, self.dtype)] * len(self.data)

    def sum(self):
        return sum(self.data)

    def any(self):
        return any(self.data)

    def all(self):
        return all(self.data)

    def max(self):
        if not self.data:
            raise FoldRaise('ValueError', 'zero-size array to reduction operation maximum which has no identity')
        return max(self.data)

    def min(self):
        if not self.data:
            raise FoldRaise('ValueError', 'zero-size array to reduction operation minimum which has no identity')
        return min(self.data)

    def argmax(self):
        if not self.data:
            raise FoldRaise('ValueError', 'attempt to get argmax of an empty sequence')
        return self.data.index(max(self.data))

    def argmin(self):
        if not self.data:
            raise FoldRaise('ValueError', 'attempt to get argmin of an empty sequence')
        return self.data.index(min(self.data))

    def nonzero(self):
        return (Arr([i for i, x in enumerate(self.data) if x], 'int64'),)


def _length(shape) -> int:
    if isinstance(shape, (tuple, list)):
        if len(shape) != 1:
            raise Unsupported('numpy arrays of more than one dimension')
        shape = shape[0]
    if isinstance(shape, bool) or not isinstance(shape, int):
        raise FoldRaise('TypeError', f'{type(shape).__name__} cannot be interpreted as an integer')
    if shape < 0:
        raise FoldRaise('ValueError', 'negative dimensions are not allowed')
    return shape


def _arr(a) -> Arr:
    if isinstance(a, Arr):
        return a
    if isinstance(a, (list, tuple, range)):
        return array(a)
    raise Unsupported(f'numpy function on {type(a).__name__}')


def zeros(shape, dtype=None):
    return Arr([0] * _length(shape), as_dtype(dtype))


def ones(shape, dtype=None):
    return Arr([1] * _length(shape), as_dtype(dtype))


def full(shape, fill_value, dtype=None):
    return Arr([fill_value] * _length(shape), as_dtype(dtype, 'float64' if isinstance(fill_value, float) else 'bool_' if isinstance(fill_value, bool) else 'int64'))


def empty(shape, dtype=None):
    raise Unsupported('numpy.empty: contents are unspecified')


def array(seq, dtype=None, copy=True):
    if isinstance(seq, Arr):
        return Arr(seq.data, as_dtype(dtype, seq.dtype.name))
    vals = list(seq)
    if any(isinstance(x, (list, tuple, Arr)) for x in vals):
        raise Unsupported('numpy arrays of more than one dimension')
    if dtype is None:
        dtype = 'float64' if any(isinstance(x, float) for x in vals) else 'bool_' if vals and all(isinstance(x, bool) for x in vals) else 'int64'
        if not vals:
            dtype = 'float64'
    return Arr(vals, as_dtype(dtype))


def asarray(seq, dtype=None):
    if isinstance(seq, Arr) and (dtype is None or as_dtype(dtype) == seq.dtype):
        return seq
    return array(seq, dtype)


def arange(*a, dtype=None):
    return Arr(list(range(*a)), as_dtype(dtype, 'int64'))


def where(cond, x=None, y=None):
    c = _arr(cond)
    if x is None and y is None:
        return c.nonzero()
    if x is None or y is None:
        raise FoldRaise('ValueError', 'either both or neither of x and y should be given')
    xs = x.data if isinstance(x, Arr) else list(x) if isinstance(x, (list, tuple)) else [x] * len(c)
    ys = y.data if isinstance(y, Arr) else list(y) if isinstance(y, (list, tuple)) else [y] * len(c)
    if len(xs) != len(c) or len(ys) != len(c):
        raise Unsupported('numpy.where broadcasting')
    vals = [a if m else b for m, a, b in zip(c.data, xs, ys)]
    return array(vals)


def nonzero(a):
    return _arr(a).nonzero()


def flatnonzero(a):
    return _arr(a).nonzero()[0]


def argwhere(a):
    raise Unsupported('numpy.argwhere (two-dimensional result)')


def count_nonzero(a):
    return len(_arr(a).nonzero()[0])


def array_equal(a, b):
    a, b = _arr(a), _arr(b)
    return len(a) == len(b) and all(x == y for x, y in zip(a.data, b.data))


def concatenate(seqs, axis=0, dtype=None):
    arrs = [_arr(x) for x in seqs]
    ks = {kind(a.dtype) for a in arrs}
    return Arr([x for a in arrs for x in a.data], as_dtype(dtype, 'float64' if 'f' in ks else 'int64' if 'i' in ks else 'bool_'))


def logical_and(a, b): return _arr(a)._zip(b, lambda x, y: bool(x) and bool(y), 'bool_')   # noqa: E704
def logical_or(a, b): return _arr(a)._zip(b, lambda x, y: bool(x) or bool(y), 'bool_')     # noqa: E704
def logical_not(a): return Arr([not x for x in _arr(a).data], 'bool_')                     # noqa: E704


FUNCS = {f.__name__: f for f in (zeros, ones, full, empty, array, asarray, arange, where, nonzero, flatnonzero, argwhere, count_nonzero,
                                 array_equal, concatenate, logical_and, logical_or, logical_not)}
def fromiter(it, dtype, count=-1):
    vals = list(it)
    if count is not None and count >= 0:
        if len(vals) < count:
            raise FoldRaise('ValueError', 'iterator too short')
        vals = vals[:count]
    return Arr(vals, as_dtype(dtype))


def fromiter_(it, dtype=None, count=-1, **k):
    if dtype is None:
        raise FoldRaise('TypeError', "fromiter() missing required argument 'dtype'")
    return fromiter(it, dtype, count)


FUNCS['fromiter'] = fromiter_
FUNCS.update({
    'sum': lambda a: _arr(a).sum(), 'any': lambda a: _arr(a).any(), 'all': lambda a: _arr(a).all(),
    'max': lambda a: _arr(a).max(), 'min': lambda a: _arr(a).min(), 'amax': lambda a: _arr(a).max(), 'amin': lambda a: _arr(a).min(),
    'argmax': lambda a: _arr(a).argmax(), 'argmin': lambda a: _arr(a).argmin(), 'copy': lambda a: _arr(a).copy(),
    'zeros_like': lambda a, dtype=None: zeros(len(_arr(a)), dtype or _arr(a).dtype),
    'ones_like': lambda a, dtype=None: ones(len(_arr(a)), dtype or _arr(a).dtype),
})


def attr(name: str):
    """Value of `numpy.<name>` in the model (as the folder represents it)."""
    if name in FUNCS:
        return ('pyfunc', FUNCS[name])
    if name in INT_TYPES | FLOAT_TYPES | BOOL_TYPES:
        return DType(name)
    if name in ('ndarray', 'dtype', 'generic', 'number', 'integer', 'floating'):
        return ('extern', f'numpy.{name}')
    raise Unsupported(f'numpy.{name} is outside the array model')
