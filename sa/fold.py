"""E4(b) - table extraction by constant folding.

Pure, loop-free converter functions of the subject (enum properties, the
card / call / contract / vulnerability notations) are folded over the complete
finite domains read from the source (enum members, the rank range guarded by
`__post_init__`), giving finite tables that rules compare as wholes.  This is
partial evaluation inside the analyser over the AST - nothing of the subject is
imported or executed by CPython.  Anything outside the supported pure subset
(loops, I/O, mutation of non-locals) is an analysis error, not a guess."""
from __future__ import annotations

import ast
from typing import Any, Dict, List, Optional, Tuple

from .index import AnalysisError, ClassInfo, ModuleInfo, Repo, clone


class FoldRaise(Exception):
    """The folded function raises for this input (row undefined)."""

    def __init__(self, kind: str, msg: str = '', exc_args=None, bases=()):
        super().__init__(f'{kind}: {msg}')
        self.kind = kind
        self.msg = msg
        self.exc_args = exc_args      # evaluated constructor arguments of the exception object (None: not known to the folder)
        self.bases = tuple(bases)     # names of the classes of the exception's MRO inside the package and their builtin bases
        self.cause = None


class Unsupported(Exception):
    pass


def _py_exc(ex: BaseException) -> 'FoldRaise':
    """The exception of the subject that corresponds to a Python exception raised by a standard-library function the folder ran on the
    subject's values (class name, the names of its bases for `except`, its arguments)."""
    plain = all(x is None or isinstance(x, (bool, int, float, str, bytes)) for x in ex.args)
    return FoldRaise(type(ex).__name__, str(ex), exc_args=tuple(ex.args) if plain else None, bases=[c.__name__ for c in type(ex).__mro__ if c is not object])


class EV:
    """An enum member."""
    __slots__ = ('cls', 'name', 'value')

    def __init__(self, cls: ClassInfo, name: str, value):
        self.cls, self.name, self.value = cls, name, value

    def __eq__(self, o):
        return isinstance(o, EV) and o.cls is self.cls and o.name == self.name

    def __hash__(self):
        return hash((self.cls.name, self.name))

    def __repr__(self):
        return f'{self.cls.name}.{self.name}'


class DV:
    """A (frozen) dataclass instance."""
    __slots__ = ('cls', 'fields')

    def __init__(self, cls: ClassInfo, fields: Dict[str, Any]):
        self.cls, self.fields = cls, fields

    def _k(self):
        return (self.cls.name, tuple(sorted((k, repr(v)) for k, v in self.fields.items())))

    def __eq__(self, o):
        return isinstance(o, DV) and self._k() == o._k()

    def __hash__(self):
        return hash(self._k())

    def __lt__(self, o):       # only used to give sets of folded values a stable iteration order
        return repr(self) < repr(o)

    def __repr__(self):
        return f'{self.cls.name}({", ".join(f"{k}={v!r}" for k, v in self.fields.items())})'


class ClsRef:
    __slots__ = ('cls',)

    def __init__(self, cls: ClassInfo):
        self.cls = cls

    def __eq__(self, o):
        return isinstance(o, ClsRef) and o.cls is self.cls

    def __hash__(self):
        return hash(self.cls.name)


class Bound:
    __slots__ = ('self_val', 'cls', 'fn')

    def __init__(self, self_val, cls, fn):
        self.self_val, self.cls, self.fn = self_val, cls, fn


_UNSET = object()


class _Return(Exception):
    def __init__(self, v):
        self.v = v


class _Break(Exception):
    pass


class _Continue(Exception):
    pass


BUILTINS = {'bytearray', 'issubclass', 'dict', 'range', 'enumerate', 'str', 'int', 'len', 'abs', 'isinstance', 'tuple', 'bool', 'ValueError', 'Exception',
            'KeyError', 'NotImplementedError', 'TypeError', 'list', 'sorted', 'set', 'min', 'max', 'all', 'any', 'zip', 'map',
            'print', 'repr', 'ConnectionError', 'IndexError', 'AssertionError', 'sum', 'reversed', 'frozenset', 'getattr', 'hasattr',
            'setattr', 'RuntimeError', 'OSError', 'id', 'iter', 'next', 'divmod', 'round', 'type', 'object', 'AttributeError', 'StopIteration',
            'TimeoutError', 'ord', 'chr', 'filter', 'callable', 'format', 'hash', 'bytes', 'float', 'pow', 'bin', 'hex', 'oct', 'ascii',
            'NotImplemented', 'LookupError', 'ArithmeticError', 'ZeroDivisionError', 'OverflowError', 'UnicodeDecodeError', 'UnicodeEncodeError', 'UnicodeError',
            'EOFError', 'BrokenPipeError', 'ConnectionResetError', 'ConnectionAbortedError', 'ConnectionRefusedError', 'BaseException', 'KeyboardInterrupt',
            'vars', 'NameError', 'IOError', 'FileNotFoundError', 'PermissionError', 'InterruptedError', 'BlockingIOError', 'RecursionError', 'ImportError', 'SystemExit'}


# standard-library modules whose functions are pure functions of immutable arguments: evaluated natively by the folder
PURE_MODULES = {'bisect', 'math', 'operator', 'string'}


def _has_internal(vals) -> bool:
    """Is one of the values an object of the folder's own representation (not a plain Python value a stdlib function understands)?"""
    for v in vals:
        if isinstance(v, (DV, EV, ClsRef, Bound, OrdInt, IntervalInt, OpaqueText, Opaque)):
            return True
        if isinstance(v, tuple) and v and isinstance(v[0], str) and v[0] in ('lambda', 'closure', 'func', 'pyfunc', 'builtin', 'strmethod', 'pymodule', 'extern'):
            return True
    return False


_EXC_ALIASES = {'IOError': 'OSError', 'EnvironmentError': 'OSError'}


def _catches(htype, kind: str, bases=()) -> bool:
    """Does `except <htype>` catch an exception of class name `kind` (builtin exception hierarchy; classes of the package through the
    names of their bases; unknown classes by name)?"""
    import builtins
    if htype is None:
        return True
    names = [ast.unparse(x).split('.')[-1] for x in (htype.elts if isinstance(htype, ast.Tuple) else [htype])]
    k = getattr(builtins, kind.split('.')[-1], None)
    if not isinstance(k, type):
        # a class of the package: caught by its own name, by a package base, or by a builtin class one of its builtin bases derives from
        for bn in bases:
            bk = getattr(builtins, bn, None)
            for n in names:
                if n == bn:
                    return True
                b = getattr(builtins, n, None)
                if isinstance(bk, type) and isinstance(b, type) and issubclass(bk, b):
                    return True
    for n in names:
        if n == kind.split('.')[-1]:
            return True
        b = getattr(builtins, n, None)
        if isinstance(k, type) and isinstance(b, type) and issubclass(k, b):
            return True
        if not isinstance(k, type) and n in ('Exception', 'BaseException'):
            return True
    return False


_GEN_CACHE: Dict[int, bool] = {}
import re as _re_mod      # noqa: E402
_OWN_BINDING = _re_mod.compile(r'(<lambda>|<locals>|Folder\.)[\w.<>]*\(\) (got|takes|missing)')


def _own_nodes(fn):
    """Nodes of a function body excluding nested function / class definitions and lambdas."""
    stack = [n for n in fn.body if not isinstance(n, (ast.FunctionDef, ast.AsyncFunctionDef, ast.ClassDef))]
    while stack:
        n = stack.pop()
        yield n
        for c in ast.iter_child_nodes(n):
            if isinstance(c, (ast.FunctionDef, ast.AsyncFunctionDef, ast.ClassDef, ast.Lambda)):
                continue
            stack.append(c)


class OrdInt:
    """An integer of the subject of which only the ORDER is part of the abstraction: a representative of an order class of
    values in [lo, hi].  Comparisons with other OrdInts, and with constants whose outcome is the same for every value of the
    range, are evaluated; every other operation (arithmetic, hashing, formatting, indexing) would make the result depend on more
    than the order and leaves the abstraction (Unsupported -> analysis error).  A result folded on one representative therefore
    holds for every member of its order class by construction, not by a syntactic argument about how the value is used."""

    __slots__ = ('v', 'lo', 'hi')

    def __init__(self, v, lo, hi):
        self.v, self.lo, self.hi = v, lo, hi

    def _plain(self):
        return self.v

    def _cmp(self, o, op, sym):
        if isinstance(o, OrdInt):
            return op(self._plain(), o._plain())
        if isinstance(o, bool) or not isinstance(o, int):
            raise Unsupported(f'comparison of an order-abstract integer with {type(o).__name__}')
        vals = {op(x, o) for x in range(self.lo, self.hi + 1)}
        if len(vals) != 1:
            raise Unsupported(f'`<value> {sym} {o}` is not decided by the order of the values in [{self.lo}, {self.hi}]')
        return vals.pop()

    def __lt__(self, o): return self._cmp(o, lambda a, b: a < b, '<')        # noqa: E704
    def __le__(self, o): return self._cmp(o, lambda a, b: a <= b, '<=')      # noqa: E704
    def __gt__(self, o): return self._cmp(o, lambda a, b: a > b, '>')        # noqa: E704
    def __ge__(self, o): return self._cmp(o, lambda a, b: a >= b, '>=')      # noqa: E704
    def __eq__(self, o): return self._cmp(o, lambda a, b: a == b, '==') if isinstance(o, (int, OrdInt)) else False   # noqa: E704
    def __ne__(self, o): return self._cmp(o, lambda a, b: a != b, '!=') if isinstance(o, (int, OrdInt)) else True    # noqa: E704

    def __bool__(self):
        vals = {bool(x) for x in range(self.lo, self.hi + 1)}
        if len(vals) != 1:
            raise Unsupported('truth value of an order-abstract integer')
        return vals.pop()

    def __repr__(self):
        return f'<ord {self._plain()}>'

    def _no(self, *a, **k):
        raise Unsupported('an order-abstract integer is used in an operation that depends on more than the order of the values')

    __hash__ = __str__ = __format__ = __index__ = __int__ = __float__ = __neg__ = __pos__ = __abs__ = __invert__ = __round__ = _no
    __add__ = __radd__ = __sub__ = __rsub__ = __mul__ = __rmul__ = __floordiv__ = __rfloordiv__ = __truediv__ = __rtruediv__ = _no
    __mod__ = __rmod__ = __divmod__ = __rdivmod__ = __pow__ = __rpow__ = __lshift__ = __rlshift__ = __rshift__ = __rrshift__ = _no
    __and__ = __rand__ = __or__ = __ror__ = __xor__ = __rxor__ = _no


class Opaque:
    """A value of the subject that must not matter: it can be stored, copied and passed on; every operation that would look at it
    (comparison with anything but itself, arithmetic, hashing, formatting, truth value) leaves the abstraction (Unsupported)."""
    __slots__ = ('tag',)

    def __init__(self, tag):
        self.tag = tag

    def __repr__(self):
        return f'<opaque {self.tag}>'

    def __eq__(self, o):
        if o is self:
            return True
        raise Unsupported(f'an opaque value ({self.tag}) is compared')

    def __ne__(self, o):
        return not self.__eq__(o)

    def _no(self, *a, **k):
        raise Unsupported(f'an opaque value ({self.tag}) is consulted')

    __hash__ = __str__ = __format__ = __bool__ = __lt__ = __le__ = __gt__ = __ge__ = __index__ = __int__ = __float__ = __neg__ = __abs__ = _no
    __add__ = __radd__ = __sub__ = __rsub__ = __mul__ = __rmul__ = __floordiv__ = __rfloordiv__ = __mod__ = __rmod__ = __len__ = __iter__ = __getitem__ = _no


class OpaqueText:
    """A text of the subject of which only the length and the places of its line breaks are known: a sequence of symbols, each a known
    character or an opaque one (an integer id standing for "some character that is not a line break").  Length, indexing, slicing,
    concatenation, iteration and tests against line breaks are answered; anything that depends on what the opaque characters are leaves
    the abstraction (Unsupported), so a result obtained on one text of each length holds for every text of that length."""
    _sa_native = True
    __slots__ = ('syms',)

    def __init__(self, syms):
        self.syms = tuple(syms)

    @staticmethod
    def of_length(n: int, newline_at_end: bool = False):
        return OpaqueText(list(range(n)) + (['\n'] if newline_at_end else []))

    def __repr__(self):
        return '<text ' + ''.join(x if isinstance(x, str) and x != '\n' else '\\n' if x == '\n' else '?' for x in self.syms[:20]) + f'... len {len(self.syms)}>'

    def __len__(self):
        return len(self.syms)

    def __getitem__(self, k):
        if isinstance(k, slice):
            return OpaqueText(self.syms[k])
        if isinstance(k, bool) or not isinstance(k, int):
            raise FoldRaise('TypeError', 'string indices must be integers')
        try:
            return OpaqueText((self.syms[k],))
        except IndexError:
            raise FoldRaise('IndexError', 'string index out of range')

    def __iter__(self):
        return iter([OpaqueText((x,)) for x in self.syms])

    @staticmethod
    def _syms_of(o):
        if isinstance(o, OpaqueText):
            return o.syms
        if isinstance(o, str):
            return tuple(o)
        return None

    def __add__(self, o):
        t = self._syms_of(o)
        if t is None:
            raise FoldRaise('TypeError', 'can only concatenate str to str')
        return OpaqueText(self.syms + t)

    def __radd__(self, o):
        t = self._syms_of(o)
        if t is None:
            raise FoldRaise('TypeError', 'can only concatenate str to str')
        return OpaqueText(t + self.syms)

    def _same(self, o):
        t = self._syms_of(o)
        if t is None:
            return False
        if len(t) != len(self.syms):
            return False
        for a, b in zip(self.syms, t):
            if isinstance(a, str) and isinstance(b, str):
                if a != b:
                    return False
            elif isinstance(a, int) and isinstance(b, int):
                if a != b:
                    raise Unsupported('comparison of two unknown characters of an opaque text')
            else:
                c = a if isinstance(a, str) else b
                if c in '\r\n':
                    return False        # an opaque character is not a line break
                raise Unsupported(f'comparison of an unknown character of an opaque text with {c!r}')
        return True

    def __eq__(self, o):
        return self._same(o)

    def __ne__(self, o):
        return not self._same(o)

    def __contains__(self, o):
        if o in ('\n', '\r'):
            return o in self.syms
        raise Unsupported('search for a character in an opaque text')

    def count(self, o):
        if o in ('\n', '\r'):
            return sum(1 for x in self.syms if x == o)
        raise Unsupported('count of a character in an opaque text')

    def endswith(self, o):
        t = self._syms_of(o)
        return len(t) <= len(self.syms) and OpaqueText(self.syms[len(self.syms) - len(t):])._same(o) if t else True

    def startswith(self, o):
        t = self._syms_of(o)
        return len(t) <= len(self.syms) and OpaqueText(self.syms[:len(t)])._same(o) if t else True

    def __bool__(self):
        return bool(self.syms)

    def _no(self, *a, **k):
        raise Unsupported('an opaque text is used in an operation that depends on its characters')

    __hash__ = __str__ = __format__ = __lt__ = __le__ = __gt__ = __ge__ = __mul__ = __rmul__ = __mod__ = _no


class SplitInterval(BaseException):
    """An interval-abstract integer met an operation whose outcome differs inside its interval: `cuts` are the integers c such that
    the interval must be split between c-1 and c."""

    def __init__(self, cuts):
        super().__init__(f'split before {cuts}')
        self.cuts = list(cuts)


class IntervalInt:
    """An integer of the subject known only to lie in [lo, hi] (None = unbounded).  Comparisons with integer constants are answered
    when the whole interval agrees, otherwise the evaluation asks for the interval to be split at that constant (SplitInterval) and the
    driver (partition_fold) re-runs on the parts: the partition refines itself to exactly the constants the code distinguishes, however
    the code is written (loop over a table, bisect, chained ifs).  abs(), unary minus, + - with constants keep the abstraction; anything
    that needs the exact value (indexing, formatting, hashing) leaves it (Unsupported)."""
    __slots__ = ('lo', 'hi', 'sign', 'off')

    def __init__(self, lo, hi, sign=1, off=0):
        self.lo, self.hi = lo, hi
        self.sign, self.off = sign, off       # this value = sign * (the partitioned variable) + off

    def _split(self, cuts):
        """Cuts on THIS value (boundary between c-1 and c) expressed as cuts on the partitioned variable."""
        raise SplitInterval([c - self.off if self.sign > 0 else self.off - c + 1 for c in cuts])

    def __repr__(self):
        return f'<int in [{"-inf" if self.lo is None else self.lo}, {"+inf" if self.hi is None else self.hi}]>'

    def _below(self, c):      # every value < c ?   True / False / None (straddles)
        if self.hi is not None and self.hi < c:
            return True
        if self.lo is not None and self.lo >= c:
            return False
        return None

    def _cmp(self, o, kind):
        if isinstance(o, bool) or not isinstance(o, int):
            if isinstance(o, IntervalInt):
                if o.lo is not None and o.lo == o.hi:
                    return self._cmp(o.lo, kind)
                raise Unsupported('comparison of two interval-abstract integers')
            return NotImplemented
        if kind == '<':
            r, cuts = self._below(o), [o]
        elif kind == '>=':
            r, cuts = self._below(o), [o]
            r = None if r is None else not r
        elif kind == '<=':
            r, cuts = self._below(o + 1), [o + 1]
        elif kind == '>':
            r, cuts = self._below(o + 1), [o + 1]
            r = None if r is None else not r
        else:       # == / !=
            if self.lo is not None and self.lo == self.hi:
                r = self.lo == o
            elif self._below(o) is True or self._below(o + 1) is False:
                r = False
            else:
                r = None
            cuts = [o, o + 1]
            if r is not None and kind == '!=':
                r = not r
        if r is None:
            self._split(cuts)
        return r

    def __lt__(self, o): return self._cmp(o, '<')      # noqa: E704
    def __le__(self, o): return self._cmp(o, '<=')     # noqa: E704
    def __gt__(self, o): return self._cmp(o, '>')      # noqa: E704
    def __ge__(self, o): return self._cmp(o, '>=')     # noqa: E704
    def __eq__(self, o): return self._cmp(o, '==')     # noqa: E704
    def __ne__(self, o): return self._cmp(o, '!=')     # noqa: E704

    def __bool__(self):
        return self._cmp(0, '!=')

    def __neg__(self):
        return IntervalInt(None if self.hi is None else -self.hi, None if self.lo is None else -self.lo, -self.sign, -self.off)

    def __pos__(self):
        return self

    def __abs__(self):
        if self.lo is not None and self.lo >= 0:
            return self
        if self.hi is not None and self.hi <= 0:
            return -self
        self._split([0, 1])

    def _shift(self, k):
        return IntervalInt(None if self.lo is None else self.lo + k, None if self.hi is None else self.hi + k, self.sign, self.off + k)

    def __add__(self, o):
        if isinstance(o, int) and not isinstance(o, bool):
            return self._shift(o)
        raise Unsupported('arithmetic on an interval-abstract integer')

    __radd__ = __add__

    def __sub__(self, o):
        if isinstance(o, int) and not isinstance(o, bool):
            return self._shift(-o)
        raise Unsupported('arithmetic on an interval-abstract integer')

    def __rsub__(self, o):
        return (-self).__add__(o)

    def _no(self, *a, **k):
        raise Unsupported('an interval-abstract integer is used in an operation that needs its exact value')

    __hash__ = __str__ = __format__ = __index__ = __int__ = __float__ = __invert__ = __round__ = _no
    __mul__ = __rmul__ = __floordiv__ = __rfloordiv__ = __truediv__ = __rtruediv__ = __mod__ = __rmod__ = __divmod__ = __rdivmod__ = _no
    __pow__ = __rpow__ = __lshift__ = __rlshift__ = __rshift__ = __rrshift__ = __and__ = __rand__ = __or__ = __ror__ = __xor__ = __rxor__ = _no


def partition_fold(call, lo=None, hi=None, limit=4000):
    """Evaluates call(IntervalInt) on a partition of [lo, hi] refined until every part gives one answer: [(lo, hi, result)] in order."""
    work = [(lo, hi)]
    leaves = []
    n = 0
    while work:
        a, b = work.pop()
        n += 1
        if n > limit:
            raise Unsupported('the partition of the integers does not stabilise')
        try:
            r = call(IntervalInt(a, b))
        except SplitInterval as sp:
            cuts = sorted(c for c in sp.cuts if (a is None or c > a) and (b is None or c <= b))
            if not cuts:
                raise Unsupported(f'no progress splitting [{a}, {b}] at {sp.cuts}')
            c = cuts[0]
            work.append((c, b))
            work.append((a, c - 1))
            continue
        leaves.append((a, b, r))
    return sorted(leaves, key=lambda t: (t[0] is not None, t[0] if t[0] is not None else 0))


class _Fmt:
    """An object of the subject handed to str.format / % : formatted through the subject's own __format__ / __str__ / __repr__."""
    __slots__ = ('v', 'fo')

    def __init__(self, v, fo):
        self.v, self.fo = v, fo

    def __str__(self):
        return self.fo._str(self.v)

    def __repr__(self):
        return self.fo._repr(self.v)

    def __format__(self, spec):
        c_, fn_ = self.fo._find(self.v.cls, '__format__')
        if fn_ is not None:
            return self.fo._invoke(c_.module, c_, fn_, self.v, [spec], {})
        if isinstance(self.v, EV) and self.v.cls.enum_kind in ('IntEnum', 'IntFlag') and spec:
            return format(self.v.value, spec)
        return format(self.fo._str(self.v), spec)

    def __getattr__(self, name):
        return self.fo._attr(self.v, name)


class LoggerStub:
    """logging.Logger as far as a program can observe it without reading the log: the emitting methods do nothing (their ARGUMENTS are
    evaluated by the caller as usual), the level queries answer what the deployment configured - `debug` of the owning Folder
    (`Folder.debug_logging`): the properties must hold under either setting."""
    _sa_native = True

    def __init__(self, fo):
        self._fo = fo

    def _emit(self, *a, **k):
        return None
    debug = info = warning = warn = error = exception = critical = log = setLevel = addHandler = removeHandler = _emit

    def isEnabledFor(self, level):
        return bool(self._fo.debug_logging) if isinstance(level, int) and level < 30 else True

    def getEffectiveLevel(self):
        return 10 if self._fo.debug_logging else 30

    def getChild(self, *a):
        return self

    def __bool__(self):
        return True


class _GenClose(BaseException):
    """Thrown into a suspended generator of the subject when it is closed."""


class LazyIter:
    """An iterator of the subject (generator, iter(), itertools, generator expression): consumed one item at a time, as in Python."""
    _sa_lazy = True

    LIMIT = 2_000_000

    def __init__(self, it):
        self._it = it
        self._n = 0

    def __iter__(self):
        return self

    def __next__(self):
        self._n += 1
        if self._n > self.LIMIT:
            raise Unsupported('an iterator of the subject produced more than 2 000 000 items')
        return next(self._it)


class _ThreadGen:
    """A generator function of the subject, evaluated lazily.  The body runs on a helper thread that gets the baton from next() and
    hands it back at each yield, so exactly one of generator and consumer runs at any time and their effects interleave as in Python
    (an infinite generator consumed through islice()/next()/break terminates, a generator that blocks blocks its consumer)."""

    def __init__(self, folder, run):
        import threading
        self.folder, self.run = folder, run
        self.to_gen, self.to_cons = threading.Semaphore(0), threading.Semaphore(0)
        self.state = 'new'          # new | live | done
        self.item = None
        self.exc: Optional[BaseException] = None
        self.inject: Optional[BaseException] = None

    def __iter__(self):
        return self

    def _resume(self):
        import threading
        saved = self.folder._cur_mod
        if self.state == 'new':
            self.state = 'live'
            if threading.stack_size() < 64 * 1024 * 1024:
                threading.stack_size(256 * 1024 * 1024)
            threading.Thread(target=self._body, daemon=True).start()
        else:
            self.to_gen.release()
        self.to_cons.acquire()
        self.folder._cur_mod = saved
        if self.exc is not None:
            e, self.exc = self.exc, None
            self.state = 'done'
            raise e
        if self.state == 'done':
            raise StopIteration
        return self.item

    def __next__(self):
        if self.state == 'done':
            raise StopIteration
        return self._resume()

    def throw(self, exc):
        if self.state != 'live':
            self.state = 'done'
            raise exc
        self.inject = exc
        return self._resume()

    def close(self):
        if self.state == 'live':
            try:
                self.throw(_GenClose())
            except (_GenClose, StopIteration):
                pass
        self.state = 'done'

    def _body(self):
        try:
            self.run(self)
        except (_Return, _GenClose):
            pass
        except BaseException as e:  # noqa - re-raised in the consumer
            self.exc = e
        self.state = 'done'
        self.to_cons.release()

    # the sink the folded `yield` statements write to (called on the generator's thread)
    def append(self, v):
        self.item = v
        self.to_cons.release()
        self.to_gen.acquire()
        if self.inject is not None:
            e, self.inject = self.inject, None
            raise e

    def extend(self, it):
        for v in it:
            self.append(v)


class _GenCM:
    """contextlib.contextmanager around a generator function of the subject."""
    _sa_native = True

    def __init__(self, gen: _ThreadGen):
        self.gen = gen

    def __enter__(self):
        try:
            return next(self.gen)
        except StopIteration:
            raise FoldRaise('RuntimeError', "generator didn't yield")

    def __exit__(self, kind, exc, tb):
        if exc is None:
            try:
                next(self.gen)
            except StopIteration:
                return False
            raise FoldRaise('RuntimeError', "generator didn't stop")
        try:
            self.gen.throw(exc)
        except StopIteration:
            return True
        except FoldRaise as r:
            if r is exc:
                return False
            raise
        raise FoldRaise('RuntimeError', "generator didn't stop after throw()")


def _is_iterish(v) -> bool:
    return isinstance(v, LazyIter)


class _ChainEnv(dict):
    """Local environment of a nested function: own names first, then the (live) environment of the enclosing call."""

    _comp = False

    def __init__(self, outer):
        super().__init__()
        self._outer = outer

    def __contains__(self, k):
        return dict.__contains__(self, k) or k in self._outer

    def __getitem__(self, k):
        if dict.__contains__(self, k):
            return dict.__getitem__(self, k)
        return self._outer[k]

    def get(self, k, d=None):
        return self[k] if k in self else d


def _scope(env, comp: bool = False):
    """A new innermost scope over `env` (a comprehension / lambda body): the names of the enclosing function stay visible - live, as
    Python's closure cells are (late binding) - through the chain."""
    c = _ChainEnv(env)
    c._comp = comp
    return c


class Folder:
    def __init__(self, repo: Repo, max_steps: int = 20000, allow_loops: bool = False):
        self.repo = repo
        self.allow_loops = allow_loops
        self._fresh = set()
        self._keep = []
        self.stubs = {}        # dotted call text -> python callable (declared primitives, e.g. random.shuffle)
        self.method_stubs = {}  # (class name | module name, function name) -> callable(folder, self_val, args, kw)
        self.on_stmt = None    # optional hook(stmt, env, mod, ci) called before every statement
        self.class_stubs = {}  # class name -> factory(folder, args, kw): abstract stand-in for instances of that class
        self.external_attrs = {}   # attribute name -> callable(obj): attributes of base classes outside the package
        self.abstract_join = None  # callable(parts) for f-strings with abstract (native) parts
        self.optimize = False      # evaluate as under `python -O` (assert statements removed)
        self.numpy = None          # sa.npstub when the rule wants numpy's 1-d arrays modelled (never the real numpy)
        self.steps = 0
        self.max_steps = max_steps
        self.debug_logging = False  # what logging.Logger.isEnabledFor(DEBUG / INFO) answers (a fact of the deployment, not of the program)
        self._globals = {}         # (module, name) -> value of a module-level variable rebound through a `global` statement
        self._handling = []        # exceptions of the subject being handled (innermost last): what a bare `raise` re-raises

    # -- domain helpers ----------------------------------------------------
    def members(self, cls_name: str) -> List[EV]:
        ci = self.repo.cls(cls_name, 'fold')
        return self._members(ci)

    def _members(self, ci: ClassInfo) -> List[EV]:
        """The members of an enumeration in definition order, as iteration over the class gives them: a name bound to the value of an
        earlier member is an alias of it, not a member."""
        out: List[EV] = []
        for n, v in ci.enum_members().items():
            if not isinstance(v, ast.AST) and any((not isinstance(o.value, ast.AST)) and o.value == v and type(o.value) is type(v) for o in out):
                continue
            out.append(EV(ci, n, v))
        return out

    def _member(self, ci: ClassInfo, name: str) -> EV:
        """Enum member by name (an alias gives the member it stands for)."""
        mem = ci.enum_members()
        v = mem[name]
        if not isinstance(v, ast.AST):
            for n2, v2 in mem.items():
                if n2 == name:
                    break
                if not isinstance(v2, ast.AST) and v2 == v and type(v2) is type(v):
                    return EV(ci, n2, v2)
        return EV(ci, name, v)

    def member(self, cls_name: str, name: str) -> EV:
        for m in self.members(cls_name):
            if m.name == name:
                return m
        raise AnalysisError('fold', f'{cls_name}.{name}', 'enum member not found')

    def make(self, cls_name: str, **fields) -> DV:
        ci = self.repo.cls(cls_name, 'fold')
        return self._construct(ci, [], fields)

    def clone(self, obj, memo=None):
        """Deep copy of a mutable object of the subject (objects with a constructor, dicts, lists, sets, modelled arrays): a snapshot
        from which an exploration can branch.  Enum members, class references and frozen dataclass values are shared."""
        memo = {} if memo is None else memo
        if id(obj) in memo:
            return memo[id(obj)]
        if isinstance(obj, DV) and id(obj) in self._fresh:
            c = DV(obj.cls, {})
            memo[id(obj)] = c
            self._fresh.add(id(c))
            self._keep.append(c)
            for k, v in obj.fields.items():
                c.fields[k] = self.clone(v, memo)
            return c
        if isinstance(obj, dict):
            c = {}
            if type(obj) is not dict and hasattr(obj, 'default_factory'):
                c = type(obj)(obj.default_factory)
            memo[id(obj)] = c
            for k, v in obj.items():
                c[self.clone(k, memo)] = self.clone(v, memo)
            return c
        if isinstance(obj, list):
            c = []
            memo[id(obj)] = c
            c.extend(self.clone(v, memo) for v in obj)
            return c
        if isinstance(obj, set):
            c = {self.clone(v, memo) for v in obj}
            memo[id(obj)] = c
            return c
        if isinstance(obj, tuple) and not (obj and isinstance(obj[0], str) and obj[0] in ('lambda', 'closure', 'func', 'pyfunc', 'builtin', 'strmethod', 'pymodule', 'extern')):
            return tuple(self.clone(v, memo) for v in obj)
        if getattr(obj, '_sa_native', False) and hasattr(obj, 'copy') and hasattr(obj, 'data'):
            c = obj.copy()
            memo[id(obj)] = c
            return c
        return obj

    def _deep(self, obj, memo):
        """copy.deepcopy of a value of the subject: as `clone`, but an object whose class defines __deepcopy__ is copied by that method."""
        if id(obj) in memo:
            return memo[id(obj)]
        if isinstance(obj, DV) and id(obj) in self._fresh:
            c_, fn_ = self._find(obj.cls, '__deepcopy__')
            if fn_ is not None:
                r = self._invoke(c_.module, c_, fn_, obj, [memo], {})
                memo.setdefault(id(obj), r)
                return r
            c = DV(obj.cls, {})
            memo[id(obj)] = c
            self._fresh.add(id(c))
            self._keep.append(c)
            for k, v in obj.fields.items():
                c.fields[k] = self._deep(v, memo)
            return c
        if isinstance(obj, dict):
            c = {}
            if type(obj) is not dict and hasattr(obj, 'default_factory'):
                c = type(obj)(obj.default_factory)
            memo[id(obj)] = c
            for k, v in obj.items():
                c[self._deep(k, memo)] = self._deep(v, memo)
            return c
        if isinstance(obj, list):
            c = []
            memo[id(obj)] = c
            c.extend(self._deep(v, memo) for v in obj)
            return c
        if isinstance(obj, set):
            c = {self._deep(v, memo) for v in obj}
            memo[id(obj)] = c
            return c
        if isinstance(obj, tuple) and not (obj and isinstance(obj[0], str) and obj[0] in ('lambda', 'closure', 'func', 'pyfunc', 'builtin', 'strmethod', 'pymodule', 'extern')):
            return tuple(self._deep(v, memo) for v in obj)
        if getattr(obj, '_sa_native', False) and hasattr(obj, 'copy') and hasattr(obj, 'data'):
            c = obj.copy()
            memo[id(obj)] = c
            return c
        return obj

    # -- entry points ------------------------------------------------------
    def call_method(self, obj, name: str, *args, **kw):
        """obj.name(*args) or property read obj.name (if a property)."""
        self.steps = 0
        return self._getattr_call(obj, name, list(args), kw)

    def call_class(self, cls_name: str, name: str, *args, **kw):
        self.steps = 0
        ci = self.repo.cls(cls_name, 'fold')
        return self._getattr_call(ClsRef(ci), name, list(args), kw)

    def call_function(self, module: str, name: str, *args, **kw):
        self.steps = 0
        m, fn = self.repo.function(module, name, 'fold')
        return self._invoke(m, None, fn, None, list(args), kw)

    def str_of(self, v) -> str:
        self.steps = 0
        return self._str(v)

    # -- machinery ---------------------------------------------------------
    def _getattr_call(self, obj, name, args, kw):
        a = self._attr(obj, name)
        if isinstance(a, Bound):
            return self._call_bound(a, args, kw)
        if args or kw:
            raise Unsupported(f'{name} is not callable')
        return a

    def _find(self, ci: ClassInfo, name: str):
        for c in self.repo.mro(ci):
            if name in c.methods:
                return c, c.methods[name]
            al = c.assigns.get(name)
            if isinstance(al, ast.Name) and al.id in c.methods and name not in c.annots:
                return c, c.methods[al.id]          # `__radd__ = __add__` in the class body: another name of the same function
        return None, None

    def _attr(self, obj, name):
        if isinstance(obj, EV):
            if name == 'value':
                if isinstance(obj.value, ast.AST):
                    return self._eval(obj.value, {}, obj.cls.module, obj.cls)
                return obj.value
            if name == 'name':
                return obj.name
            if name == '__class__':
                return ClsRef(obj.cls)
            c, fn = self._find(obj.cls, name)
            if fn is None:
                mem = obj.cls.enum_members()
                if name in mem:
                    return self._member(obj.cls, name)
                # attributes set by the enumeration's own __init__(self, *value): evaluated once per member
                ic, init = self._find(obj.cls, '__init__')
                if init is not None:
                    cache = self.__dict__.setdefault('_enum_attr_cache', {})
                    key_ = (obj.cls.name, obj.name)
                    if key_ not in cache:
                        tmp = DV(obj.cls, {})
                        self._fresh.add(id(tmp))
                        self._keep.append(tmp)
                        a_ = list(obj.value) if isinstance(obj.value, tuple) else [obj.value]
                        self._invoke(ic.module, ic, init, tmp, a_, {})
                        cache[key_] = dict(tmp.fields)
                    if name in cache[key_]:
                        return cache[key_][name]
                raise Unsupported(f'{obj.cls.name}.{name}')
            if c.method_kind(name) == 'property':
                return self._invoke(c.module, c, fn, obj, [], {})
            return Bound(obj if c.method_kind(name) == 'method' else
                         (ClsRef(obj.cls) if c.method_kind(name) == 'class' else None), c, fn)
        if isinstance(obj, DV):
            if name in obj.fields:
                return obj.fields[name]
            if name == '__class__':
                return ClsRef(obj.cls)
            if name == '__dict__' and id(obj) in self._fresh and not any('__slots__' in c_.assigns for c_ in self.repo.mro(obj.cls)):
                if any(k_.startswith('__') and not k_.endswith('__') for k_ in obj.fields):
                    raise Unsupported('__dict__ of an object with private (name-mangled) attributes: the folder keeps them under their source names')
                return obj.fields        # the instance dictionary (live: writes through it are attribute assignments); private names unmangled
            if name.startswith('_') and '__' in name[1:] and not name.endswith('__'):
                for cc in self.repo.mro(obj.cls):
                    pre = '_' + cc.name.split('.')[-1].lstrip('_')
                    if name.startswith(pre + '__') and name[len(pre):] in obj.fields:
                        return obj.fields[name[len(pre):]]        # a private name written in its mangled form
            c, fn = self._find(obj.cls, name)
            if fn is None and (obj.cls.is_namedtuple or obj.cls.is_dataclass) and name in ('_asdict', '_replace', '_fields'):
                order_ = [n for n in obj.cls.order if n in obj.cls.annots]
                if name == '_fields':
                    return tuple(order_)
                if name == '_asdict' and obj.cls.is_namedtuple:
                    return ('pyfunc', lambda: {n: obj.fields[n] for n in order_ if n in obj.fields})
                if name == '_replace' and obj.cls.is_namedtuple:
                    return ('pyfunc', lambda **kw_: DV(obj.cls, {**obj.fields, **kw_}))
            if fn is None:
                for cc in self.repo.mro(obj.cls):
                    if name in cc.assigns:
                        return self._class_attr(cc, name)
                for cc in self.repo.mro(obj.cls):
                    nested = cc.module.classes.get(f'{cc.name}.{name}')
                    if nested is not None:
                        return ClsRef(nested)
                if name in self.external_attrs:
                    return self.external_attrs[name](obj)
                cg_, ga_ = self._find(obj.cls, '__getattr__')
                if ga_ is not None and not (name.startswith('__') and name.endswith('__')):
                    return self._invoke(cg_.module, cg_, ga_, obj, [name], {})
                if id(obj) in self._fresh and self.allow_loops and not (name.startswith('__') and name.endswith('__')) and all(not c_.base_names or all(self.repo.resolve_class_name(c_.module, b_) is not None or b_ in ('object', 'ABC', 'abc.ABC') for b_ in c_.base_names) for c_ in self.repo.mro(obj.cls)):
                    # every class of the MRO is in the package and the folder ran the constructor: the attribute does not exist
                    raise FoldRaise('AttributeError', f"'{obj.cls.name}' object has no attribute '{name}'")
                raise Unsupported(f'{obj.cls.name}.{name}')
            if c.method_kind(name) == 'property':
                return self._invoke(c.module, c, fn, obj, [], {})
            if c.method_kind(name) == 'cached_property':
                v_ = self._invoke(c.module, c, fn, obj, [], {})
                obj.fields[name] = v_          # functools.cached_property: computed once, then an ordinary instance attribute
                return v_
            k = c.method_kind(name)
            return Bound(obj if k == 'method' else (ClsRef(obj.cls) if k == 'class' else None), c, fn)
        if isinstance(obj, ClsRef):
            ci = obj.cls
            if ci.is_enum:
                mem = ci.enum_members()
                if name in mem:
                    return self._member(ci, name)
                if name == '__members__':
                    return {k_: self._member(ci, k_) for k_ in mem}
            if name == '__name__':
                return ci.name.split('.')[-1]
            if name == '_fields' and ci.is_namedtuple:
                return tuple(n for n in ci.order if n in ci.annots)
            if name == '__new__' and self._find(ci, '__new__')[1] is None and not ci.is_enum:
                def new_(cls_=None, *a_, **k_):
                    if not isinstance(cls_, ClsRef):
                        raise Unsupported('__new__ without a class of the package')
                    o_ = DV(cls_.cls, {})
                    self._fresh.add(id(o_))
                    self._keep.append(o_)
                    return o_
                return ('pyfunc', new_)
            c, fn = self._find(ci, name)
            if fn is not None:
                k = c.method_kind(name)
                if k == 'class':
                    return Bound(obj, c, fn)
                if k == 'static':
                    return Bound(None, c, fn)
                return Bound('UNBOUND', c, fn)
            if name in ci.assigns:
                return self._class_attr(ci, name)
            nested = ci.module.classes.get(f'{ci.name}.{name}')
            if nested is not None:
                return ClsRef(nested)
            raise Unsupported(f'{ci.name}.{name}')
        if getattr(obj, '_sa_native', False):
            try:
                v = getattr(obj, name)
            except AttributeError:
                raise Unsupported(f'attribute {name} on native {type(obj).__name__}')
            return ('pyfunc', v) if callable(v) else v
        if isinstance(obj, str) and name in ('upper', 'lower', 'capitalize', 'strip', 'lstrip', 'rstrip',
                                              'isupper', 'isdigit', 'startswith', 'endswith', 'split', 'join',
                                              'replace', 'encode', 'format', 'title', 'swapcase', 'find', 'index',
                                              'count', 'islower', 'isalpha', 'isalnum', 'isspace', 'zfill', 'ljust',
                                              'rjust', 'partition', 'rpartition', 'splitlines', 'rsplit', 'casefold',
                                              'rfind', 'center', 'removeprefix', 'removesuffix', 'istitle', 'expandtabs', 'isdecimal', 'isnumeric',
                                              'isidentifier', 'translate', 'format_map', 'rindex', 'isascii', 'isprintable'):
            return ('strmethod', obj, name)
        if isinstance(obj, (bytes, bytearray)) and name in ('decode', 'startswith', 'endswith', 'strip', 'rstrip', 'lstrip', 'split', 'rsplit', 'find', 'rfind', 'index', 'rindex',
                                                             'partition', 'rpartition', 'replace', 'join', 'count', 'splitlines', 'hex', 'lower', 'upper', 'isdigit',
                                                             'extend', 'append', 'clear', 'pop', 'removeprefix', 'removesuffix') and hasattr(obj, name):
            return ('strmethod', obj, name)
        if isinstance(obj, (dict, list, tuple, str, set, frozenset)) and name in ('__getitem__', '__contains__', '__len__', '__iter__') and not (isinstance(obj, tuple) and obj and isinstance(obj[0], str) and obj[0] in ('lambda', 'closure', 'func', 'pyfunc', 'builtin', 'strmethod', 'pymodule', 'extern')):
            if name == '__getitem__':
                return ('pyfunc', lambda k_, _o=obj: self._getitem(_o, k_))
            if name == '__contains__':
                return ('pyfunc', lambda k_, _o=obj: self._truth(self._cmp(ast.In(), k_, _o)))
            if name == '__len__':
                return ('pyfunc', lambda _o=obj: len(_o))
            return ('pyfunc', lambda _o=obj: LazyIter(iter(self._seq(_o))))
        if isinstance(obj, dict) and name in ('get', 'items', 'keys', 'values', 'update', 'pop', 'setdefault', 'copy', 'clear', 'popitem'):
            return ('strmethod', obj, name)
        if isinstance(obj, tuple) and len(obj) == 2 and obj[0] == 'pymodule' and obj[1] == 're':
            import re as _re
            if name in ('sub', 'findall', 'match', 'fullmatch', 'search', 'split', 'compile', 'escape', 'finditer'):
                return ('pyfunc', getattr(_re, name))
            if name in ('IGNORECASE', 'I', 'MULTILINE', 'M', 'DOTALL', 'S', 'VERBOSE', 'X', 'ASCII', 'A', 'UNICODE', 'U'):
                return getattr(_re, name)
            if name in ('subn', 'purge', 'Pattern', 'Match', 'error'):
                raise Unsupported(f're.{name}')
        if isinstance(obj, tuple) and len(obj) == 2 and obj[0] == 'pymodule' and obj[1] == 'numpy' and self.numpy is not None:
            return self.numpy.attr(name)
        if isinstance(obj, tuple) and len(obj) == 2 and obj[0] == 'pymodule' and obj[1] == 'collections':
            return self._collections(name)
        if isinstance(obj, tuple) and len(obj) == 2 and obj[0] == 'pymodule' and obj[1] in ('itertools', 'functools'):
            return self._stdlib_hof(obj[1], name)
        if isinstance(obj, tuple) and len(obj) == 2 and obj[0] == 'pyfunc' and getattr(obj[1], '_sa_attrs', None) and name in obj[1]._sa_attrs:
            return ('pyfunc', obj[1]._sa_attrs[name])
        if isinstance(obj, tuple) and len(obj) == 2 and obj[0] == 'pymodule' and obj[1] == 'operator' and name in ('attrgetter', 'itemgetter', 'methodcaller'):
            return self._operator_getter(name)
        if isinstance(obj, tuple) and len(obj) == 2 and obj[0] == 'pymodule' and obj[1] == 'operator':
            return self._operator_fn(name)
        if isinstance(obj, tuple) and len(obj) == 2 and obj[0] == 'pymodule' and obj[1].split('.')[0] in PURE_MODULES:
            import importlib
            try:
                v = getattr(importlib.import_module(obj[1]), name)
            except (ImportError, AttributeError):
                raise Unsupported(f'attribute {name} of module {obj[1]}')
            return ('pyfunc', v) if callable(v) else v
        if isinstance(obj, tuple) and len(obj) == 2 and obj[0] == 'pymodule' and obj[1] == 'logging':
            import logging as _lg
            if name == 'getLogger':
                return ('pyfunc', lambda *a, **k: LoggerStub(self))
            if name in ('DEBUG', 'INFO', 'WARNING', 'WARN', 'ERROR', 'CRITICAL', 'NOTSET', 'FATAL'):
                return getattr(_lg, name)
            if name in ('debug', 'info', 'warning', 'error', 'exception', 'critical', 'log', 'basicConfig'):
                return ('pyfunc', lambda *a, **k: None)
        if isinstance(obj, tuple) and len(obj) == 2 and obj[0] == 'pymodule' and obj[1] == 'json' and name in ('dumps', 'loads'):
            import json as _json

            def dumps_(o, *a, **k):
                if k.get('default') is not None or k.get('cls') is not None or not self._json_plain(o):
                    raise Unsupported('json.dumps of an object of the subject / with a default hook')
                return _json.dumps(o, *a, **k)
            return ('pyfunc', dumps_ if name == 'dumps' else _json.loads)
        if isinstance(obj, tuple) and len(obj) == 2 and obj[0] == 'pymodule' and obj[1] == 'json' and name == 'JSONEncoder':
            fo_ = self

            class _Encoder:
                """json.JSONEncoder(**options).encode(o) == json.dumps(o, **options)"""
                _sa_native = True

                def __init__(self, **k):
                    if k.get('default') is not None:
                        raise Unsupported('json.JSONEncoder with a default hook')
                    self.k = k

                def encode(self, o):
                    st_ = fo_.stubs.get('json.dumps')
                    if st_ is not None:
                        return st_(o, **self.k)
                    return fo_._apply(fo_._attr(('pymodule', 'json'), 'dumps'), [o], dict(self.k))
            return ('pyfunc', lambda **k: _Encoder(**k))
        if isinstance(obj, tuple) and len(obj) == 2 and obj[0] == 'pymodule' and obj[1] == 'copy' and name in ('copy', 'deepcopy') and not self.stubs.get('copy.' + name):
            def copy_(o, memo=None, _deep=(name == 'deepcopy')):
                if isinstance(o, DV):
                    own = '__deepcopy__' if _deep else '__copy__'
                    c_, fn_ = self._find(o.cls, own)
                    if fn_ is not None:
                        # the class's own copy protocol (memo: the dictionary copy.deepcopy threads through the recursion)
                        if _deep:
                            memo = {} if memo is None else memo
                            if id(o) in memo:
                                return memo[id(o)]
                            return self._invoke(c_.module, c_, fn_, o, [memo], {})
                        return self._invoke(c_.module, c_, fn_, o, [], {})
                    if any(self._find(o.cls, d_)[1] is not None for d_ in ('__reduce__', '__reduce_ex__', '__getstate__', '__setstate__', '__getnewargs__')):
                        raise Unsupported('copy of an object with its own pickle protocol')
                if _deep:
                    if isinstance(o, DV) and memo is not None and id(o) in memo:
                        return memo[id(o)]
                    return self._deep(o, {} if memo is None else memo)
                if isinstance(o, DV):
                    if id(o) not in self._fresh:
                        return o
                    c2 = DV(o.cls, dict(o.fields))
                    self._fresh.add(id(c2))
                    self._keep.append(c2)
                    return c2
                if isinstance(o, (list, dict, set, bytearray)) and not getattr(o, '_sa_native', False):
                    return o.copy()
                if getattr(o, '_sa_native', False) and hasattr(o, 'copy') and hasattr(o, 'data'):
                    return o.copy()
                if self._plain_value(o) or isinstance(o, (tuple, frozenset, EV, ClsRef)):
                    return o
                raise Unsupported('copy.copy of ' + type(o).__name__)
            return ('pyfunc', copy_)
        if isinstance(obj, tuple) and len(obj) == 2 and obj[0] == 'pymodule' and obj[1] == 'contextlib' and name in ('suppress', 'nullcontext', 'closing'):
            fo_ = self

            class _Ctx:
                _sa_native = True

                def __init__(self, *a):
                    self.a = a

                def __enter__(self):
                    return None if name == 'suppress' else (self.a[0] if self.a else None)

                def __exit__(self, et, ev, tb):
                    if name == 'closing':
                        fo_._getattr_call(self.a[0], 'close', [], {}) if isinstance(self.a[0], DV) else self.a[0].close()
                        return False
                    if name == 'suppress' and isinstance(ev, FoldRaise):
                        for t_ in self.a:
                            tn = t_[1] if isinstance(t_, tuple) and len(t_) == 2 and t_[0] == 'builtin' else t_.cls.name if isinstance(t_, ClsRef) else None
                            if tn is None:
                                raise Unsupported('contextlib.suppress of ' + repr(t_)[:40])
                            if _catches(ast.Name(id=tn, ctx=ast.Load()), ev.kind, ev.bases):
                                return True
                    return False
            return ('pyfunc', lambda *a: _Ctx(*a))
        if isinstance(obj, tuple) and len(obj) == 2 and obj[0] == 'pymodule':
            return ('extern', f'{obj[1]}.{name}')      # opaque constant of a module outside the package
        import re as _re2
        if isinstance(obj, _re2.Match) and name in ('group', 'groups', 'start', 'end', 'span', 'groupdict', 'expand'):
            return ('strmethod', obj, name)
        if isinstance(obj, _re2.Pattern) and name in ('match', 'fullmatch', 'search', 'sub', 'findall', 'split', 'finditer', 'subn'):
            return ('strmethod', obj, name)
        if isinstance(obj, _re2.Pattern) and name in ('pattern', 'groups', 'flags', 'groupindex'):
            return dict(obj.groupindex) if name == 'groupindex' else getattr(obj, name)
        if isinstance(obj, _re2.Match) and name in ('string', 'pos', 'endpos', 'lastindex', 'lastgroup', 're'):
            return getattr(obj, name)
        if obj == ('builtin', 'dict') and name == 'fromkeys':
            return ('pyfunc', dict.fromkeys)
        if isinstance(obj, list) and name in ('append', 'index', 'count', 'pop', 'extend', 'insert', 'remove', 'clear', 'copy', 'reverse'):
            return ('strmethod', obj, name)
        if isinstance(obj, list) and name == 'sort':
            def sort_(key=None, reverse=False, _l=obj):
                _l[:] = self._apply(('builtin', 'sorted'), [list(_l)], {'key': key, 'reverse': reverse})
            return ('pyfunc', sort_)
        if isinstance(obj, tuple) and len(obj) == 2 and obj[0] == 'builtin' and obj[1] in ('str', 'bytes', 'int', 'list', 'dict', 'set', 'tuple', 'frozenset', 'float'):
            if name == '__name__':
                return obj[1]
            import builtins as _b2
            m_ = getattr(getattr(_b2, obj[1]), name, None)
            if m_ is None:
                raise FoldRaise('AttributeError', f"type object '{obj[1]}' has no attribute '{name}'")
            return ('pyfunc', m_)
        if isinstance(obj, tuple) and len(obj) == 2 and obj[0] == 'builtin' and name == '__name__':
            return obj[1]
        if obj == ('builtin', 'object') and name == '__new__':
            def onew_(cls_=None, *a_, **k_):
                if not isinstance(cls_, ClsRef):
                    raise Unsupported('object.__new__ without a class of the package')
                o_ = DV(cls_.cls, {})
                self._fresh.add(id(o_))
                self._keep.append(o_)
                return o_
            return ('pyfunc', onew_)
        if isinstance(obj, (set, frozenset)) and name in ('add', 'remove', 'discard', 'copy', 'union', 'issubset', 'pop', 'clear', 'update', 'difference', 'intersection',
                                                          'symmetric_difference', 'isdisjoint', 'issuperset', 'difference_update', 'intersection_update',
                                                          'symmetric_difference_update') and hasattr(obj, name):
            return ('strmethod', obj, name)
        if obj is None or isinstance(obj, (bool, int, float)):
            if hasattr(obj, name):
                if name in ('bit_length', 'bit_count', 'is_integer', 'conjugate', 'real', 'imag', 'numerator', 'denominator', 'as_integer_ratio'):
                    v_ = getattr(obj, name)
                    return ('pyfunc', v_) if callable(v_) else v_
                raise Unsupported(f'attribute {name} on {type(obj).__name__}')
            raise FoldRaise('AttributeError', f"'{type(obj).__name__}' object has no attribute '{name}'")
        if isinstance(obj, FoldRaise):
            if name == 'args' and obj.exc_args is not None:
                return tuple(obj.exc_args)
            if name == '__cause__':
                return obj.cause
            raise Unsupported(f'attribute {name} of an exception object')
        raise Unsupported(f'attribute {name} on {type(obj).__name__}')

    def _class_attr(self, ci: ClassInfo, name: str):
        """Value of a class-level assignment, evaluated once per Folder in the scope of the class body (earlier class-level names
        are visible, as when the class statement runs)."""
        cache = self.__dict__.setdefault('_class_attr_cache', {})
        key = (ci.module.name, ci.name, name)
        if key in cache:
            return cache[key]
        env = {}
        if name in getattr(ci, 'late', ()):
            cache[key] = self._eval(ci.assigns[name], {}, ci.module, None)       # bound at module level: module scope, no class-body names
            return cache[key]
        for n in ci.order:
            if n == name:
                break
            if n in ci.assigns and any(isinstance(x, ast.Name) and x.id == n for x in ast.walk(ci.assigns[name])):
                env[n] = self._class_attr(ci, n)
        cache[key] = self._eval(ci.assigns[name], env, ci.module, ci)
        return cache[key]

    def _call_bound(self, b: Bound, args, kw):
        if b.self_val == 'UNBOUND':
            return self._invoke(b.cls.module, b.cls, b.fn, args[0], args[1:], kw)
        kind = b.cls.method_kind(b.fn.name)
        if kind == 'static':
            return self._invoke(b.cls.module, b.cls, b.fn, None, args, kw, static=True)
        return self._invoke(b.cls.module, b.cls, b.fn, b.self_val, args, kw)

    def _invoke(self, mod: ModuleInfo, ci: Optional[ClassInfo], fn: ast.FunctionDef, self_val, args, kw,
                static=False):
        if self.method_stubs:
            stub = self.method_stubs.get((ci.name if ci is not None else mod.name, fn.name))
            if stub is not None:
                return stub(self, self_val, list(args), dict(kw))
        params = [a.arg for a in fn.args.args]
        env: Dict[str, Any] = {}
        pos = list(args)
        if ci is not None and not static and params and params[0] in ('self', 'cls'):
            env[params[0]] = self_val
            params = params[1:]
            defaults_src = fn.args.args[1:]
        else:
            defaults_src = fn.args.args
        defaults = fn.args.defaults
        dmap = {}
        for a, d in zip(reversed(defaults_src), reversed(defaults)):
            dmap[a.arg] = d
        for i, p in enumerate(params):
            if i < len(pos):
                env[p] = pos[i]
            elif p in kw:
                env[p] = kw[p]
            elif p in dmap:
                # default values are evaluated once, when the function is defined (a mutable default is shared by all calls)
                dc = self.__dict__.setdefault('_default_cache', {})
                if id(dmap[p]) not in dc:
                    dc[id(dmap[p])] = self._eval(dmap[p], {}, mod, ci)
                env[p] = dc[id(dmap[p])]
            else:
                raise Unsupported(f'missing argument {p} for {fn.name}')
        # keyword-only parameters, *args, **kwargs
        for a_, d_ in zip(fn.args.kwonlyargs, fn.args.kw_defaults):
            if a_.arg in kw:
                env[a_.arg] = kw[a_.arg]
            elif d_ is not None:
                dc = self.__dict__.setdefault('_default_cache', {})
                if id(d_) not in dc:
                    dc[id(d_)] = self._eval(d_, {}, mod, ci)
                env[a_.arg] = dc[id(d_)]
            else:
                raise FoldRaise('TypeError', f'{fn.name}() missing required keyword-only argument {a_.arg!r}')
        if fn.args.vararg is not None:
            env[fn.args.vararg.arg] = tuple(pos[len(params):])
        elif len(pos) > len(params):
            raise FoldRaise('TypeError', f'{fn.name}() takes {len(params)} positional arguments but {len(pos)} were given')
        known = set(params) | {a_.arg for a_ in fn.args.kwonlyargs}
        extra_kw = {k_: v_ for k_, v_ in kw.items() if k_ not in known}
        if fn.args.kwarg is not None:
            env[fn.args.kwarg.arg] = extra_kw
        elif extra_kw:
            raise FoldRaise('TypeError', f'{fn.name}() got an unexpected keyword argument {sorted(extra_kw)[0]!r}')
        is_gen = _GEN_CACHE.get(id(fn))
        if is_gen is None:
            is_gen = _GEN_CACHE[id(fn)] = any(isinstance(x, (ast.Yield, ast.YieldFrom)) for x in _own_nodes(fn))
        if is_gen:
            # a generator function: evaluated lazily, one item per next() (see _ThreadGen)
            def run_body(sink, env=env):
                env['__yield__'] = sink
                self._block(fn.body, env, mod, ci)
            g = _ThreadGen(self, run_body)
            if any(d.split('.')[-1] == 'contextmanager' for d in (ast.unparse(x) for x in fn.decorator_list)):
                return _GenCM(g)
            return LazyIter(g)
        try:
            self._block(fn.body, env, mod, ci)
        except _Return as r:
            return r.v
        return None

    def _block(self, body, env, mod, ci):
        for st in body:
            self._cur_mod = mod      # (a call evaluated by the previous statement may have moved it)
            self.steps += 1
            if self.steps > self.max_steps:
                raise Unsupported('step limit')
            if self.on_stmt is not None:
                self.on_stmt(st, env, mod, ci)
            if isinstance(st, ast.With) and self.allow_loops:
                self._with(st, 0, env, mod, ci)
            elif isinstance(st, ast.FunctionDef):
                # a nested function: a closure over the live environment of the enclosing call (late binding, as in Python); its default
                # values are evaluated now
                if any(ast.unparse(d_).split('.')[-1].split('(')[0] not in ('contextmanager', 'wraps', 'staticmethod') for d_ in st.decorator_list):
                    raise Unsupported('decorated nested function')
                cenv = _scope(env)
                dv_ = {}
                pos_ = [a.arg for a in st.args.posonlyargs + st.args.args]
                for pn, dflt in zip(reversed(pos_), reversed(st.args.defaults)):
                    dv_[pn] = self._eval(dflt, env, mod, ci)
                for a_, dflt in zip(st.args.kwonlyargs, st.args.kw_defaults):
                    if dflt is not None:
                        dv_[a_.arg] = self._eval(dflt, env, mod, ci)
                cenv['__defaults__'] = dv_
                env[st.name] = ('closure', st, cenv, mod, ci)
            elif isinstance(st, (ast.Nonlocal, ast.Global)):
                if not isinstance(env, _ChainEnv) and isinstance(st, ast.Nonlocal):
                    raise Unsupported('nonlocal outside a nested function')
                key_ = '__nonlocal__' if isinstance(st, ast.Nonlocal) else '__global__'
                dict.__setitem__(env, key_, set(dict.get(env, key_, ())) | set(st.names))
                if isinstance(st, ast.Global):
                    for n_ in st.names:
                        self._globals.setdefault((mod.name, n_), self._name(n_, {}, mod, None) if self.repo.resolve_name(mod, n_) is not None else _UNSET)
            elif isinstance(st, ast.Return):
                raise _Return(self._eval(st.value, env, mod, ci) if st.value is not None else None)
            elif isinstance(st, ast.If):
                if self._truth(self._eval(st.test, env, mod, ci)):
                    self._block(st.body, env, mod, ci)
                else:
                    self._block(st.orelse, env, mod, ci)
            elif isinstance(st, ast.Assign):
                v = self._eval(st.value, env, mod, ci)
                for t in st.targets:
                    self._assign(t, v, env)
            elif isinstance(st, ast.AnnAssign):
                if st.value is not None:
                    self._assign(st.target, self._eval(st.value, env, mod, ci), env)
            elif isinstance(st, ast.AugAssign):
                if isinstance(st.target, ast.Name):
                    cur = self._name(st.target.id, env, mod, ci)
                    self._bind(env, st.target.id, self._augop(st.op, cur, self._eval(st.value, env, mod, ci)))
                elif self.allow_loops and isinstance(st.target, (ast.Attribute, ast.Subscript)):
                    # x.a += v / x[k] += v : read through a load copy of the target, store through the ordinary assignment
                    load = ast.parse(ast.unparse(st.target), mode='eval').body
                    cur = self._eval(load, env, mod, ci)
                    self._assign(st.target, self._augop(st.op, cur, self._eval(st.value, env, mod, ci)), env)
                else:
                    raise Unsupported('augassign to non-local')
            elif isinstance(st, ast.Expr) and isinstance(st.value, ast.Yield):
                if '__yield__' not in env:
                    raise Unsupported('yield outside a folded generator')
                env['__yield__'].append(self._eval(st.value.value, env, mod, ci) if st.value.value is not None else None)
            elif isinstance(st, ast.Expr) and isinstance(st.value, ast.YieldFrom):
                if '__yield__' not in env:
                    raise Unsupported('yield outside a folded generator')
                env['__yield__'].extend(self._eval(st.value.value, env, mod, ci))
            elif isinstance(st, ast.Expr):
                if isinstance(st.value, ast.Constant):
                    continue
                if isinstance(st.value, ast.Call) and ast.unparse(st.value.func).startswith('logger.'):
                    # logging itself is ignored, but its arguments are evaluated by the running program and may raise
                    for a_ in list(st.value.args) + [k.value for k in st.value.keywords]:
                        if any(isinstance(x, ast.Call) for x in ast.walk(a_)):
                            try:
                                self._eval(a_, env, mod, ci)
                            except FoldRaise:
                                raise
                            except Exception:  # noqa - the text of a log line is irrelevant; only an exception of the subject matters
                                pass
                    continue
                self._eval(st.value, env, mod, ci)
            elif isinstance(st, ast.Raise):
                raise self._raise_stmt(st, env, mod, ci)
            elif isinstance(st, ast.Try) and self.allow_loops:
                try:
                    try:
                        self._block(st.body, env, mod, ci)
                    except FoldRaise as r_:
                        for h in st.handlers:
                            if _catches(h.type, r_.kind, r_.bases):
                                if h.name:
                                    env[h.name] = r_
                                self._handling.append(r_)
                                try:
                                    self._block(h.body, env, mod, ci)
                                finally:
                                    self._handling.pop()
                                break
                        else:
                            raise
                    else:
                        self._block(st.orelse, env, mod, ci)
                finally:
                    self._block(st.finalbody, env, mod, ci)
            elif isinstance(st, ast.Assert):
                if self.optimize:
                    continue        # python -O: assert statements are not compiled
                if not self._truth(self._eval(st.test, env, mod, ci)):
                    raise FoldRaise('AssertionError', ast.unparse(st.test))
            elif isinstance(st, ast.Pass):
                continue
            elif isinstance(st, ast.Delete) and self.allow_loops:
                for t_ in st.targets:
                    if isinstance(t_, ast.Name):
                        if not dict.__contains__(env, t_.id):
                            raise Unsupported('del of a name that is not local')
                        dict.__delitem__(env, t_.id)
                    elif isinstance(t_, ast.Subscript):
                        base_ = self._eval(t_.value, env, mod, ci)
                        if not isinstance(base_, (list, dict, bytearray)) or getattr(base_, '_sa_native', False):
                            raise Unsupported('del of an item of ' + type(base_).__name__)
                        try:
                            del base_[self._index(t_.slice, env)]
                        except (KeyError, IndexError, TypeError) as ex_:
                            raise _py_exc(ex_)
                    elif isinstance(t_, ast.Attribute):
                        own_ = self._eval(t_.value, env, mod, ci)
                        if isinstance(own_, DV) and id(own_) in self._fresh and t_.attr in own_.fields:
                            del own_.fields[t_.attr]
                        elif isinstance(own_, DV) and id(own_) in self._fresh:
                            raise FoldRaise('AttributeError', t_.attr)
                        else:
                            raise Unsupported('del of an attribute')
                    else:
                        raise Unsupported('del target')
            elif isinstance(st, ast.Import):
                for al_ in st.names:
                    if al_.name.split('.')[0] == 'bridge_env':
                        raise Unsupported('import of a package module inside a function')
                    env[al_.asname or al_.name.split('.')[0]] = ('pymodule', al_.name if al_.asname else al_.name.split('.')[0])
            elif isinstance(st, ast.While) and self.allow_loops:
                while self._truth(self._eval(st.test, env, mod, ci)):
                    try:
                        self._block(st.body, env, mod, ci)
                    except _Break:
                        break
                    except _Continue:
                        continue
                else:
                    self._block(st.orelse, env, mod, ci)
            elif isinstance(st, ast.For) and self.allow_loops:
                it = self._eval(st.iter, env, mod, ci)
                watched = it if isinstance(it, (dict, set)) and not getattr(it, '_sa_native', False) else None
                n_watched = len(watched) if watched is not None else 0
                if isinstance(it, ClsRef) and it.cls.is_enum:
                    it = self._members(it.cls)
                elif isinstance(it, (set, frozenset)):
                    it = sorted(it, key=repr)
                elif isinstance(it, (dict, type({}.items()), type({}.keys()), type({}.values()))):
                    it = list(it)
                if getattr(it, '_sa_native', False) and hasattr(it, '__iter__'):
                    it = list(it)
                if isinstance(it, DV):
                    it = self._iter_of(it)
                if isinstance(it, (bytes, bytearray)):
                    it = list(it)
                if not isinstance(it, (list, tuple, range, str, LazyIter)) and type(it).__module__ in ('builtins', 're', 'itertools') and hasattr(it, '__next__'):
                    it = LazyIter(it)
                if not isinstance(it, (list, tuple, range, str, LazyIter)):
                    raise Unsupported('for over ' + type(it).__name__)
                broke = False
                for x in self._iterate(it):
                    if watched is not None and len(watched) != n_watched:
                        raise FoldRaise('RuntimeError', f'{type(watched).__name__} changed size during iteration')
                    self._assign(st.target, x, env)
                    try:
                        self._block(st.body, env, mod, ci)
                    except _Break:
                        broke = True
                        break
                    except _Continue:
                        continue
                if not broke:
                    self._block(st.orelse, env, mod, ci)
            elif isinstance(st, ast.Break) and self.allow_loops:
                raise _Break()
            elif isinstance(st, ast.Continue) and self.allow_loops:
                raise _Continue()
            else:
                if isinstance(st, ast.Match) and self.allow_loops:
                    subj = self._eval(st.subject, env, mod, ci)
                    for case in st.cases:
                        binds: dict = {}
                        if self._match(case.pattern, subj, binds, env, mod, ci):
                            env.update(binds)
                            if case.guard is not None and not self._truth(self._eval(case.guard, env, mod, ci)):
                                continue
                            self._block(case.body, env, mod, ci)
                            break
                    continue
                raise Unsupported(f'statement {type(st).__name__} in folded function')

    def _raise_stmt(self, st: ast.Raise, env, mod, ci) -> 'FoldRaise':
        """The exception a `raise` statement raises: class name, names of its bases (classes of the package are followed to their builtin
        bases), constructor arguments when they can be evaluated."""
        if st.exc is None:
            if not self._handling:
                return FoldRaise('RuntimeError', 'No active exception to reraise')
            return self._handling[-1]
        f = st.exc.func if isinstance(st.exc, ast.Call) else st.exc
        if isinstance(f, ast.Name) and f.id in env and isinstance(env[f.id], FoldRaise) and not isinstance(st.exc, ast.Call):
            ex = env[f.id]        # raise e
        else:
            kind = ast.unparse(f)
            bases, exc_args = [], None
            r = self.repo.resolve_name(mod, kind) if isinstance(f, ast.Name) else None
            if r is not None and r[0] == 'class':
                for c_ in self.repo.mro(r[1]):
                    bases.append(c_.name)
                    for b_ in c_.node.bases:
                        bn = ast.unparse(b_).split('.')[-1]
                        if bn not in bases and self.repo.resolve_class_name(c_.module, bn) is None:
                            bases.append(bn)
                custom_init = any('__init__' in c_.methods or '__str__' in c_.methods for c_ in self.repo.mro(r[1]))
            else:
                custom_init = False
            if isinstance(st.exc, ast.Call) and not custom_init and not st.exc.keywords:
                try:
                    exc_args = tuple(self._elts(st.exc.args, env, mod, ci))
                except (Unsupported, AnalysisError):
                    exc_args = None
            elif not isinstance(st.exc, ast.Call):
                exc_args = ()
            ex = FoldRaise(kind, ast.unparse(st)[:60], exc_args=exc_args, bases=bases)
        if st.cause is not None:
            try:
                c_ = self._eval(st.cause, env, mod, ci)
                ex.cause = c_ if isinstance(c_, FoldRaise) else None
            except (Unsupported, AnalysisError):
                pass
        return ex

    def _collections(self, name: str):
        """collections.defaultdict / deque / OrderedDict / Counter as the containers of the subject (the real classes on the analyser's values;
        a default factory of the subject is called through the folder)."""
        import collections
        fo = self
        if name == 'defaultdict':
            class DefaultDict(dict):
                def __init__(self, factory=None, *a, **k):
                    super().__init__(*a, **k)
                    self.default_factory = factory

                def __missing__(self, key):
                    if self.default_factory is None:
                        raise KeyError(key)
                    f_ = self.default_factory
                    v_ = fo._pycallable(f_)() if not callable(f_) or isinstance(f_, (Bound, ClsRef)) else f_()
                    self[key] = v_
                    return v_
            def make(factory=None, *a, **k):
                if isinstance(factory, tuple) and len(factory) == 2 and factory[0] == 'builtin':
                    import builtins as _b
                    factory = getattr(_b, factory[1])
                return DefaultDict(factory, *a, **k)
            return ('pyfunc', make)
        if name == 'deque':
            class Deque(collections.deque):
                _sa_native = True
            return ('pyfunc', lambda it=(), maxlen=None: Deque(list(fo._iterate(it)) if isinstance(it, (LazyIter, DV)) else it, maxlen))
        if name == 'OrderedDict':
            return ('pyfunc', lambda *a, **k: dict(*a, **k))
        if name == 'Counter':
            class CounterD(dict):
                """collections.Counter reduced to its mapping (arithmetic and most_common are outside the model)."""
            return ('pyfunc', lambda it=(), **kw_: CounterD(collections.Counter(list(fo._iterate(fo._seq(it))) if isinstance(it, (LazyIter, DV, ClsRef)) else it, **kw_)))
        raise Unsupported(f'collections.{name}')

    def _stdlib_hof(self, modname: str, name: str):
        """itertools / functools: the real functions, over the subject's iterables (kept lazy) and callables."""
        import functools
        import itertools
        real = getattr(itertools if modname == 'itertools' else functools, name, None)
        if real is None:
            raise Unsupported(f'{modname}.{name}')
        fo = self

        def seq(x):
            if isinstance(x, ClsRef) and x.cls.is_enum:
                return self._members(x.cls)
            if isinstance(x, (set, frozenset)):
                return sorted(x, key=repr)
            if isinstance(x, LazyIter):
                return fo._iterate(x)
            if isinstance(x, (list, tuple, range, str, dict)):
                return x
            raise Unsupported(f'{modname}.{name} over {type(x).__name__}')

        class K:
            """A grouping / ordering key compared with the subject's own == and <."""
            __slots__ = ('v',)

            def __init__(self, v):
                self.v = v

            def __eq__(self, o):
                return fo._truth(fo._cmp(ast.Eq(), self.v, o.v))

            def __lt__(self, o):
                return fo._truth(fo._cmp(ast.Lt(), self.v, o.v))

            __hash__ = None

        def pred(f):
            g = fo._pycallable(f)
            return (lambda x: fo._truth(x)) if g is None else (lambda *a: fo._truth(g(*a)))

        def call(*a, **k):
            if modname == 'functools':
                if name == 'reduce':
                    return functools.reduce(fo._pycallable(a[0]), seq(a[1]), *a[2:])
                if name == 'partial':
                    return ('pyfunc', functools.partial(fo._pycallable(a[0]), *a[1:], **k))
                raise Unsupported(f'functools.{name}')
            if name in ('count', 'repeat'):
                return LazyIter(real(*a, **k))
            if name in ('chain', 'zip_longest', 'product'):
                return LazyIter(real(*[seq(x) for x in a], **k))
            if name == 'tee':
                return tuple(LazyIter(x) for x in real(seq(a[0]), *a[1:]))
            if name == 'compress':
                return LazyIter(x for x, sel in zip(seq(a[0]), seq(a[1])) if fo._truth(sel))
            if name in ('islice', 'cycle', 'permutations', 'combinations', 'combinations_with_replacement', 'pairwise', 'batched'):
                return LazyIter(real(seq(a[0]), *a[1:], **k))
            if name in ('takewhile', 'dropwhile', 'filterfalse'):
                return LazyIter(real(pred(a[0]), seq(a[1])))
            if name == 'starmap':
                return LazyIter(real(fo._pycallable(a[0]), seq(a[1])))
            if name == 'accumulate':
                f = a[1] if len(a) > 1 else k.get('func')
                kk = {x: y for x, y in k.items() if x != 'func'}
                return LazyIter(real(seq(a[0]), fo._pycallable(f), **kk) if f is not None else real(seq(a[0]), **kk))
            if name == 'groupby':
                key = a[1] if len(a) > 1 else k.get('key')
                kf = fo._pycallable(key) if key is not None else (lambda x: x)
                return LazyIter((kk.v, LazyIter(g)) for kk, g in real(seq(a[0]), lambda x: K(kf(x))))
            raise Unsupported(f'itertools.{name}')
        if name == 'chain':
            call._sa_attrs = {'from_iterable': lambda xs: LazyIter(itertools.chain.from_iterable(seq(x) for x in seq(xs)))}
        return ('pyfunc', call)

    def _iter_of(self, obj: DV) -> 'LazyIter':
        """iter(obj) for an object of the subject: its __iter__ (a generator method or one returning an iterator / self with __next__)."""
        c_, fn_ = self._find(obj.cls, '__iter__')
        if fn_ is None:
            raise FoldRaise('TypeError', f"'{obj.cls.name}' object is not iterable")
        r = self._invoke(c_.module, c_, fn_, obj, [], {})
        if isinstance(r, LazyIter):
            return r
        if isinstance(r, DV):
            cn, nx = self._find(r.cls, '__next__')
            if nx is None:
                raise FoldRaise('TypeError', 'iter() returned non-iterator')

            def gen():
                while True:
                    try:
                        yield self._invoke(cn.module, cn, nx, r, [], {})
                    except FoldRaise as fr:
                        if fr.kind == 'StopIteration':
                            return
                        raise
            return LazyIter(gen())
        if isinstance(r, (list, tuple)):
            return LazyIter(iter(list(r)))
        raise Unsupported('__iter__ returned ' + type(r).__name__)

    def _match(self, pat, v, binds, env, mod, ci) -> bool:
        """Structural pattern matching (PEP 634) for the patterns over literals, names, sequences, alternatives and classes."""
        if isinstance(pat, ast.MatchValue):
            return self._truth(self._cmp(ast.Eq(), v, self._eval(pat.value, env, mod, ci)))
        if isinstance(pat, ast.MatchSingleton):
            return v is pat.value
        if isinstance(pat, ast.MatchAs):
            if pat.pattern is not None and not self._match(pat.pattern, v, binds, env, mod, ci):
                return False
            if pat.name is not None:
                binds[pat.name] = v
            return True
        if isinstance(pat, ast.MatchOr):
            for alt in pat.patterns:
                b2: dict = {}
                if self._match(alt, v, b2, env, mod, ci):
                    binds.update(b2)
                    return True
            return False
        if isinstance(pat, ast.MatchSequence):
            if not isinstance(v, (list, tuple)):
                return False
            stars = [i for i, x in enumerate(pat.patterns) if isinstance(x, ast.MatchStar)]
            if not stars:
                if len(v) != len(pat.patterns):
                    return False
                return all(self._match(p_, x_, binds, env, mod, ci) for p_, x_ in zip(pat.patterns, v))
            si = stars[0]
            after = len(pat.patterns) - si - 1
            if len(v) < len(pat.patterns) - 1:
                return False
            if not all(self._match(p_, x_, binds, env, mod, ci) for p_, x_ in zip(pat.patterns[:si], v[:si])):
                return False
            if pat.patterns[si].name is not None:
                binds[pat.patterns[si].name] = list(v[si:len(v) - after])
            return all(self._match(p_, x_, binds, env, mod, ci) for p_, x_ in zip(pat.patterns[si + 1:], v[len(v) - after:] if after else []))
        if isinstance(pat, ast.MatchClass):
            c_ = self._eval(pat.cls, env, mod, ci)
            if isinstance(c_, ClsRef):
                if not (isinstance(v, (EV, DV)) and c_.cls in self.repo.mro(v.cls)):
                    return False
                if pat.patterns:
                    raise Unsupported('positional sub-patterns of a class pattern')
                return all(self._match(p_, self._attr(v, a_), binds, env, mod, ci) for a_, p_ in zip(pat.kwd_attrs, pat.kwd_patterns))
            if isinstance(c_, tuple) and len(c_) == 2 and c_[0] == 'builtin' and c_[1] in ('str', 'int', 'float', 'bool', 'list', 'tuple', 'dict', 'bytes', 'set'):
                import builtins as _b
                if isinstance(v, bool) and c_[1] == 'int':
                    ok_ = True
                else:
                    ok_ = isinstance(v, getattr(_b, c_[1]))
                if not ok_:
                    return False
                if len(pat.patterns) == 1:
                    return self._match(pat.patterns[0], v, binds, env, mod, ci)
                return not pat.patterns
            raise Unsupported('class pattern over ' + repr(c_)[:40])
        if isinstance(pat, ast.MatchMapping):
            if not isinstance(v, dict):
                return False
            for k_, p_ in zip(pat.keys, pat.patterns):
                kv = self._eval(k_, env, mod, ci)
                if kv not in v or not self._match(p_, v[kv], binds, env, mod, ci):
                    return False
            if pat.rest is not None:
                used = {self._eval(k_, env, mod, ci) for k_ in pat.keys}
                binds[pat.rest] = {k_: x_ for k_, x_ in v.items() if k_ not in used}
            return True
        raise Unsupported('match pattern ' + type(pat).__name__)

    def _seq(self, x):
        """The iterable a builtin consumes when it is handed x: members of an enum class, the items of an object with __iter__ (lazy), keys of
        a dict, a set in a fixed order; a NamedTuple value gives its fields."""
        if isinstance(x, ClsRef) and x.cls.is_enum:
            return self._members(x.cls)
        if isinstance(x, DV) and x.cls.is_namedtuple and self._find(x.cls, '__iter__')[1] is None:
            return [x.fields[n] for n in x.cls.order if n in x.cls.annots and n in x.fields]
        if isinstance(x, DV):
            if self._find(x.cls, '__iter__')[1] is None:
                c_, gi = self._find(x.cls, '__getitem__')
                if gi is None:
                    raise FoldRaise('TypeError', f"'{x.cls.name}' object is not iterable")

                def by_index():
                    i = 0
                    while True:
                        try:
                            yield self._invoke(c_.module, c_, gi, x, [i], {})
                        except FoldRaise as fr:
                            if fr.kind.split('.')[-1] == 'IndexError':
                                return
                            raise
                        i += 1
                return LazyIter(by_index())
            return self._iter_of(x)
        if isinstance(x, (set, frozenset)):
            return sorted(x, key=repr)
        if isinstance(x, (dict, type({}.items()), type({}.keys()), type({}.values()))):
            return list(x)
        if isinstance(x, (EV, ClsRef, Bound)) or x is None or isinstance(x, (bool, int, float)):
            raise FoldRaise('TypeError', f"'{type(x).__name__}' object is not iterable")
        return x

    def _iterate(self, it):
        """Iterate a value of the subject one item at a time (lazy iterators stay lazy; every item costs a step)."""
        if isinstance(it, DV):
            it = self._iter_of(it)
        if not isinstance(it, LazyIter):
            yield from it
            return
        while True:
            self.steps += 1
            if self.steps > self.max_steps:
                raise Unsupported('step limit')
            try:
                x = next(it)
            except StopIteration:
                return
            yield x

    def _with(self, st, i, env, mod, ci):
        if i == len(st.items):
            self._block(st.body, env, mod, ci)
            return
        it = st.items[i]
        mgr = self._eval(it.context_expr, env, mod, ci)
        if isinstance(mgr, DV):
            entered = self._getattr_call(mgr, '__enter__', [], {})
        elif getattr(mgr, '_sa_native', False):
            entered = mgr.__enter__()
        else:
            raise Unsupported('with over ' + type(mgr).__name__)
        if it.optional_vars is not None:
            self._assign(it.optional_vars, entered, env)
        try:
            self._with(st, i + 1, env, mod, ci)
        except (_Return, _Break, _Continue):
            self._exit_mgr(mgr, None)
            raise
        except FoldRaise as r:
            if self._truth(self._exit_mgr(mgr, r)):
                return
            raise
        else:
            self._exit_mgr(mgr, None)

    def _exit_mgr(self, mgr, exc):
        a = [None, None, None] if exc is None else [('builtin', exc.kind) if hasattr(__import__('builtins'), exc.kind) else exc.kind, exc, None]
        if isinstance(mgr, DV):
            return self._getattr_call(mgr, '__exit__', a, {})
        return mgr.__exit__(*a)

    def _property_set(self, obj: DV, name: str, v) -> bool:
        """obj.name = v where name is a property of the class: its setter runs (no setter: AttributeError).  A class whose whole MRO
        declares __slots__ accepts only the declared names."""
        mro_ = self.repo.mro(obj.cls)
        if all('__slots__' in c_.assigns for c_ in mro_) and all(not c_.base_names or all(self.repo.resolve_class_name(c_.module, b_) is not None or b_ == 'object' for b_ in c_.base_names) for c_ in mro_):
            slots = set()
            for c_ in mro_:
                try:
                    sv = ast.literal_eval(c_.assigns['__slots__'])
                except (ValueError, SyntaxError):
                    raise Unsupported('__slots__ is not a literal')
                slots |= {sv} if isinstance(sv, str) else set(sv)
            if name not in slots and '__dict__' not in slots:
                raise FoldRaise('AttributeError', f"'{obj.cls.name}' object has no attribute '{name}'")
        c, fn = self._find(obj.cls, name)
        if fn is None or c.method_kind(name) != 'property':
            return False
        for cc in self.repo.mro(obj.cls):
            st = cc.setters.get((name, 'setter'))
            if st is not None:
                self._invoke(cc.module, cc, st, obj, [v], {})
                return True
        raise FoldRaise('AttributeError', f"property '{name}' of '{obj.cls.name}' object has no setter")

    def _bind(self, env, name, v):
        """NAME = v in the scope `env` (declared nonlocal: the nearest enclosing function scope that binds it; declared global: the module)."""
        if isinstance(env, dict):
            if name in dict.get(env, '__global__', ()):
                self._globals[(self._cur_mod.name, name)] = v
                return
            if name in dict.get(env, '__nonlocal__', ()):
                o = getattr(env, '_outer', None)
                while o is not None:
                    if dict.__contains__(o, name):
                        dict.__setitem__(o, name, v)
                        return
                    o = getattr(o, '_outer', None)
                raise Unsupported(f'nonlocal {name}: no binding found')
        env[name] = v

    def _assign(self, t, v, env):
        if isinstance(t, ast.Name):
            self._bind(env, t.id, v)
        elif isinstance(t, (ast.Tuple, ast.List)) and any(isinstance(x, ast.Starred) for x in t.elts):
            vs = list(self._iterate(self._seq(v)))
            si = next(i for i, x in enumerate(t.elts) if isinstance(x, ast.Starred))
            after = len(t.elts) - si - 1
            if len(vs) < len(t.elts) - 1:
                raise FoldRaise('ValueError', f'not enough values to unpack (expected at least {len(t.elts) - 1}, got {len(vs)})')
            for tt, vv in zip(t.elts[:si], vs[:si]):
                self._assign(tt, vv, env)
            self._assign(t.elts[si].value, vs[si:len(vs) - after], env)
            for tt, vv in zip(t.elts[si + 1:], vs[len(vs) - after:] if after else []):
                self._assign(tt, vv, env)
        elif isinstance(t, (ast.Tuple, ast.List)):
            vs = list(self._iterate(self._seq(v)))
            if len(vs) != len(t.elts):
                if isinstance(v, (list, tuple, str, LazyIter, set, dict, range, DV, ClsRef, bytes)):
                    raise FoldRaise('ValueError', f'{"too many" if len(vs) > len(t.elts) else "not enough"} values to unpack (expected {len(t.elts)})')
                raise Unsupported('tuple arity')
            for tt, vv in zip(t.elts, vs):
                self._assign(tt, vv, env)
        elif isinstance(t, ast.Attribute) and isinstance(t.value, ast.Name) and t.value.id in env \
                and isinstance(env[t.value.id], DV) and id(env[t.value.id]) in self._fresh:
            if not self._property_set(env[t.value.id], t.attr, v):
                env[t.value.id].fields[t.attr] = v
        elif isinstance(t, ast.Attribute) and self.allow_loops and not (isinstance(t.value, ast.Name) and t.value.id not in env
                                                                        and (self.repo.resolve_name(self._cur_mod, t.value.id) or ('',))[0] != 'class'):
            # x.y.attr = v : the owner is evaluated; it must be an assignable object of the subject (built by a constructor / mutable dataclass)
            owner = self._eval(t.value, env, self._cur_mod, None)
            if isinstance(owner, DV) and self._property_set(owner, t.attr, v):
                pass
            elif isinstance(owner, DV) and id(owner) in self._fresh:
                owner.fields[t.attr] = v
            elif isinstance(owner, DV):
                raise FoldRaise('AttributeError', f"cannot assign to field '{t.attr}' of a frozen value") if any('frozen=True' in d for d in owner.cls.decorators) \
                    else Unsupported('assignment to an attribute of an object the folder did not build')
            elif isinstance(owner, ClsRef) and not owner.cls.is_enum and t.attr in owner.cls.assigns:
                self.__dict__.setdefault('_class_attr_cache', {})[(owner.cls.module.name, owner.cls.name, t.attr)] = v
            else:
                raise Unsupported('attribute assignment on ' + type(owner).__name__)
        elif isinstance(t, ast.Subscript) and isinstance(t.value, ast.Name) and t.value.id in env \
                and (isinstance(env[t.value.id], (dict, list)) or self._native_store(env[t.value.id])) and self.allow_loops:
            self._store_item(env[t.value.id], self._index(t.slice, env), v)
        elif isinstance(t, ast.Subscript) and self.allow_loops and not isinstance(t.value, ast.Name):
            base = self._eval(t.value, env, self._cur_mod, None)
            if not isinstance(base, (dict, list)) and not self._native_store(base):
                raise Unsupported('item assignment on ' + type(base).__name__)
            self._store_item(base, self._index(t.slice, env), v)
        elif isinstance(t, ast.Subscript) and isinstance(t.value, ast.Name) and t.value.id not in env:
            # item store on a module-level container (e.g. a hand-written memo table): the container is evaluated once per Folder
            # (as at import time) and keeps its contents across the calls folded with this Folder - exactly like the running program
            base = self._name(t.value.id, env, self._cur_mod, None)
            if not isinstance(base, (dict, list)):
                raise Unsupported('item assignment on ' + type(base).__name__)
            base[self._eval(t.slice, env, self._cur_mod, None)] = v
        else:
            raise Unsupported('assignment to non-local in folded function')

    @staticmethod
    def _native_store(x) -> bool:
        return getattr(x, '_sa_native', False) and hasattr(x, '__setitem__')

    def _index(self, sl, env):
        if isinstance(sl, ast.Slice):
            return slice(*[self._eval(x, env, self._cur_mod, None) if x is not None else None for x in (sl.lower, sl.upper, sl.step)])
        return self._eval(sl, env, self._cur_mod, None)

    @staticmethod
    def _store_item(base, k, v):
        try:
            base[k] = v
        except (IndexError, KeyError, TypeError, ValueError) as ex:
            raise _py_exc(ex)

    def _truth(self, v) -> bool:
        if isinstance(v, EV) and v.cls.enum_kind in ('Flag', 'IntFlag', 'IntEnum') and isinstance(v.value, int) and self._find(v.cls, '__bool__')[1] is None:
            return v.value != 0
        if isinstance(v, EV) and v.cls.enum_kind == 'StrEnum' and isinstance(v.value, str) and self._find(v.cls, '__bool__')[1] is None:
            return v.value != ''
        if isinstance(v, (EV, DV)):
            # truth value of an object of the subject: __bool__, else __len__ != 0, else true
            for dn in ('__bool__', '__len__'):
                c, fn = self._find(v.cls, dn)
                if fn is not None:
                    r = self._invoke(c.module, c, fn, v, [], {})
                    return bool(r) if dn == '__bool__' else r != 0
            return True
        if isinstance(v, ClsRef):
            return True
        return bool(v)

    def _plain_value(self, v, depth=0) -> bool:
        """Is v a Python value without any object of the analyser inside (so that str / repr / format of it are CPython's own)?"""
        if v is None or isinstance(v, (bool, int, float, str, bytes, bytearray, range)):
            return True
        if depth > 6:
            return False
        if isinstance(v, (list, tuple)) and not (isinstance(v, tuple) and v and isinstance(v[0], str) and v[0] in ('lambda', 'closure', 'func', 'pyfunc', 'builtin', 'strmethod', 'pymodule', 'extern')):
            return all(self._plain_value(x, depth + 1) for x in v)
        if type(v) is dict:
            return all(self._plain_value(k, depth + 1) and self._plain_value(x, depth + 1) for k, x in v.items())
        if isinstance(v, (set, frozenset)):
            return len(v) <= 1 and all(self._plain_value(x, depth + 1) for x in v)      # the order of a larger set is not a fact about the program
        return False

    def _json_plain(self, v, depth=0) -> bool:
        if v is None or isinstance(v, (bool, int, float, str)):
            return True
        if depth > 12:
            return False
        if isinstance(v, (list, tuple)) and not (isinstance(v, tuple) and v and isinstance(v[0], str) and v[0] in ('lambda', 'closure', 'func', 'pyfunc', 'builtin', 'strmethod', 'pymodule', 'extern')):
            return all(self._json_plain(x, depth + 1) for x in v)
        if type(v) is dict:
            return all(isinstance(k, (str, int, float, bool, type(None))) and self._json_plain(x, depth + 1) for k, x in v.items())
        if isinstance(v, (EV, DV, set, frozenset, bytes)):
            if isinstance(v, EV) and self._valued_enum(v):
                return False
            raise FoldRaise('TypeError', f'Object of type {v.cls.name if isinstance(v, (EV, DV)) else type(v).__name__} is not JSON serializable')
        return False

    def _repr(self, v) -> str:
        if isinstance(v, (EV, DV)):
            c, fn = self._find(v.cls, '__repr__')
            if fn is not None:
                return self._invoke(c.module, c, fn, v, [], {})
            if isinstance(v, EV):
                val = self._attr(v, 'value')
                return f'<{v.cls.name.split(".")[-1]}.{v.name}: {self._repr(val)}>'
            if v.cls.is_namedtuple or (v.cls.is_dataclass and not any('repr=False' in d for d in v.cls.decorators)):
                names = [n for n in v.cls.order if n in v.cls.annots and n in v.fields]
                shown = []
                for n in names:
                    dflt = v.cls.assigns.get(n)
                    if isinstance(dflt, ast.Call) and ast.unparse(dflt.func).split('.')[-1] == 'field' and any(k.arg == 'repr' and isinstance(k.value, ast.Constant) and not k.value.value for k in dflt.keywords):
                        continue
                    shown.append(f'{n}={self._repr(v.fields[n])}')
                return f'{v.cls.name.split(".")[-1]}({", ".join(shown)})'
            raise Unsupported('repr() of an object of the subject without __repr__ (its text contains an address)')
        if self._plain_value(v):
            return repr(v)
        if isinstance(v, list):
            return '[' + ', '.join(self._repr(x) for x in v) + ']'
        if isinstance(v, tuple) and not (v and isinstance(v[0], str) and v[0] in ('lambda', 'closure', 'func', 'pyfunc', 'builtin', 'strmethod', 'pymodule', 'extern')):
            return '(' + ', '.join(self._repr(x) for x in v) + (',)' if len(v) == 1 else ')')
        if type(v) is dict:
            return '{' + ', '.join(f'{self._repr(k)}: {self._repr(x)}' for k, x in v.items()) + '}'
        if isinstance(v, FoldRaise) and v.exc_args is not None:
            return f'{v.kind.split(".")[-1]}(' + ', '.join(self._repr(x) for x in v.exc_args) + ')'
        raise Unsupported(f'repr() of {type(v).__name__}')

    def _str(self, v) -> str:
        if isinstance(v, (EV, DV)):
            c, fn = self._find(v.cls, '__str__')
            if fn is not None:
                return self._invoke(c.module, c, fn, v, [], {})
            if isinstance(v, EV):
                if v.cls.enum_kind in ('IntEnum', 'IntFlag', 'StrEnum'):
                    return str(self._attr(v, 'value'))       # Python >= 3.11: str() of these is str() of the value
                if self._find(v.cls, '__repr__')[1] is not None or self._find(v.cls, '__format__')[1] is not None:
                    raise Unsupported('str() of an enum member with its own __repr__ / __format__')
                return f'{v.cls.name.split(".")[-1]}.{v.name}'
            return self._repr(v)
        if isinstance(v, FoldRaise):
            if v.exc_args is None:
                raise Unsupported('str() of an exception object whose arguments are not known to the folder')
            if v.kind.split('.')[-1] == 'KeyError' and len(v.exc_args) == 1:
                return self._repr(v.exc_args[0])
            return '' if not v.exc_args else self._str(v.exc_args[0]) if len(v.exc_args) == 1 else self._repr(tuple(v.exc_args))
        if isinstance(v, str):
            return v
        if self._plain_value(v):
            return str(v)
        if isinstance(v, (list, tuple)) or type(v) is dict:
            return self._repr(v)
        raise Unsupported(f'str() of {type(v).__name__}')

    def _format(self, v, spec: str) -> str:
        if isinstance(v, (EV, DV)):
            return format(_Fmt(v, self), spec)
        if isinstance(v, (OrdInt, IntervalInt, OpaqueText, Opaque)) or getattr(v, '_sa_native', False):
            raise Unsupported('format() of an analyser object')
        if not spec:
            return self._str(v)
        if self._plain_value(v):
            try:
                return format(v, spec)
            except (ValueError, TypeError) as ex:
                raise _py_exc(ex)
        raise Unsupported(f'format() of {type(v).__name__} with a format spec')

    def _int(self, v, *more) -> int:
        if more:
            if isinstance(v, (str, bytes)) and all(isinstance(m, int) for m in more):
                try:
                    return int(v, *more)
                except (ValueError, TypeError) as ex:
                    raise _py_exc(ex)
            raise Unsupported('int() with a base on ' + type(v).__name__)
        if isinstance(v, EV) and self._enum_num(v) is not None and self._find(v.cls, '__int__')[1] is None:
            return int(self._enum_num(v))
        if isinstance(v, (EV, DV)):
            for dn in ('__int__', '__index__'):
                c, fn = self._find(v.cls, dn)
                if fn is not None:
                    return self._invoke(c.module, c, fn, v, [], {})
            raise FoldRaise('TypeError', 'int() of object without __int__')
        if isinstance(v, (str, bytes)):
            try:
                return int(v)
            except ValueError:
                raise FoldRaise('ValueError', f'int({v!r})')
        if isinstance(v, (int, bool)):
            return int(v)
        if isinstance(v, float):
            try:
                return int(v)
            except (ValueError, OverflowError) as ex:
                raise _py_exc(ex)
        if v is None or isinstance(v, (list, tuple, dict, set)):
            raise FoldRaise('TypeError', f"int() argument must be a string, a bytes-like object or a real number, not '{type(v).__name__}'")
        raise Unsupported('int() of ' + type(v).__name__)

    def _construct(self, ci: ClassInfo, args, kw) -> Any:
        if ci.name in self.class_stubs:
            return self.class_stubs[ci.name](self, list(args), dict(kw))
        if ci.is_enum:
            if len(args) != 1:
                raise Unsupported('enum call arity')
            for n, val in ci.enum_members().items():
                if isinstance(val, ast.AST):
                    if self._truth(self._cmp(ast.Eq(), self._eval(val, {}, ci.module, ci), args[0])):
                        return EV(ci, n, val)
                    continue
                if val == args[0] and type(val) is type(args[0]):
                    return EV(ci, n, val)
            raise FoldRaise('ValueError', f'{args[0]!r} is not a valid {ci.name}')
        if ci.is_dataclass or ci.is_namedtuple:
            names = [n for n in ci.order if n in ci.annots and not ast.unparse(ci.annots[n]).split('[')[0].split('.')[-1] == 'ClassVar']
            fields: Dict[str, Any] = {}
            no_init = []
            for n in list(names):
                d_ = ci.assigns.get(n)
                if ci.is_dataclass and isinstance(d_, ast.Call) and ast.unparse(d_.func).split('.')[-1] == 'field' \
                        and any(k.arg == 'init' and isinstance(k.value, ast.Constant) and not k.value.value for k in d_.keywords):
                    names.remove(n)
                    no_init.append(n)
                    fk_ = {k.arg: k.value for k in d_.keywords}
                    if 'default' in fk_:
                        fields[n] = self._eval(fk_['default'], {}, ci.module, ci)
                    elif 'default_factory' in fk_:
                        fields[n] = self._apply(self._eval(fk_['default_factory'], {}, ci.module, ci), [], {})
            if len(args) > len(names):
                raise FoldRaise('TypeError', f'{ci.name}() takes {len(names)} positional arguments but {len(args)} were given')
            for k_ in kw:
                if k_ not in names:
                    raise FoldRaise('TypeError', f"{ci.name}() got an unexpected keyword argument '{k_}'")
            for i, n in enumerate(names):
                if i < len(args):
                    fields[n] = args[i]
                elif n in kw:
                    fields[n] = kw[n]
                elif n in ci.assigns:
                    dflt = ci.assigns[n]
                    if isinstance(dflt, ast.Call) and ast.unparse(dflt.func).split('.')[-1] == 'field':
                        fk = {k.arg: k.value for k in dflt.keywords}
                        if 'default' in fk:
                            fields[n] = self._eval(fk['default'], {}, ci.module, ci)
                        elif 'default_factory' in fk:
                            fields[n] = self._apply(self._eval(fk['default_factory'], {}, ci.module, ci), [], {})
                        else:
                            raise FoldRaise('TypeError', f'{ci.name}() missing required argument {n!r}')
                    else:
                        fields[n] = self._eval(dflt, {}, ci.module, ci)
                else:
                    raise FoldRaise('TypeError', f'{ci.name}() missing required argument {n!r}')
            dv = DV(ci, fields)
            if ci.is_dataclass and not any('frozen=True' in d for d in ci.decorators):
                self._fresh.add(id(dv))       # a mutable dataclass: its attributes may be assigned
                self._keep.append(dv)
            if '__post_init__' in ci.methods:
                self._invoke(ci.module, ci, ci.methods['__post_init__'], dv, [], {})
            return dv
        seen_ = set()
        for c_ in self.repo.mro(ci):
            for mn_, mf_ in c_.methods.items():
                if mn_ not in seen_:
                    seen_.add(mn_)
                    if any(ast.unparse(d_).split('.')[-1] == 'abstractmethod' for d_ in mf_.decorator_list):
                        raise FoldRaise('TypeError', f"Can't instantiate abstract class {ci.name} with abstract method {mn_}")
        c, init = self._find(ci, '__init__')
        if init is not None and self.allow_loops:
            obj = DV(ci, {})
            self._fresh.add(id(obj))
            self._keep.append(obj)
            self._invoke(c.module, c, init, obj, args, kw)
            return obj
        if init is None and not args and not kw and self.allow_loops:
            obj = DV(ci, {})        # no constructor in the package: object() semantics
            self._fresh.add(id(obj))
            self._keep.append(obj)
            return obj
        raise Unsupported(f'constructor of {ci.name}')

    def _getitem(self, base, idx):
        sub = ast.Subscript(value=ast.Name(id='b', ctx=ast.Load()), slice=ast.Name(id='i', ctx=ast.Load()), ctx=ast.Load())
        return self._eval(sub, {'b': base, 'i': idx}, self._cur_mod, None)

    _OP_CMP = {'is_': ast.Is, 'is_not': ast.IsNot, 'eq': ast.Eq, 'ne': ast.NotEq, 'lt': ast.Lt, 'le': ast.LtE, 'gt': ast.Gt, 'ge': ast.GtE}
    _OP_BIN = {'add': ast.Add, 'sub': ast.Sub, 'mul': ast.Mult, 'floordiv': ast.FloorDiv, 'mod': ast.Mod, 'truediv': ast.Div, 'and_': ast.BitAnd, 'or_': ast.BitOr,
               'xor': ast.BitXor, 'pow': ast.Pow, 'lshift': ast.LShift, 'rshift': ast.RShift, 'concat': ast.Add}

    def _operator_fn(self, name: str):
        """A function of the operator module applied to values of the subject: the operator itself, with the subject's semantics (identity
        and equality of enum members and objects, their own dunder methods), not Python's on the analyser's representation."""
        base = name.strip('_') if name.startswith('__') and name.endswith('__') else name
        base = {'is': 'is_', 'and': 'and_', 'or': 'or_', 'not': 'not_'}.get(base, base)
        if base in self._OP_CMP:
            return ('pyfunc', lambda a, b: self._cmp(self._OP_CMP[base](), a, b))
        if base in self._OP_BIN:
            return ('pyfunc', lambda a, b: self._binop(self._OP_BIN[base](), a, b))
        if base == 'contains':
            return ('pyfunc', lambda a, b: self._cmp(ast.In(), b, a))
        if base == 'not_':
            return ('pyfunc', lambda a: not self._truth(a))
        if base == 'truth':
            return ('pyfunc', lambda a: self._truth(a))
        if base == 'getitem':
            return ('pyfunc', lambda a, b: self._getitem(a, b))
        if base in ('neg', 'pos', 'inv', 'invert'):
            opn = {'neg': ast.USub, 'pos': ast.UAdd, 'inv': ast.Invert, 'invert': ast.Invert}[base]
            return ('pyfunc', lambda a: self._eval(ast.UnaryOp(op=opn(), operand=ast.Name(id='a', ctx=ast.Load())), {'a': a}, self._cur_mod, None))
        if base == 'index':
            return ('pyfunc', lambda a: self._int(a))
        if base == 'abs':
            return ('pyfunc', lambda a: self._apply(('builtin', 'abs'), [a], {}))
        if base in ('countOf', 'indexOf'):
            def count_index(a, b):
                hits = [i for i, x in enumerate(self._iterate(self._seq(a))) if self._same_or_equal(x, b)]
                if base == 'countOf':
                    return len(hits)
                if not hits:
                    raise FoldRaise('ValueError', 'sequence.index(x): x not in sequence')
                return hits[0]
            return ('pyfunc', count_index)
        raise Unsupported(f'operator.{name}')

    def _operator_getter(self, kind: str):
        """operator.attrgetter / itemgetter / methodcaller over values of the subject (attribute and item access through the folder)."""
        def attr_path(o, dotted):
            for part in dotted.split('.'):
                o = self._attr_or_prop(o, part)
            return o
        if kind == 'attrgetter':
            def make(*names):
                if not names or not all(isinstance(n, str) for n in names):
                    raise FoldRaise('TypeError', 'attrgetter expected attribute names')
                return ('pyfunc', (lambda o: attr_path(o, names[0])) if len(names) == 1 else (lambda o: tuple(attr_path(o, n) for n in names)))
        elif kind == 'itemgetter':
            def make(*items):
                if not items:
                    raise FoldRaise('TypeError', 'itemgetter expected 1 argument, got 0')
                return ('pyfunc', (lambda o: self._getitem(o, items[0])) if len(items) == 1 else (lambda o: tuple(self._getitem(o, i) for i in items)))
        else:
            def make(name, *a, **k):
                return ('pyfunc', lambda o: self._getattr_call(o, name, list(a), dict(k)))
        return ('pyfunc', make)

    def _augop(self, op, cur, v):
        """cur <op>= v : in place for lists / sets / bytearrays / dicts (aliases see the change) and through __i<op>__ of an object of the
        subject, else the binary operator."""
        name = self.BINOP_DUNDER.get(type(op))
        if isinstance(cur, DV) and name is not None:
            c_, fn_ = self._find(cur.cls, f'__i{name}__')
            if fn_ is not None:
                return self._invoke(c_.module, c_, fn_, cur, [v], {})
        if isinstance(op, ast.Add) and isinstance(cur, (list, bytearray)) and not getattr(cur, '_sa_native', False):
            try:
                cur.extend(self._iterate(self._seq(v)) if isinstance(cur, list) else v)
            except TypeError as ex:
                raise FoldRaise('TypeError', str(ex))
            return cur
        if isinstance(op, ast.Mult) and isinstance(cur, list) and isinstance(v, int):
            cur[:] = cur * v
            return cur
        if isinstance(cur, set) and isinstance(v, (set, frozenset)) and isinstance(op, (ast.BitOr, ast.BitAnd, ast.Sub, ast.BitXor)):
            {ast.BitOr: cur.update, ast.BitAnd: cur.intersection_update, ast.Sub: cur.difference_update, ast.BitXor: cur.symmetric_difference_update}[type(op)](v)
            return cur
        if type(cur) is dict and isinstance(op, ast.BitOr) and isinstance(v, dict):
            cur.update(v)
            return cur
        return self._binop(op, cur, v)

    def _name(self, name, env, mod: ModuleInfo, ci):
        if name in env:
            return env[name]
        if self._globals and (mod.name, name) in self._globals:
            g_ = self._globals[(mod.name, name)]
            if g_ is _UNSET:
                raise FoldRaise('NameError', f"name '{name}' is not defined")
            return g_
        r = self.repo.resolve_name(mod, name)
        if r is not None:
            if r[0] == 'class':
                return ClsRef(r[1])
            if r[0] == 'const':
                # a module-level constant is evaluated once, as at import time
                ck = (r[1].name, id(r[2]))
                cache = self.__dict__.setdefault('_const_cache', {})
                if ck not in cache:
                    cache[ck] = self._eval(r[2], {}, r[1], None)
                return cache[ck]
            if r[0] == 'external' and r[1] == 'numpy' and self.numpy is not None:
                return self.numpy.attr(r[2])
            if r[0] == 'external' and r[1] == 'collections':
                return self._collections(r[2])
            if r[0] == 'external' and r[1] in ('itertools', 'functools'):
                return self._stdlib_hof(r[1], r[2])
            if r[0] == 'external' and r[1] == 'operator' and r[2] in ('attrgetter', 'itemgetter', 'methodcaller'):
                return self._operator_getter(r[2])
            if r[0] == 'external' and r[1] == 'operator':
                return self._operator_fn(r[2])
            if r[0] == 'external' and r[1].split('.')[0] in PURE_MODULES:
                import importlib
                try:
                    v = getattr(importlib.import_module(r[1]), r[2])
                except (ImportError, AttributeError):
                    raise Unsupported(f'name {name} ({r[1]}.{r[2]})')
                return ('pyfunc', v) if callable(v) else v
            if r[0] == 'func':
                return ('func', r[1], r[2])
            if r[0] == 'module' and r[1] == 're':
                return ('pymodule', 're')
            if r[0] == 'module' and not r[1].startswith('bridge_env'):
                return ('pymodule', r[1])
        if name == 'NotImplemented':
            return NotImplemented
        if name == '__name__':
            return mod.name
        if name == '__file__':
            return mod.path
        if name in BUILTINS:
            return ('builtin', name)
        raise Unsupported(f'name {name}')

    BINOP_DUNDER = {ast.Add: 'add', ast.Sub: 'sub', ast.Mult: 'mul', ast.FloorDiv: 'floordiv', ast.Mod: 'mod', ast.BitOr: 'or', ast.BitAnd: 'and',
                    ast.BitXor: 'xor', ast.Div: 'truediv', ast.Pow: 'pow', ast.LShift: 'lshift', ast.RShift: 'rshift', ast.MatMult: 'matmul'}

    def _flag(self, ci, value: int) -> EV:
        """The member of a Flag class with this value: a declared member, else the composite of the declared single-bit members."""
        mem = ci.enum_members()
        for n_, v_ in mem.items():
            if v_ == value:
                return EV(ci, n_, v_)
        parts = [n_ for n_, v_ in mem.items() if isinstance(v_, int) and v_ and (v_ & (v_ - 1)) == 0 and value & v_]
        covered = 0
        for n_ in parts:
            covered |= mem[n_]
        if covered != value:
            raise FoldRaise('ValueError', f'{value} is not a valid {ci.name}')
        return EV(ci, '|'.join(parts), value)

    def _enum_num(self, v):
        """The number an enum member stands for in arithmetic (IntEnum / IntFlag), else None."""
        if isinstance(v, EV) and v.cls.enum_kind in ('IntEnum', 'IntFlag') and isinstance(v.value, int):
            return v.value
        return None

    def _binop(self, op, a, b):
        if isinstance(op, ast.Mod) and isinstance(a, str):
            wrapb = tuple(_Fmt(x, self) if isinstance(x, (EV, DV)) else x for x in b) if isinstance(b, tuple) else (_Fmt(b, self) if isinstance(b, (EV, DV)) else b)
            try:
                return a % wrapb
            except (Unsupported, FoldRaise):
                raise
            except (TypeError, ValueError, KeyError) as ex:
                raise _py_exc(ex)
        name = self.BINOP_DUNDER.get(type(op))
        if isinstance(a, DV) and a.cls.is_namedtuple and self._find(a.cls, f'__{name}__')[1] is None:
            a = tuple(self._seq(a))
        if isinstance(b, DV) and b.cls.is_namedtuple and self._find(b.cls, f'__r{name}__')[1] is None:
            b = tuple(self._seq(b))
        # objects of the subject: their own operator methods
        if name is not None and (isinstance(a, DV) or isinstance(b, DV)):
            for recv, other, dn in ((a, b, f'__{name}__'), (b, a, f'__r{name}__')):
                if isinstance(recv, DV):
                    c_, fn_ = self._find(recv.cls, dn)
                    if fn_ is not None:
                        return self._invoke(c_.module, c_, fn_, recv, [other], {})
            raise FoldRaise('TypeError', f'unsupported operand type(s) for {name}')
        if isinstance(a, EV) or isinstance(b, EV):
            ka = a.cls.enum_kind if isinstance(a, EV) else None
            kb = b.cls.enum_kind if isinstance(b, EV) else None
            # user-defined operator on the enum class
            for recv, other, dn in ((a, b, f'__{name}__'), (b, a, f'__r{name}__')):
                if isinstance(recv, EV) and name is not None:
                    c_, fn_ = self._find(recv.cls, dn)
                    if fn_ is not None:
                        return self._invoke(c_.module, c_, fn_, recv, [other], {})
            if isinstance(op, (ast.BitOr, ast.BitAnd, ast.BitXor)) and (ka in ('Flag', 'IntFlag') or kb in ('Flag', 'IntFlag')):
                fe = a if ka in ('Flag', 'IntFlag') else b
                oth = b if fe is a else a
                if isinstance(oth, EV) and oth.cls is fe.cls:
                    ov = oth.value
                elif fe.cls.enum_kind == 'IntFlag' and isinstance(oth, int) and not isinstance(oth, bool):
                    ov = oth
                else:
                    raise FoldRaise('TypeError', f'unsupported operand type(s) for {name}: flags of different classes')
                val = fe.value | ov if isinstance(op, ast.BitOr) else fe.value & ov if isinstance(op, ast.BitAnd) else fe.value ^ ov
                return self._flag(fe.cls, val)
            na = self._enum_num(a) if isinstance(a, EV) else a
            nb = self._enum_num(b) if isinstance(b, EV) else b
            if na is None or nb is None or isinstance(na, EV) or isinstance(nb, EV):
                raise FoldRaise('TypeError', f'unsupported operand type(s) for {name}: enum member')
            a, b = na, nb
        try:
            if isinstance(op, ast.Add):
                return a + b
            if isinstance(op, ast.Sub):
                return a - b
            if isinstance(op, ast.Mult):
                return a * b
            if isinstance(op, ast.FloorDiv):
                return a // b
            if isinstance(op, ast.Mod):
                return a % b
            if isinstance(op, ast.BitOr):
                return a | b
            if isinstance(op, ast.BitAnd):
                return a & b
            if isinstance(op, ast.BitXor):
                return a ^ b
            if isinstance(op, ast.Div):
                return a / b
            if isinstance(op, ast.Pow):
                return a ** b
            if isinstance(op, ast.LShift):
                return a << b
            if isinstance(op, ast.RShift):
                return a >> b
        except (ValueError, OverflowError) as e:
            raise _py_exc(e)
        except TypeError as e:
            if _has_internal([a, b]) or any(isinstance(x_, dict) and type(x_) is not dict for x_ in (a, b)) or getattr(a, '_sa_native', False) or getattr(b, '_sa_native', False):
                raise Unsupported(f'operator on a modelled container / analyser object: {e}')
            raise FoldRaise('TypeError', str(e))
        except ZeroDivisionError as e:
            raise FoldRaise('ZeroDivisionError', str(e))
        raise Unsupported('binop ' + type(op).__name__)

    def _cmp(self, op, a, b):
        if isinstance(op, ast.Is):
            return self._same(a, b)
        if isinstance(op, ast.IsNot):
            return not self._same(a, b)
        if isinstance(op, (ast.Eq, ast.NotEq)) and (isinstance(a, EV) or isinstance(b, EV)) and not (isinstance(a, EV) and isinstance(b, EV)):
            # IntEnum / IntFlag / StrEnum members equal their values
            ev_, ot_ = (a, b) if isinstance(a, EV) else (b, a)
            if ev_.cls.enum_kind in ('IntEnum', 'IntFlag', 'StrEnum') and isinstance(ot_, (int, str)) and not isinstance(ot_, bool):
                r_ = ev_.value == ot_
                return r_ if isinstance(op, ast.Eq) else not r_
        if isinstance(op, (ast.Eq, ast.NotEq, ast.Lt, ast.LtE, ast.Gt, ast.GtE)) and (isinstance(a, DV) or isinstance(b, DV)):
            return self._rich({ast.Eq: 'eq', ast.NotEq: 'ne', ast.Lt: 'lt', ast.LtE: 'le', ast.Gt: 'gt', ast.GtE: 'ge'}[type(op)], a, b)
        if isinstance(op, (ast.Eq, ast.NotEq)) and (isinstance(a, EV) or isinstance(b, EV)):
            for x_, y_, dn_ in ((a, b, '__eq__' if isinstance(op, ast.Eq) else '__ne__'), (b, a, '__eq__' if isinstance(op, ast.Eq) else '__ne__')):
                if isinstance(x_, EV):
                    c_, fn_ = self._find(x_.cls, dn_)
                    if fn_ is not None:
                        r_ = self._invoke(c_.module, c_, fn_, x_, [y_], {})
                        if r_ is not NotImplemented:
                            return r_
        if isinstance(op, ast.Eq):
            return a == b
        if isinstance(op, ast.NotEq):
            return a != b
        if isinstance(op, (ast.In, ast.NotIn)) and isinstance(a, EV) and isinstance(b, EV) and a.cls is b.cls and a.cls.enum_kind in ('Flag', 'IntFlag'):
            r = (a.value & b.value) == a.value
            return r if isinstance(op, ast.In) else not r
        if isinstance(op, (ast.In, ast.NotIn)) and isinstance(b, DV):
            c_, fn_ = self._find(b.cls, '__contains__')
            if fn_ is not None:
                r = self._truth(self._invoke(c_.module, c_, fn_, b, [a], {}))
                return r if isinstance(op, ast.In) else not r
        if isinstance(op, (ast.In, ast.NotIn)) and isinstance(b, DV) and b.cls.is_namedtuple:
            b = tuple(self._seq(b))
        if isinstance(op, (ast.In, ast.NotIn)) and isinstance(b, DV):
            r = any(self._same_or_equal(a, x_) for x_ in self._iterate(self._seq(b)))      # no __contains__: iteration
            return r if isinstance(op, ast.In) else not r
        if isinstance(op, (ast.In, ast.NotIn)) and isinstance(b, ClsRef) and b.cls.is_enum:
            r = isinstance(a, EV) and a.cls is b.cls
            return r if isinstance(op, ast.In) else not r
        if isinstance(op, (ast.In, ast.NotIn)) and isinstance(b, (list, tuple)) and any(isinstance(x_, (EV, DV)) for x_ in list(b) + [a]):
            r = any(self._same_or_equal(a, x_) for x_ in b)
            return r if isinstance(op, ast.In) else not r
        if isinstance(op, (ast.In, ast.NotIn)) and isinstance(b, (dict, set, frozenset)) and (self._valued_enum(a) or any(self._valued_enum(k_) for k_ in b)):
            raise Unsupported('membership of an int- / str-valued enum member in a hashed container (it hashes like its value)')
        if isinstance(op, (ast.In, ast.NotIn)):
            try:
                r = a in b
            except TypeError as e:
                if _has_internal([a, b]):
                    raise Unsupported(f'membership test on an analyser object: {e}')
                raise FoldRaise('TypeError', str(e))
            return r if isinstance(op, ast.In) else not r
        if isinstance(a, EV) or isinstance(b, EV):
            na_, nb_ = (self._enum_num(a) if isinstance(a, EV) else a), (self._enum_num(b) if isinstance(b, EV) else b)
            if isinstance(na_, (int, float)) and isinstance(nb_, (int, float)):
                a, b = na_, nb_
        if (isinstance(a, EV) or isinstance(b, EV)) and any(isinstance(x_, EV) and any(self._find(x_.cls, d_)[1] is not None for d_ in ('__lt__', '__le__', '__gt__', '__ge__')) for x_ in (a, b)):
            # an enumeration with its own ordering methods (possibly completed by functools.total_ordering)
            return self._rich({ast.Lt: 'lt', ast.LtE: 'le', ast.Gt: 'gt', ast.GtE: 'ge'}[type(op)], a, b)
        for v in (a, b):
            if isinstance(v, (EV, DV, ClsRef)) or v is None:
                raise FoldRaise('TypeError', 'ordering of non-numbers')
        try:
            if isinstance(op, ast.Lt):
                return a < b
            if isinstance(op, ast.LtE):
                return a <= b
            if isinstance(op, ast.Gt):
                return a > b
            if isinstance(op, ast.GtE):
                return a >= b
        except TypeError as e:
            raise FoldRaise('TypeError', str(e))
        raise Unsupported('compare ' + type(op).__name__)

    _REFLECT = {'lt': 'gt', 'gt': 'lt', 'le': 'ge', 'ge': 'le', 'eq': 'eq', 'ne': 'ne'}

    def _rich(self, opn: str, a, b):
        """a <op> b where a or b is an object of the subject: Python's rich-comparison protocol (the operand's own method, the reflected
        method of the other operand, then identity for == / != and TypeError for the orderings)."""
        if isinstance(b, DV) and isinstance(a, DV) and b.cls is not a.cls and a.cls in self.repo.mro(b.cls):
            order = ((b, self._REFLECT[opn], a), (a, opn, b))        # the right operand's class derives from the left one's: its method first
        else:
            order = ((a, opn, b), (b, self._REFLECT[opn], a))
        for x_, o_, y_ in order:
            r = self._rich1(x_, o_, y_)
            if r is not NotImplemented:
                return r
        if opn == 'eq':
            return a is b
        if opn == 'ne':
            return a is not b
        raise FoldRaise('TypeError', f"'{opn}' not supported between these instances")

    def _dc_compare_fields(self, ci: ClassInfo):
        out = []
        for n in ci.order:
            if n not in ci.annots or ast.unparse(ci.annots[n]).split('[')[0].split('.')[-1] == 'ClassVar':
                continue
            d = ci.assigns.get(n)
            if isinstance(d, ast.Call) and ast.unparse(d.func).split('.')[-1] == 'field' and any(k.arg == 'compare' and isinstance(k.value, ast.Constant) and not k.value.value for k in d.keywords):
                continue
            out.append(n)
        return out

    def _rich1(self, x, opn: str, y):
        if isinstance(x, EV):
            c, fn = self._find(x.cls, f'__{opn}__')
            if fn is not None:
                return self._invoke(c.module, c, fn, x, [y], {})
            if opn in ('eq', 'ne'):
                same = isinstance(y, EV) and y == x
                return same if opn == 'eq' else not same
            if any('total_ordering' in d for c_ in self.repo.mro(x.cls) for d in c_.decorators):
                return self._total_ordering(x, opn, y)
            return NotImplemented
        if not isinstance(x, DV):
            return NotImplemented
        c, fn = self._find(x.cls, f'__{opn}__')
        if fn is not None:
            return self._invoke(c.module, c, fn, x, [y], {})
        decs = ' '.join(d for c_ in self.repo.mro(x.cls) for d in c_.decorators)
        if x.cls.is_namedtuple:
            xs = tuple(self._seq(x))
            ys = tuple(self._seq(y)) if isinstance(y, DV) and y.cls.is_namedtuple else y
            if not isinstance(ys, tuple):
                return NotImplemented
            return self._seq_compare(opn, xs, ys)
        if x.cls.is_dataclass and opn in ('eq', 'ne') and 'eq=False' not in decs:
            if not (isinstance(y, DV) and y.cls is x.cls):
                return NotImplemented
            names = self._dc_compare_fields(x.cls)
            r = self._seq_compare('eq', tuple(x.fields.get(n) for n in names), tuple(y.fields.get(n) for n in names))
            return r if opn == 'eq' else not r
        if x.cls.is_dataclass and opn in ('lt', 'le', 'gt', 'ge') and 'order=True' in decs:
            if not (isinstance(y, DV) and y.cls is x.cls):
                return NotImplemented
            names = self._dc_compare_fields(x.cls)
            return self._seq_compare(opn, tuple(x.fields.get(n) for n in names), tuple(y.fields.get(n) for n in names))
        if opn == 'ne':
            r = self._rich1(x, 'eq', y)
            return NotImplemented if r is NotImplemented else not self._truth(r)
        if 'total_ordering' in decs and opn in ('lt', 'le', 'gt', 'ge'):
            return self._total_ordering(x, opn, y)
        return NotImplemented

    def _total_ordering(self, x, opn: str, y):
        """The comparison functools.total_ordering derives from the one ordering method the class defines (and ==)."""
        root = next((r_ for r_ in ('lt', 'le', 'gt', 'ge') if self._find(x.cls, f'__{r_}__')[1] is not None), None)
        if root is None:
            return NotImplemented
        c2, f2 = self._find(x.cls, f'__{root}__')
        r = self._invoke(c2.module, c2, f2, x, [y], {})
        if r is NotImplemented:
            return NotImplemented
        r = self._truth(r)
        eq = lambda: self._truth(self._cmp(ast.Eq(), x, y))       # noqa: E731
        table = {('lt', 'gt'): lambda: not r and not eq(), ('lt', 'le'): lambda: r or eq(), ('lt', 'ge'): lambda: not r,
                 ('le', 'ge'): lambda: not r or eq(), ('le', 'lt'): lambda: r and not eq(), ('le', 'gt'): lambda: not r,
                 ('gt', 'lt'): lambda: not r and not eq(), ('gt', 'ge'): lambda: r or eq(), ('gt', 'le'): lambda: not r,
                 ('ge', 'le'): lambda: not r or eq(), ('ge', 'gt'): lambda: r and not eq(), ('ge', 'lt'): lambda: not r}
        return table[(root, opn)]()

    def _seq_compare(self, opn: str, xs: tuple, ys: tuple) -> bool:
        """Lexicographic comparison of two tuples of values of the subject (as tuple.__lt__ etc. do it: first differing pair decides)."""
        for p, q in zip(xs, ys):
            if p is q or self._truth(self._cmp(ast.Eq(), p, q)):
                continue
            if opn == 'eq':
                return False
            if opn == 'ne':
                return True
            return self._truth(self._cmp({'lt': ast.Lt(), 'le': ast.LtE(), 'gt': ast.Gt(), 'ge': ast.GtE()}[opn], p, q))
        return {'eq': len(xs) == len(ys), 'ne': len(xs) != len(ys), 'lt': len(xs) < len(ys), 'le': len(xs) <= len(ys), 'gt': len(xs) > len(ys), 'ge': len(xs) >= len(ys)}[opn]

    @staticmethod
    def _valued_enum(v) -> bool:
        return isinstance(v, EV) and v.cls.enum_kind in ('IntEnum', 'IntFlag', 'StrEnum')

    def _same_or_equal(self, a, b) -> bool:
        """x in [..] compares by identity, then by ==."""
        if a is b:
            return True
        return self._truth(self._cmp(ast.Eq(), a, b))

    @staticmethod
    def _same(a, b):
        if isinstance(a, (EV, ClsRef)) or isinstance(b, (EV, ClsRef)):
            return a == b
        if a is None or b is None or isinstance(a, bool) or isinstance(b, bool):
            return a is b
        if isinstance(a, int) and isinstance(b, int):
            if a == b and not (-5 <= a <= 256) and a is not b:
                raise Unsupported('identity comparison of two equal integers outside the small-integer cache: the result depends on the implementation')
            return a == b
        if isinstance(a, tuple) and isinstance(b, tuple) and len(a) == 2 and len(b) == 2 and a[0] in ('builtin', 'extern') and b[0] in ('builtin', 'extern'):
            return a == b        # builtin / external classes and functions are denoted by name: one object per name
        if isinstance(a, (str, bytes, tuple, float)) and type(a) is type(b):
            if a is b or a != b:
                return a is b
            # equal by value, different objects here: in CPython the answer depends on interning - not a fact about the program
            raise Unsupported(f'identity comparison (`is`) of two equal {type(a).__name__} values: the result depends on interning')
        return a is b

    def _eval(self, e, env, mod: ModuleInfo, ci):
        self.steps += 1
        if self.steps > self.max_steps:
            raise Unsupported('step limit')
        if isinstance(e, ast.Constant):
            return e.value
        if isinstance(e, ast.Name):
            return self._name(e.id, env, mod, ci)
        if isinstance(e, ast.Attribute):
            return self._attr_or_prop(self._eval(e.value, env, mod, ci), e.attr)
        if isinstance(e, ast.JoinedStr):
            out = []
            abstract = False
            for v in e.values:
                if isinstance(v, ast.Constant):
                    out.append(str(v.value))
                else:
                    val = self._eval(v.value, env, mod, ci)
                    if getattr(val, '_sa_native', False) and self.abstract_join is not None:
                        out.append(val)
                        abstract = True
                    else:
                        if v.conversion == 114:
                            val = self._repr(val)
                        elif v.conversion == 115:
                            val = self._str(val)
                        elif v.conversion == 97:
                            val = ascii(self._repr(val))[1:-1] if isinstance(val, (EV, DV)) else ascii(val) if self._plain_value(val) else None
                            if val is None:
                                raise Unsupported('!a conversion of an analyser object')
                        spec = self._eval(v.format_spec, env, mod, ci) if v.format_spec is not None else ''
                        out.append(self._format(val, spec))
            if abstract:
                return self.abstract_join(out)
            return ''.join(out)
        if isinstance(e, ast.BoolOp):
            if isinstance(e.op, ast.And):
                v = True
                for x in e.values:
                    v = self._eval(x, env, mod, ci)
                    if not self._truth(v):
                        return v
                return v
            v = False
            for x in e.values:
                v = self._eval(x, env, mod, ci)
                if self._truth(v):
                    return v
            return v
        if isinstance(e, ast.UnaryOp):
            v = self._eval(e.operand, env, mod, ci)
            if isinstance(e.op, ast.Not):
                return not self._truth(v)
            if isinstance(v, DV):
                dn_ = {ast.USub: '__neg__', ast.UAdd: '__pos__', ast.Invert: '__invert__'}[type(e.op)]
                c_, fn_ = self._find(v.cls, dn_)
                if fn_ is None:
                    raise FoldRaise('TypeError', f'bad operand type for unary operator: {v.cls.name}')
                return self._invoke(c_.module, c_, fn_, v, [], {})
            if isinstance(v, EV):
                if isinstance(e.op, ast.Invert) and v.cls.enum_kind in ('Flag', 'IntFlag'):
                    allbits = 0
                    for x_ in v.cls.enum_members().values():
                        if isinstance(x_, int):
                            allbits |= x_
                    return self._flag(v.cls, allbits & ~v.value)
                nv_ = self._enum_num(v)
                if nv_ is None:
                    raise FoldRaise('TypeError', 'bad operand type for unary operator: enum member')
                v = nv_
            try:
                if isinstance(e.op, ast.USub):
                    return -v
                if isinstance(e.op, ast.UAdd):
                    return +v
                if isinstance(e.op, ast.Invert):
                    return ~v
            except TypeError as ex_:
                if _has_internal([v]):
                    raise Unsupported(f'unary operator on an analyser object: {ex_}')
                raise FoldRaise('TypeError', str(ex_))
            raise Unsupported('unary')
        if isinstance(e, ast.BinOp):
            return self._binop(e.op, self._eval(e.left, env, mod, ci), self._eval(e.right, env, mod, ci))
        if isinstance(e, ast.Compare):
            left = self._eval(e.left, env, mod, ci)
            for k_, (op, c) in enumerate(zip(e.ops, e.comparators)):
                right = self._eval(c, env, mod, ci)
                r_ = self._cmp(op, left, right)
                if getattr(r_, '_sa_native', False) and len(e.ops) == 1:
                    return r_       # a rich comparison that does not give a truth value (elementwise comparison of an array)
                if not r_:
                    return False
                left = right
            return True
        if isinstance(e, ast.IfExp):
            return self._eval(e.body if self._truth(self._eval(e.test, env, mod, ci)) else e.orelse, env, mod, ci)
        if isinstance(e, ast.Tuple):
            return tuple(self._elts(e.elts, env, mod, ci))
        if isinstance(e, ast.List):
            return self._elts(e.elts, env, mod, ci)
        if isinstance(e, ast.Set):
            return set(self._elts(e.elts, env, mod, ci))
        if isinstance(e, ast.Dict):
            d_ = {}
            for k, v in zip(e.keys, e.values):
                if k is None:
                    m_ = self._eval(v, env, mod, ci)
                    if not isinstance(m_, dict):
                        raise Unsupported('** of a non-dict in a dict display')
                    d_.update(m_)
                else:
                    kk_ = self._eval(k, env, mod, ci)
                    d_[kk_] = self._eval(v, env, mod, ci)
            return d_
        if isinstance(e, ast.Subscript):
            base = self._eval(e.value, env, mod, ci)
            if isinstance(e.slice, ast.Slice):
                lo = self._eval(e.slice.lower, env, mod, ci) if e.slice.lower else None
                hi = self._eval(e.slice.upper, env, mod, ci) if e.slice.upper else None
                st_ = self._eval(e.slice.step, env, mod, ci) if e.slice.step is not None else None
                if isinstance(base, DV) and base.cls.is_namedtuple and self._find(base.cls, '__getitem__')[1] is None:
                    base = tuple(self._seq(base))
                elif isinstance(base, DV) and self._find(base.cls, '__getitem__')[1] is not None:
                    c, fn = self._find(base.cls, '__getitem__')
                    return self._invoke(c.module, c, fn, base, [slice(lo, hi, st_)], {})
                if isinstance(base, (DV, EV, ClsRef)):
                    raise Unsupported('slice of an object of the subject')
                try:
                    return base[lo:hi:st_]
                except (TypeError, ValueError) as ex:
                    raise _py_exc(ex)
            idx = self._eval(e.slice, env, mod, ci)
            if isinstance(base, DV):
                c, fn = self._find(base.cls, '__getitem__')
                if fn is None and base.cls.is_namedtuple:
                    try:
                        return tuple(self._seq(base))[idx]
                    except (IndexError, TypeError) as ex:
                        raise _py_exc(ex)
                if fn is None:
                    raise Unsupported(f'{base.cls.name} is not subscriptable')
                return self._invoke(c.module, c, fn, base, [idx], {})
            if isinstance(base, ClsRef):
                if not base.cls.is_enum:
                    raise Unsupported('subscript of class')
                mem = base.cls.enum_members()
                if isinstance(idx, str) and idx in mem:
                    return self._member(base.cls, idx)
                raise FoldRaise('KeyError', repr(idx))
            if self._valued_enum(idx) and isinstance(base, (list, tuple, str, bytes, range)) and isinstance(idx.value, int):
                idx = idx.value
            elif isinstance(idx, DV) and isinstance(base, (list, tuple, str, bytes, range)):
                idx = self._int(idx) if self._find(idx.cls, '__index__')[1] is not None else idx
            if isinstance(base, dict) and (self._valued_enum(idx) or any(self._valued_enum(k_) for k_ in base)) and idx not in base:
                raise Unsupported('lookup of an int- / str-valued enum member in a dict (it hashes like its value)')
            try:
                return base[idx]
            except (IndexError, KeyError, TypeError) as ex:
                if isinstance(ex, TypeError) and _has_internal([base, idx]):
                    raise Unsupported(f'subscript with an analyser object: {ex}')
                raise _py_exc(ex)
        if isinstance(e, ast.Call):
            return self._call(e, env, mod, ci)
        if isinstance(e, ast.Lambda):
            if e.args.vararg or e.args.kwarg or e.args.kwonlyargs:
                raise Unsupported('lambda with * / ** / keyword-only parameters')
            lenv = _scope(env)
            names_ = [a.arg for a in e.args.args]
            for pn, dflt in zip(reversed(names_), reversed(e.args.defaults)):
                lenv[pn] = self._eval(dflt, env, mod, ci)        # default values are evaluated when the lambda is created
            return ('lambda', e, lenv, mod, ci)
        if isinstance(e, (ast.ListComp, ast.SetComp, ast.GeneratorExp, ast.DictComp)):
            def source(g, env2):
                it = self._eval(g.iter, env2, mod, ci)
                if isinstance(it, ClsRef) and it.cls.is_enum:
                    it = self._members(it.cls)
                if isinstance(it, (dict, type({}.items()), type({}.keys()), type({}.values()))):
                    it = list(it)
                if getattr(it, '_sa_native', False) and hasattr(it, '__iter__'):
                    it = list(it)
                if isinstance(it, DV):
                    it = self._iter_of(it)
                if isinstance(it, (bytes, bytearray)):
                    it = list(it)
                if not isinstance(it, (list, tuple, range, str, frozenset, set, LazyIter)) and type(it).__module__ in ('builtins', 're', 'itertools') and hasattr(it, '__next__'):
                    it = LazyIter(it)       # an iterator object of the standard library (re.finditer, iter(callable, sentinel) ...)
                if not isinstance(it, (list, tuple, range, str, frozenset, set, LazyIter)):
                    raise Unsupported('comprehension over ' + type(it).__name__)
                return sorted(it, key=repr) if isinstance(it, (set, frozenset)) else it

            def rec(gi, env2, first=None):
                if gi == len(e.generators):
                    if isinstance(e, ast.DictComp):
                        yield (self._eval(e.key, env2, mod, ci), self._eval(e.value, env2, mod, ci))
                    else:
                        yield self._eval(e.elt, env2, mod, ci)
                    return
                g = e.generators[gi]
                it = first if first is not None else source(g, env2)
                env3 = env2          # one scope for the whole comprehension, as in Python: the loop variables are rebound, not re-created
                for x in self._iterate(it):
                    self._assign(g.target, x, env3)
                    if all(self._truth(self._eval(c, env3, mod, ci)) for c in g.ifs):
                        yield from rec(gi + 1, env3)
            if isinstance(e, ast.GeneratorExp):
                # a generator expression: the outermost iterable is evaluated now, everything else when the items are asked for
                env0 = _scope(env, comp=True)
                return LazyIter(rec(0, env0, first=source(e.generators[0], env)))
            out = list(rec(0, _scope(env, comp=True)))
            if isinstance(e, ast.SetComp):
                return set(out)
            if isinstance(e, ast.DictComp):
                return dict(out)
            return out
        if isinstance(e, ast.NamedExpr):
            v_ = self._eval(e.value, env, mod, ci)
            tgt = env
            while isinstance(tgt, _ChainEnv) and tgt._comp:
                tgt = tgt._outer       # an assignment expression inside a comprehension binds in the enclosing function
            tgt[e.target.id] = v_
            return v_
        raise Unsupported(f'expression {type(e).__name__}')

    def _attr_or_prop(self, obj, name):
        a = self._attr(obj, name)
        return a

    def _call_closure(self, f, args, kw):
        _, node, cenv, cmod, cci = f
        env2 = _ChainEnv(cenv)
        dvals = dict.get(cenv, '__defaults__', None) if isinstance(cenv, dict) else None
        posonly = [a.arg for a in node.args.posonlyargs]
        names = posonly + [a.arg for a in node.args.args]
        dmap = dict(zip(reversed(names), reversed(node.args.defaults)))
        if len(args) > len(names) and node.args.vararg is None:
            raise FoldRaise('TypeError', f'{node.name}() takes {len(names)} positional arguments but {len(args)} were given')
        for i, prm in enumerate(names):
            if i < len(args):
                if prm in kw and prm not in posonly:
                    raise FoldRaise('TypeError', f"{node.name}() got multiple values for argument '{prm}'")
                env2[prm] = args[i]
            elif prm in kw and prm not in posonly:
                env2[prm] = kw[prm]
            elif dvals is not None and prm in dvals:
                env2[prm] = dvals[prm]
            elif dvals is None and prm in dmap:
                env2[prm] = self._eval(dmap[prm], cenv, cmod, cci)
            else:
                raise FoldRaise('TypeError', f"{node.name}() missing 1 required positional argument: '{prm}'")
        if node.args.vararg is not None:
            env2[node.args.vararg.arg] = tuple(args[len(names):])
        for a_, d_ in zip(node.args.kwonlyargs, node.args.kw_defaults):
            if a_.arg in kw:
                env2[a_.arg] = kw[a_.arg]
            elif dvals is not None and a_.arg in dvals:
                env2[a_.arg] = dvals[a_.arg]
            elif d_ is not None and dvals is None:
                env2[a_.arg] = self._eval(d_, cenv, cmod, cci)
            else:
                raise FoldRaise('TypeError', f"{node.name}() missing 1 required keyword-only argument: '{a_.arg}'")
        known = set(names) - set(posonly) | {a_.arg for a_ in node.args.kwonlyargs}
        extra = {k_: v_ for k_, v_ in kw.items() if k_ not in known}
        if node.args.kwarg is not None:
            env2[node.args.kwarg.arg] = extra
        elif extra:
            raise FoldRaise('TypeError', f"{node.name}() got an unexpected keyword argument '{sorted(extra)[0]}'")
        is_gen = _GEN_CACHE.get(id(node))
        if is_gen is None:
            is_gen = _GEN_CACHE[id(node)] = any(isinstance(x, (ast.Yield, ast.YieldFrom)) for x in _own_nodes(node))
        if is_gen:
            def run_body(sink):
                env2['__yield__'] = sink
                self._block(node.body, env2, cmod, cci)
            g = _ThreadGen(self, run_body)
            if any(ast.unparse(x).split('.')[-1] == 'contextmanager' for x in node.decorator_list):
                return _GenCM(g)
            return LazyIter(g)
        try:
            self._block(node.body, env2, cmod, cci)
        except _Return as r:
            return r.v
        return None

    def _as_callable(self, v):
        if isinstance(v, tuple) and len(v) == 5 and v[0] == 'closure':
            return lambda *a, **k: self._call_closure(v, list(a), dict(k))
        if isinstance(v, tuple) and len(v) == 5 and v[0] == 'lambda':
            return lambda *a, **k: self._call_value(v, list(a), dict(k))
        return v

    def _pycallable(self, v):
        """A Python callable for any callable value of the subject (for map/filter/iter/itertools/sorted keys)."""
        if v is None or (callable(v) and not isinstance(v, (Bound, ClsRef))):
            return v
        c = self._as_callable(v)
        if callable(c) and not isinstance(c, (Bound, ClsRef)):
            return c
        if isinstance(v, tuple) and len(v) == 2 and v[0] == 'pyfunc':
            return v[1]
        if isinstance(v, (Bound, ClsRef)) or (isinstance(v, tuple) and v and v[0] in ('func', 'builtin', 'strmethod')):
            return lambda *a, **k: self._apply(v, list(a), dict(k))
        raise Unsupported('call of a non-callable value ' + repr(v)[:60])

    def _call_value(self, f, args, kw=None):
        _, node, cenv, cmod, cci = f
        env2 = _scope(cenv)
        names = [a.arg for a in node.args.args]
        if len(args) > len(names):
            raise FoldRaise('TypeError', f'<lambda>() takes {len(names)} positional arguments but {len(args)} were given')
        for prm, a in zip(names, args):
            env2[prm] = a
        for k_, v_ in (kw or {}).items():
            if k_ not in names:
                raise FoldRaise('TypeError', f"<lambda>() got an unexpected keyword argument '{k_}'")
            if k_ in names[:len(args)]:
                raise FoldRaise('TypeError', f"<lambda>() got multiple values for argument '{k_}'")
            env2[k_] = v_
        ndef = len(node.args.defaults)
        for i_, prm in enumerate(names):
            if not dict.__contains__(env2, prm) and i_ < len(names) - ndef:
                raise FoldRaise('TypeError', f"<lambda>() missing 1 required positional argument: '{prm}'")
        return self._eval(node.body, env2, cmod, cci)

    def _call(self, e: ast.Call, env, mod, ci):
        # super().m(...)
        if isinstance(e.func, ast.Attribute) and isinstance(e.func.value, ast.Call) \
                and isinstance(e.func.value.func, ast.Name) and e.func.value.func.id == 'super':
            selfv = env.get('self')
            if not isinstance(selfv, DV) or ci is None:
                raise Unsupported('super() outside a method of a folded object')
            mro = self.repo.mro(selfv.cls)
            if ci not in mro:
                raise Unsupported('super(): defining class not in the MRO of self')
            for c in mro[mro.index(ci) + 1:]:
                if e.func.attr in c.methods:
                    sargs = [self._eval(a, env, mod, ci) for a in e.args]
                    skw = {k.arg: self._eval(k.value, env, mod, ci) for k in e.keywords}
                    return self._invoke(c.module, c, c.methods[e.func.attr], selfv, sargs, skw)
            stub = self.stubs.get('super().' + e.func.attr)
            if stub is not None:
                return stub(selfv, *[self._eval(a, env, mod, ci) for a in e.args],
                            **{k.arg: self._eval(k.value, env, mod, ci) for k in e.keywords})
            raise Unsupported(f'super().{e.func.attr} not found in the package')
        ftxt = ast.unparse(e.func)
        if ftxt in self.stubs:
            return self.stubs[ftxt](*[self._eval(a, env, mod, ci) for a in e.args],
                                    **{k.arg: self._eval(k.value, env, mod, ci) for k in e.keywords})
        f = self._eval(e.func, env, mod, ci)
        args = self._elts(e.args, env, mod, ci)
        kw = {}
        for k in e.keywords:
            if k.arg is None:
                d_ = self._eval(k.value, env, mod, ci)
                if not isinstance(d_, dict):
                    raise Unsupported('** of a non-dict')
                kw.update(d_)
            else:
                kw[k.arg] = self._eval(k.value, env, mod, ci)
        return self._apply(f, args, kw, e)

    def _elts(self, elts, env, mod, ci) -> list:
        """Values of an argument list / display; `*x` spreads the items of x."""
        out = []
        for a in elts:
            if isinstance(a, ast.Starred):
                v = self._eval(a.value, env, mod, ci)
                if isinstance(v, ClsRef) and v.cls.is_enum:
                    v = self._members(v.cls)
                elif isinstance(v, (set, frozenset)):
                    v = sorted(v, key=repr)
                elif isinstance(v, (dict, type({}.items()), type({}.keys()), type({}.values()))):
                    v = list(v)
                if isinstance(v, DV):
                    v = self._seq(v)
                if not isinstance(v, (list, tuple, range, str, LazyIter, bytes)):
                    raise Unsupported('* of ' + type(v).__name__)
                out.extend(self._iterate(v))
            else:
                out.append(self._eval(a, env, mod, ci))
        return out

    def _apply(self, f, args, kw, e=None):
        """Call the value `f` of the subject with evaluated arguments."""
        if isinstance(f, Bound):
            return self._call_bound(f, args, kw)
        if isinstance(f, ClsRef):
            return self._construct(f.cls, args, kw)
        if isinstance(f, tuple) and f[0] == 'func':
            return self._invoke(f[1], None, f[2], None, args, kw)
        if isinstance(f, tuple) and f[0] == 'pyfunc':
            conv = [self._as_callable(a) for a in args]
            conv = [self._members(a.cls) if isinstance(a, ClsRef) and a.cls.is_enum else a for a in conv]
            try:
                return f[1](*conv, **kw)
            except (Unsupported, FoldRaise):
                raise
            except Exception as ex:  # noqa
                if isinstance(ex, TypeError) and _OWN_BINDING.search(str(ex)):
                    raise Unsupported(f'call outside the modelled signature of {getattr(f[1], "__name__", f[1])}: {ex}')
                if isinstance(ex, (TypeError, AttributeError)) and _has_internal(list(conv) + list(kw.values())):
                    # the standard-library function was handed an analyser object it cannot work on: a limit of the folder, not
                    # an exception of the subject
                    raise Unsupported(f'native call {getattr(f[1], "__name__", f[1])} on an analyser object: {ex}')
                raise _py_exc(ex)
        if isinstance(f, tuple) and f[0] == 'closure':
            return self._call_closure(f, args, kw)
        if isinstance(f, tuple) and f[0] == 'lambda':
            return self._call_value(f, list(args), dict(kw))
        if isinstance(f, tuple) and f[0] == 'strmethod' and isinstance(f[1], str) and f[2] in ('format', 'format_map'):
            wrap = lambda x: _Fmt(x, self) if isinstance(x, (EV, DV)) else x      # noqa: E731
            try:
                if f[2] == 'format':
                    return f[1].format(*[wrap(a) for a in args], **{k_: wrap(v_) for k_, v_ in kw.items()})
                return f[1].format_map({k_: wrap(v_) for k_, v_ in args[0].items()})
            except (Unsupported, FoldRaise):
                raise
            except (KeyError, IndexError, ValueError, TypeError, AttributeError) as ex:
                raise _py_exc(ex)
        if isinstance(f, tuple) and f[0] == 'strmethod':
            conv2 = [self._as_callable(a) for a in args]
            # an enum class handed to a method of a builtin container can only be iterated: its members in definition order
            conv2 = [self._members(a.cls) if isinstance(a, ClsRef) and a.cls.is_enum else a for a in conv2]
            try:
                return getattr(f[1], f[2])(*conv2, **kw)
            except (Unsupported, FoldRaise):
                raise
            except Exception as ex:  # noqa
                if isinstance(ex, (TypeError, AttributeError)) and _has_internal(list(conv2) + list(kw.values())) and not isinstance(f[1], (list, set, dict)):
                    raise Unsupported(f'native method {f[2]} on an analyser object: {ex}')
                raise _py_exc(ex)
        if isinstance(f, tuple) and f[0] == 'builtin':
            n = f[1]
            if n in ('range', 'divmod', 'round', 'abs', 'chr', 'pow', 'bin', 'hex', 'oct', 'float') and any(self._valued_enum(a_) or isinstance(a_, DV) for a_ in args):
                args = [a_.value if self._valued_enum(a_) and isinstance(a_.value, int) else self._int(a_) if isinstance(a_, DV) and self._find(a_.cls, '__index__')[1] is not None else a_ for a_ in args]
                if _has_internal(args):
                    raise Unsupported(f'{n}() of an object of the subject')
            if n == 'str':
                if not args:
                    return ''
                if len(args) > 1 or kw:
                    if isinstance(args[0], (bytes, bytearray)):
                        try:
                            return str(*args, **kw)
                        except (UnicodeError, LookupError, TypeError) as ex:
                            raise _py_exc(ex)
                    raise Unsupported('str() with an encoding on ' + type(args[0]).__name__)
                return self._str(args[0])
            if n == 'int':
                if not args:
                    return 0
                return self._int(*args)
            if n == 'format':
                return self._format(args[0], args[1] if len(args) > 1 else '')
            if n in ('len', 'list', 'tuple', 'set') and args and isinstance(args[0], ClsRef) and args[0].cls.is_enum:
                mem = self._members(args[0].cls)
                return len(mem) if n == 'len' else {'list': list, 'tuple': tuple, 'set': set}[n](mem)
            if n == 'len' and isinstance(args[0], DV) and args[0].cls.is_namedtuple and self._find(args[0].cls, '__len__')[1] is None:
                return len(self._seq(args[0]))
            if n in ('list', 'tuple', 'set', 'sorted', 'frozenset', 'reversed', 'enumerate', 'all', 'any') and args and isinstance(args[0], DV):
                if n == 'reversed' and self._find(args[0].cls, '__reversed__')[1] is not None:
                    return self._getattr_call(args[0], '__reversed__', [], {})
                if n == 'reversed' and not args[0].cls.is_namedtuple:
                    cl_, ln_ = self._find(args[0].cls, '__len__')
                    cg_, gi_ = self._find(args[0].cls, '__getitem__')
                    if ln_ is None or gi_ is None:
                        raise FoldRaise('TypeError', f"'{args[0].cls.name}' object is not reversible")
                    k_ = self._invoke(cl_.module, cl_, ln_, args[0], [], {})
                    return [self._invoke(cg_.module, cg_, gi_, args[0], [i_], {}) for i_ in range(k_ - 1, -1, -1)]
                args = [list(self._iterate(self._seq(args[0])))] + list(args[1:])
            if n in ('sorted', 'min', 'max', 'all', 'any', 'reversed') and len(args) == 1 and isinstance(args[0], (ClsRef, dict, set, frozenset, LazyIter)) and not (n == 'reversed' and isinstance(args[0], (set, frozenset, LazyIter))):
                args = [list(self._iterate(self._seq(args[0])))]
            if n in ('zip', 'map', 'filter') and any(isinstance(a, (DV, ClsRef)) for a in args[(0 if n == 'zip' else 1):]):
                k0 = 0 if n == 'zip' else 1
                args = list(args[:k0]) + [self._seq(a) if isinstance(a, (DV, ClsRef)) else a for a in args[k0:]]
            if n == 'len':
                if isinstance(args[0], DV):
                    c_, fn_ = self._find(args[0].cls, '__len__')
                    if fn_ is None:
                        raise FoldRaise('TypeError', f"object of type '{args[0].cls.name}' has no len()")
                    return self._invoke(c_.module, c_, fn_, args[0], [], {})
                if isinstance(args[0], (EV, ClsRef)) or args[0] is None or isinstance(args[0], (int, float)):
                    raise FoldRaise('TypeError', f"object of type '{type(args[0]).__name__}' has no len()")
                return len(args[0])
            if n == 'set':
                return set(args[0]) if args else set()
            if n == 'sorted':
                import functools
                items = list(args[0])
                keyf = self._pycallable(kw.get('key')) if kw.get('key') is not None else (lambda x: x)

                def cmp(a, b):
                    ka, kb = keyf(a), keyf(b)
                    if self._truth(self._cmp(ast.Lt(), ka, kb)):
                        return -1
                    if self._truth(self._cmp(ast.Lt(), kb, ka)):
                        return 1
                    return 0
                return sorted(items, key=functools.cmp_to_key(cmp), reverse=bool(kw.get('reverse', False)))
            if n == 'abs':
                return abs(args[0])
            if n == 'bool':
                return self._truth(args[0])
            if n == 'tuple':
                return tuple(args[0]) if args else ()
            if n == 'list':
                return list(args[0]) if args else []
            if n in ('min', 'max'):
                items = list(args[0]) if len(args) == 1 else list(args)
                if isinstance(items, list) and len(args) == 1 and isinstance(args[0], ClsRef):
                    raise Unsupported('min/max of a class')
                if not items:
                    if 'default' in kw:
                        return kw['default']
                    raise FoldRaise('ValueError', f'{n}() arg is an empty sequence')
                keyf = self._pycallable(kw.get('key')) if kw.get('key') is not None else (lambda x: x)
                best, bk = items[0], keyf(items[0])
                for x in items[1:]:
                    k = keyf(x)
                    if self._truth(self._cmp(ast.Lt(), k, bk) if n == 'min' else self._cmp(ast.Gt(), k, bk)):
                        best, bk = x, k
                return best
            if n == 'dict':
                if args and isinstance(args[0], (LazyIter, DV)):
                    args = [list(self._iterate(self._seq(args[0])))] + list(args[1:])
                try:
                    return dict(*args, **kw)
                except (TypeError, ValueError) as ex:
                    if _has_internal(args):
                        raise Unsupported(f'dict() of an analyser object: {ex}')
                    raise _py_exc(ex)
            if n == 'range':
                try:
                    return range(*args)
                except (TypeError, ValueError) as ex:
                    raise _py_exc(ex)
            if n in ('chr', 'ord', 'pow', 'bin', 'hex', 'oct', 'hash', 'ascii') and not _has_internal(args):
                import builtins as _bi
                try:
                    if n == 'hash' and not all(isinstance(a_, (int, bool, type(None))) or (isinstance(a_, tuple) and all(isinstance(x_, int) for x_ in a_)) for a_ in args):
                        raise Unsupported('hash() of a value whose hash is randomised or address based')
                    return getattr(_bi, n)(*args)
                except (TypeError, ValueError, OverflowError) as ex:
                    raise _py_exc(ex)
            if n == 'enumerate':
                return LazyIter(enumerate(self._iterate(self._seq(args[0])), *args[1:], **kw))
            if n in ('all', 'any'):
                return (all if n == 'all' else any)(self._truth(x) for x in args[0])
            if n == 'zip':
                strict_ = bool(kw.get('strict', False))
                its_ = [self._iterate(self._seq(a)) for a in args]
                return LazyIter(zip(*its_, strict=True) if strict_ else zip(*its_))
            if n == 'map':
                fn_ = self._pycallable(args[0])
                return LazyIter(fn_(*xs) for xs in zip(*[self._iterate(self._seq(a)) for a in args[1:]]))
            if n == 'print':
                if kw.get('file') is not None:
                    raise Unsupported('print(file=...)')
                return None
            if n == 'vars' and len(args) == 1 and isinstance(args[0], DV):
                return self._attr(args[0], '__dict__')
            if n == 'object' and not args and not kw:
                return object()        # a unique sentinel: only identity is ever asked of it
            if n == 'id':
                return id(args[0])       # only meaningful as a key (the memo of copy.deepcopy); never compared with a constant
            if n == 'callable':
                v0 = args[0]
                return isinstance(v0, (Bound, ClsRef)) or (isinstance(v0, tuple) and bool(v0) and isinstance(v0[0], str) and v0[0] in ('lambda', 'closure', 'func', 'pyfunc', 'builtin', 'strmethod')) \
                    or (isinstance(v0, DV) and self._find(v0.cls, '__call__')[1] is not None)
            if n == 'type' and len(args) == 1:
                v0 = args[0]
                if isinstance(v0, (DV, EV)):
                    return ClsRef(v0.cls)
                if isinstance(v0, FoldRaise):
                    r0 = self.repo.resolve_name(self._cur_mod, v0.kind) if getattr(self, '_cur_mod', None) is not None else None
                    return ClsRef(r0[1]) if r0 is not None and r0[0] == 'class' else ('builtin', v0.kind.split('.')[-1])
                if self._plain_value(v0) or isinstance(v0, (list, tuple, dict, set, frozenset)):
                    return ('builtin', type(v0).__name__)
                if getattr(v0, '_sa_native', False) and hasattr(v0, 'data') and hasattr(v0, 'dtype'):
                    return ('extern', 'numpy.ndarray')
                if getattr(v0, '_sa_class', None) and self.repo.has_cls(v0._sa_class):
                    return ClsRef(self.repo.cls(v0._sa_class))
                raise Unsupported('type() of ' + type(v0).__name__)
            if n == 'repr':
                return self._repr(args[0])
            if n == 'sum':
                acc = args[1] if len(args) > 1 else kw.get('start', 0)
                for x_ in self._iterate(self._seq(args[0])):
                    acc = self._binop(ast.Add(), acc, x_)
                return acc
            if n == 'reversed':
                if isinstance(args[0], (LazyIter, set, frozenset)):
                    raise FoldRaise('TypeError', f"'{type(args[0]).__name__}' object is not reversible")
                return LazyIter(iter(list(reversed(args[0]))))
            if n == 'frozenset':
                return frozenset(args[0]) if args else frozenset()
            if n in ('getattr', 'hasattr'):
                if isinstance(args[0], DV) and isinstance(args[1], str) and args[1].startswith('__') and not args[1].endswith('__') and args[1] in args[0].fields:
                    # a private name is stored under its mangled form; the text '__x' does not name it
                    if n == 'hasattr':
                        return False
                    if len(args) > 2:
                        return args[2]
                    raise FoldRaise('AttributeError', str(args[1]))
                try:
                    v = self._attr_or_prop(args[0], args[1])
                    return True if n == 'hasattr' else v
                except (Unsupported, FoldRaise, AnalysisError, KeyError, AttributeError):
                    if n == 'hasattr':
                        return False
                    if len(args) > 2:
                        return args[2]
                    raise FoldRaise('AttributeError', str(args[1]))
            if n == 'setattr':
                if isinstance(args[0], DV):
                    if any('frozen=True' in d for d in args[0].cls.decorators):
                        raise FoldRaise('FrozenInstanceError', f"cannot assign to field '{args[1]}'", bases=('FrozenInstanceError', 'AttributeError'))
                    if args[0].cls.is_namedtuple:
                        raise FoldRaise('AttributeError', "can't set attribute")
                    if not self._property_set(args[0], args[1], args[2]):
                        args[0].fields[args[1]] = args[2]
                    return None
                raise Unsupported('setattr on a non-object')
            if n == 'iter':
                if len(args) == 2:
                    fn_ = self._pycallable(args[0])
                    sentinel_ = args[1]

                    def calls():
                        while True:
                            self.steps += 1
                            if self.steps > self.max_steps:
                                raise Unsupported('step limit')
                            v_ = fn_()
                            if self._cmp(ast.Eq(), v_, sentinel_):
                                return
                            yield v_
                    return LazyIter(calls())
                it_ = args[0]
                if isinstance(it_, DV):
                    return self._iter_of(it_)
                if isinstance(it_, LazyIter):
                    return it_
                if isinstance(it_, ClsRef) and it_.cls.is_enum:
                    it_ = self._members(it_.cls)
                if isinstance(it_, (set, frozenset)):
                    it_ = sorted(it_, key=repr)
                return LazyIter(iter(list(it_)))
            if n == 'next' and isinstance(args[0], DV):
                cn_, nx_ = self._find(args[0].cls, '__next__')
                if nx_ is None:
                    raise FoldRaise('TypeError', f"'{args[0].cls.name}' object is not an iterator")
                try:
                    return self._invoke(cn_.module, cn_, nx_, args[0], [], {})
                except FoldRaise as fr_:
                    if fr_.kind == 'StopIteration' and len(args) > 1:
                        return args[1]
                    raise
            if n == 'next':
                if isinstance(args[0], (list, tuple, str, dict, set, frozenset, range, bytes)):
                    raise FoldRaise('TypeError', f"'{type(args[0]).__name__}' object is not an iterator")
                if not isinstance(args[0], LazyIter):
                    raise Unsupported('next() of ' + type(args[0]).__name__)
                self.steps += 1
                if self.steps > self.max_steps:
                    raise Unsupported('step limit')
                try:
                    return next(args[0])
                except StopIteration:
                    if len(args) > 1:
                        return args[1]
                    raise FoldRaise('StopIteration', '')
            if n == 'bytearray':
                return bytearray(*args)
            if n == 'bytes':
                return bytes(*args)
            if n == 'divmod':
                return divmod(*args)
            if n == 'round':
                return round(*args)
            if n == 'float':
                return float(*args)
            if n == 'filter':
                fn_ = self._pycallable(args[0])
                return LazyIter(x for x in self._iterate(self._seq(args[1])) if self._truth(fn_(x) if fn_ is not None else x))
            if n in ('isinstance', 'issubclass'):
                v, c = args
                cs = list(c) if isinstance(c, tuple) and not (len(c) == 2 and c[0] == 'builtin') else [c]
                import builtins as _b
                out_ = False
                for c1 in cs:
                    if isinstance(c1, ClsRef):
                        if n == 'isinstance':
                            out_ = out_ or (isinstance(v, (EV, DV)) and c1.cls in self.repo.mro(v.cls))
                        else:
                            out_ = out_ or (isinstance(v, ClsRef) and c1.cls in self.repo.mro(v.cls))
                        continue
                    if isinstance(c1, tuple) and len(c1) == 2 and c1[0] == 'builtin' and isinstance(getattr(_b, c1[1], None), type):
                        bt = getattr(_b, c1[1])
                        if n == 'isinstance' and isinstance(v, FoldRaise):
                            kt = getattr(_b, v.kind.split('.')[-1], None)
                            out_ = out_ or (isinstance(kt, type) and issubclass(kt, bt)) or (not isinstance(kt, type) and bt in (Exception, BaseException))
                        elif n == 'issubclass':
                            kn = v[1] if isinstance(v, tuple) and len(v) == 2 and v[0] == 'builtin' else v if isinstance(v, str) else None
                            if kn is None:
                                raise Unsupported('issubclass of ' + type(v).__name__)
                            kt = getattr(_b, kn.split('.')[-1], None)
                            out_ = out_ or (isinstance(kt, type) and issubclass(kt, bt)) or (not isinstance(kt, type) and bt in (Exception, BaseException))
                        elif isinstance(v, DV) and v.cls.is_namedtuple and n == 'isinstance':
                            out_ = out_ or bt in (object, tuple)
                        elif isinstance(v, EV) and n == 'isinstance' and self._valued_enum(v):
                            out_ = out_ or bt is object or (bt is int and v.cls.enum_kind in ('IntEnum', 'IntFlag')) or (bt is str and v.cls.enum_kind == 'StrEnum')
                        elif isinstance(v, (EV, DV, ClsRef, Bound)):
                            out_ = out_ or bt is object
                        elif getattr(v, '_sa_native', False) or isinstance(v, (OrdInt, IntervalInt, OpaqueText, Opaque)):
                            raise Unsupported(f'isinstance of an analyser object against {c1[1]}')
                        else:
                            out_ = out_ or isinstance(v, bt)
                        continue
                    raise Unsupported(f'{n} target {c1!r}'[:80])
                return out_
            raise Unsupported('builtin ' + n)
        raise Unsupported('call of ' + (ast.unparse(e.func) if e is not None else repr(f)[:60]))


def table(folder: Folder, domain, fn) -> Dict[Any, Any]:
    """Fold `fn(x)` for every x in domain; raising rows map to ('raise', kind)."""
    out = {}
    for x in domain:
        try:
            out[x] = fn(x)
        except FoldRaise as r:
            out[x] = ('raise', r.kind)
    return out


# --------------------------------------------------------------------------------------------------
# partial evaluation of guard atoms under a valuation
# --------------------------------------------------------------------------------------------------
class NoValue:
    pass


NOVALUE = NoValue()


class PartialEvaluator:
    """Evaluates an expression (typically a guard atom after path substitution) where some
    sub-expressions are given values by `matchers` (callables node -> value | NOVALUE, tried
    top-down) and the rest must fold to constants.  Returns NOVALUE when the expression depends
    on something no matcher knows - the caller treats that atom as unknown (three-valued)."""

    def __init__(self, folder: Folder, mod: ModuleInfo, matchers):
        self.folder, self.mod, self.matchers = folder, mod, matchers

    def eval(self, e: ast.AST):
        env: Dict[str, Any] = {}
        counter = [0]
        matchers = self.matchers

        class T(ast.NodeTransformer):
            def visit(self, node):
                if isinstance(node, ast.expr):
                    for m in matchers:
                        v = m(node)
                        if v is not NOVALUE:
                            name = f'__pe{counter[0]}'
                            counter[0] += 1
                            env[name] = v
                            return ast.Name(name, ast.Load())
                return super().visit(node)
        tree = T().visit(clone(e))
        self.folder.steps = 0
        try:
            return self.folder._eval(tree, env, self.mod, None)
        except (Unsupported, FoldRaise):
            return NOVALUE
        except (TypeError, AttributeError, KeyError, IndexError, ValueError):
            return NOVALUE

    def truth(self, e: ast.AST) -> Optional[bool]:
        v = self.eval(e)
        if v is NOVALUE:
            return None
        try:
            return self.folder._truth(v)
        except (Unsupported, FoldRaise):
            return None
