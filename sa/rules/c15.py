"""C15 - card, call, contract, seat and vulnerability notations are exact inverses.

Every converter is folded (sa.fold) over its complete finite domain read from the source and the
resulting tables are compared as wholes: inverse, injective, order-agreeing.  Exhaustive."""
from __future__ import annotations

from ..fold import DV, EV, Folder
from ..index import AnalysisError
from .common import fold_or_error, loc, try_fold

RANK_LETTERS = {10: 'T', 11: 'J', 12: 'Q', 13: 'K', 14: 'A'}


def card_domain(chk, f: Folder):
    """Ranks and suits accepted by Card.__post_init__ (scan window read against the guard)."""
    suits_all = f.members('Suit')
    ranks = [r for r in range(-3, 21)
             if try_fold('C15.R1', 'Card.__post_init__', lambda: f.make('Card', rank=r, suit=suits_all[0]))[0] == 'ok']
    suits = [s for s in suits_all
             if try_fold('C15.R1', 'Card.__post_init__', lambda: f.make('Card', rank=ranks[0] if ranks else 2, suit=s))[0] == 'ok']
    return ranks, suits


def run(chk):
    repo = chk.repo
    f = Folder(repo, allow_loops=True, max_steps=400000)
    chk.explanation = (
        'Table extraction by constant folding of the converter functions over their complete finite domains '
        '(52 cards, 38 calls, 4 seats, 4 vulnerabilities and their spellings, 35x3 contracts x 4 vulnerabilities x '
        '4 declarers + passed out, all 2704 card pairs for the order); tables compared as wholes (inverse, '
        'injective, order agrees with index). No function of the subject is executed by CPython; folding happens '
        'on the AST inside the analyser.')
    chk.exhaustive = True
    chk.trusted.append('sa.fold partial evaluator (pure loop-free subset)')

    # ---- R1 ranks -----------------------------------------------------------------------------
    w_card, q_card = loc(repo, 'Card', '__post_init__', 'C15.R1')
    ranks, suits = card_domain(chk, f)
    chk.require(ranks == list(range(2, 15)), 'C15.R1', w_card, q_card, 'rank guard',
                'Card accepts exactly the ranks 2..14', f'Card accepts ranks {ranks}, expected 2..14')
    chk.require([s.name for s in suits] == ['C', 'D', 'H', 'S'], 'C15.R1', w_card, q_card, 'suit guard',
                'Card accepts exactly the four suits (not NT)', f'Card accepts suits {suits}')
    if not ranks or not suits:
        raise AnalysisError('C15.R1', 'Card.__post_init__', 'empty card domain')
    w_i2s, q_i2s = loc(repo, 'Card', 'rank_int_to_str', 'C15.R1')
    w_s2i, q_s2i = loc(repo, 'Card', 'rank_str_to_int', 'C15.R1')
    w_str, q_str = loc(repo, 'Card', '__str__', 'C15.R1')
    i2s = {}
    for r in ranks:
        chk.evals()
        res = try_fold('C15.R1', q_i2s, lambda: f.call_class('Card', 'rank_int_to_str', r))
        i2s[r] = res
        want = RANK_LETTERS.get(r, str(r))
        chk.require(res == ('ok', want), 'C15.R1', w_i2s, q_i2s, f'rank_int_to_str({r})',
                    f'rank {r} is written {want!r}', f'rank_int_to_str({r}) = {res}, PBN/protocol letter is {want!r}')
        if res[0] == 'ok':
            back = try_fold('C15.R1', q_s2i, lambda: f.call_class('Card', 'rank_str_to_int', res[1]))
            chk.require(back == ('ok', r), 'C15.R1', w_s2i, q_s2i, f'rank_str_to_int({res[1]!r})',
                        f'rank_str_to_int inverts rank_int_to_str at {r}',
                        f'rank_str_to_int({res[1]!r}) = {back}, expected {r}')
        for s in suits:
            card = f.make('Card', rank=r, suit=s)
            txt = try_fold('C15.R1', q_str, lambda: f.str_of(card))
            chk.require(txt == ('ok', s.name + want), 'C15.R1', w_str, q_str, f'str(Card({r},{s.name}))',
                        f'str(card) is <suit letter><rank letter> for {s.name}{want}',
                        f'str(Card({r},{s.name})) = {txt}, expected {s.name + want!r}')
    letters = {v[1] for v in i2s.values() if v[0] == 'ok'}
    chk.require(len(letters) == len(ranks), 'C15.R1', w_i2s, q_i2s, 'rank letters injective',
                'rank letters are pairwise distinct', f'rank letters collide: {sorted(letters)}')
    chk.require(not (letters & {s.name for s in suits}), 'C15.R1', w_i2s, q_i2s, 'rank vs suit letters',
                'no rank letter is a suit letter (both card notations stay unambiguous)',
                f'rank letters {sorted(letters)} overlap suit letters')

    # ---- R2 card index / text ---------------------------------------------------------------
    w_int, q_int = loc(repo, 'Card', '__int__', 'C15.R2')
    w_i2c, q_i2c = loc(repo, 'Card', 'int_to_card', 'C15.R2')
    w_s2c, q_s2c = loc(repo, 'Card', 'str_to_card', 'C15.R2')
    cards = [f.make('Card', rank=r, suit=s) for s in suits for r in ranks]
    idx = {}
    texts = {}
    for c in cards:
        chk.evals()
        i = try_fold('C15.R2', q_int, lambda: f.call_method(c, '__int__'))
        idx[c] = i
        want = (c.fields['rank'] - 2) + 13 * (c.fields['suit'].value - 1)
        chk.require(i == ('ok', want), 'C15.R2', w_int, q_int, f'int({c})',
                    f'index of {c} is rank-2+13*(suit-1) = {want}', f'int({c}) = {i}, expected {want}')
        if i[0] == 'ok':
            back = try_fold('C15.R2', q_i2c, lambda: f.call_class('Card', 'int_to_card', i[1]))
            chk.require(back == ('ok', c), 'C15.R2', w_i2c, q_i2c, f'int_to_card({i[1]})',
                        f'int_to_card inverts int() at {c}', f'int_to_card({i[1]}) = {back}, expected {c}')
        t = try_fold('C15.R2', q_str, lambda: f.str_of(c))
        texts[c] = t
        if t[0] == 'ok':
            back = try_fold('C15.R2', q_s2c, lambda: f.call_class('Card', 'str_to_card', t[1]))
            chk.require(back == ('ok', c), 'C15.R2', w_s2c, q_s2c, f'str_to_card({t[1]!r})',
                        f'str_to_card inverts str() at {c}', f'str_to_card({t[1]!r}) = {back}, expected {c}')
    ok_idx = [v[1] for v in idx.values() if v[0] == 'ok']
    chk.require(sorted(ok_idx) == list(range(52)), 'C15.R2', w_int, q_int, 'index range',
                'the 52 cards map onto 0..51 bijectively', f'index image is {sorted(ok_idx)}')
    chk.require(len({v[1] for v in texts.values() if v[0] == 'ok'}) == 52, 'C15.R2', w_str, q_str, 'text injective',
                'the 52 card texts are pairwise distinct', 'two cards share a text')
    for bad in (-1, 52):
        res = try_fold('C15.R2', q_i2c, lambda: f.call_class('Card', 'int_to_card', bad))
        chk.require(res[0] == 'raise', 'C15.R2', w_i2c, q_i2c, f'int_to_card({bad})',
                    f'index {bad} is refused', f'int_to_card({bad}) = {res} instead of raising')

    # ---- R3 order agrees with index -----------------------------------------------------------
    import operator
    ops = {'__lt__': operator.lt, '__le__': operator.le, '__gt__': operator.gt, '__ge__': operator.ge}
    for dn, op in ops.items():
        w_d, q_d = loc(repo, 'Card', dn, 'C15.R3')
        bad = None
        n = 0
        for a in cards:
            for b0 in cards:
                # the right operand is a DISTINCT object (an equal card held in another object): identity must not stand in for equality
                b = DV(b0.cls, dict(b0.fields))
                n += 1
                res = try_fold('C15.R3', q_d, lambda: f.call_method(a, dn, b))
                want = op(idx[a][1], idx[b0][1]) if idx[a][0] == idx[b0][0] == 'ok' else None
                if res != ('ok', want):
                    bad = bad or (a, b, res, want)
        chk.evals(n)
        chk.require(bad is None, 'C15.R3', w_d, q_d, f'Card.{dn}',
                    f'{dn} agrees with the comparison of int() on all {n} ordered pairs',
                    f'{dn}: {bad[0]} vs {bad[1]} gives {bad[2]}, index order says {bad[3]}' if bad else '')

    # ---- R4 calls -----------------------------------------------------------------------------
    bids = f.members('Bid')
    w_bid, q_bid = loc(repo, 'Bid', None, 'C15.R4')
    chk.require([b.value for b in bids] == list(range(1, 39)), 'C15.R4', w_bid, q_bid, 'Bid members',
                '38 calls with values 1..38 in declaration order', f'Bid values are {[b.value for b in bids]}')
    suit_by_name = {s.name: s for s in f.members('Suit')}
    texts_b = {}
    for b in bids:
        chk.evals()
        special = b.name in ('Pass', 'X', 'XX')
        w, q = loc(repo, 'Bid', 'idx', 'C15.R4')
        i = try_fold('C15.R4', q, lambda: f.call_method(b, 'idx'))
        chk.require(i == ('ok', b.value - 1), 'C15.R4', w, q, f'{b}.idx', f'idx of {b} is value-1',
                    f'{b}.idx = {i}, expected {b.value - 1}')
        w, q = loc(repo, 'Bid', 'int_to_bid', 'C15.R4')
        back = try_fold('C15.R4', q, lambda: f.call_class('Bid', 'int_to_bid', b.value - 1))
        chk.require(back == ('ok', b), 'C15.R4', w, q, f'int_to_bid({b.value - 1})',
                    f'int_to_bid inverts idx at {b}', f'int_to_bid({b.value - 1}) = {back}, expected {b}')
        w, q = loc(repo, 'Bid', '__str__', 'C15.R4')
        t = try_fold('C15.R4', q, lambda: f.str_of(b))
        texts_b[b] = t
        if special:
            want_t = b.name
            want_level, want_suit = None, None
        else:
            sname = b.name.rstrip('0123456789')
            lvl = b.name[len(sname):]
            if sname not in suit_by_name or not lvl.isdigit():
                raise AnalysisError('C15.R4', f'Bid.{b.name}', 'member name is not <SUIT><LEVEL>')
            want_level, want_suit = int(lvl), suit_by_name[sname]
            want_t = f'{want_level}{sname}'
            chk.require(b.value == 5 * (want_level - 1) + want_suit.value, 'C15.R4', w_bid, q_bid, f'Bid.{b.name}',
                        f'{b.name} ranks by level then denomination', f'{b.name} = {b.value} breaks the rank order')
        chk.require(t == ('ok', want_t), 'C15.R4', w, q, f'str({b})', f'text of {b} is {want_t!r}',
                    f'str({b}) = {t}, expected {want_t!r}')
        w, q = loc(repo, 'Bid', 'str_to_bid', 'C15.R4')
        if t[0] == 'ok':
            back = try_fold('C15.R4', q, lambda: f.call_class('Bid', 'str_to_bid', t[1]))
            chk.require(back == ('ok', b), 'C15.R4', w, q, f'str_to_bid({t[1]!r})',
                        f'str_to_bid inverts str() at {b}', f'str_to_bid({t[1]!r}) = {back}, expected {b}')
        w, q = loc(repo, 'Bid', 'level', 'C15.R4')
        lv = try_fold('C15.R4', q, lambda: f.call_method(b, 'level'))
        chk.require(lv == ('ok', want_level), 'C15.R4', w, q, f'{b}.level', f'level of {b} is {want_level}',
                    f'{b}.level = {lv}, expected {want_level}')
        w, q = loc(repo, 'Bid', 'suit', 'C15.R4')
        su = try_fold('C15.R4', q, lambda: f.call_method(b, 'suit'))
        chk.require(su == ('ok', want_suit), 'C15.R4', w, q, f'{b}.suit', f'denomination of {b} is {want_suit}',
                    f'{b}.suit = {su}, expected {want_suit}')
        if not special:
            w, q = loc(repo, 'Bid', 'level_suit_to_bid', 'C15.R4')
            back = try_fold('C15.R4', q, lambda: f.call_class('Bid', 'level_suit_to_bid', want_level, want_suit))
            chk.require(back == ('ok', b), 'C15.R4', w, q, f'level_suit_to_bid({want_level},{want_suit})',
                        f'level_suit_to_bid inverts (level, suit) at {b}',
                        f'level_suit_to_bid({want_level},{want_suit}) = {back}, expected {b}')
    w, q = loc(repo, 'Bid', '__str__', 'C15.R4')
    chk.require(len({t[1] for t in texts_b.values() if t[0] == 'ok'}) == len(bids), 'C15.R4', w, q,
                'call texts injective', 'the 38 call texts are pairwise distinct', 'two calls share a text')
    w, q = loc(repo, 'Bid', 'int_to_bid', 'C15.R4')
    for bad in (-1, 38):
        res = try_fold('C15.R4', q, lambda: f.call_class('Bid', 'int_to_bid', bad))
        chk.require(res[0] == 'raise', 'C15.R4', w, q, f'int_to_bid({bad})', f'index {bad} is refused',
                    f'int_to_bid({bad}) = {res} instead of raising')

    # ---- R5 contract text -----------------------------------------------------------------------
    w_cs, q_cs = loc(repo, 'Contract', '__str__', 'C15.R5')
    w_sc, q_sc = loc(repo, 'Contract', 'str_to_contract', 'C15.R5')
    vuls = f.members('Vul')
    players = f.members('Player')
    regular = [b for b in bids if b.name not in ('Pass', 'X', 'XX')]
    seen = {}
    n = 0
    for b in regular:
        for (x, xx, canon) in ((False, False, True), (True, False, True), (True, True, True), (False, True, False)):
            suffix = 'XX' if xx else ('X' if x else '')
            first = True
            for v in vuls:
                # (a contract without a declarer is constructible and printable too: its text must come back as well)
                for d in list(players) + [None]:
                    n += 1
                    c = fold_or_error('C15.R5', 'Contract', lambda: f.make('Contract', final_bid=b, x=x, xx=xx, vul=v, declarer=d))
                    t = try_fold('C15.R5', q_cs, lambda: f.str_of(c))
                    want_t = texts_b[b][1] + suffix if texts_b[b][0] == 'ok' else None
                    good = t == ('ok', want_t)
                    if first or not good:
                        chk.require(good, 'C15.R5', w_cs, q_cs, f'str(Contract({b},x={x},xx={xx}))',
                                    f'contract text of {b} x={x} xx={xx} is {want_t!r}',
                                    f'str(Contract({b},x={x},xx={xx})) = {t}, expected {want_t!r}')
                    if t[0] != 'ok':
                        first = False
                        continue
                    if canon:
                        seen.setdefault(t[1], set()).add((b, x, xx))
                    back = try_fold('C15.R5', q_sc, lambda: f.call_class('Contract', 'str_to_contract', t[1], vul=v, declarer=d))
                    if canon:
                        good = back == ('ok', c)
                        why = f'str_to_contract({t[1]!r}, {v}, {d}) = {back}, expected {c}'
                    else:  # non-canonical (x=False, xx=True): the doubling *status* must survive
                        good = back[0] == 'ok' and back[1].fields.get('xx') is True and \
                            back[1].fields.get('final_bid') == b and back[1].fields.get('vul') == v and \
                            back[1].fields.get('declarer') == d
                        why = f'str_to_contract({t[1]!r}) = {back}: redoubled status / bid / vul / declarer lost'
                    if first or not good:
                        chk.require(good, 'C15.R5', w_sc, q_sc, f'str_to_contract({t[1]!r},{v},{d})',
                                    f'contract text {t[1]!r} reads back with the same bid, doubling, vulnerability and declarer',
                                    why)
                    first = False
    chk.evals(n)
    clash = {t: s for t, s in seen.items() if len(s) > 1}
    chk.require(not clash, 'C15.R5', w_cs, q_cs, 'contract texts injective',
                'distinct (bid, doubling) never share a contract text', f'shared texts: {clash}')
    for v in vuls:
        for fb in (None, f.member('Bid', 'Pass')):
            c = fold_or_error('C15.R5', 'Contract', lambda: f.make('Contract', final_bid=fb, vul=v))
            t = try_fold('C15.R5', q_cs, lambda: f.str_of(c))
            chk.require(t == ('ok', 'Passed_out'), 'C15.R5', w_cs, q_cs, f'str(Contract({fb}))',
                        'a passed-out contract is written Passed_out', f'str(Contract({fb})) = {t}')
            if t[0] == 'ok':
                back = try_fold('C15.R5', q_sc, lambda: f.call_class('Contract', 'str_to_contract', t[1], vul=v))
                good = back[0] == 'ok' and back[1].fields.get('vul') == v and back[1].fields.get('declarer') is None \
                    and try_fold('C15.R5', 'Contract.is_passed_out', lambda: f.call_method(back[1], 'is_passed_out')) == ('ok', True)
                chk.require(good, 'C15.R5', w_sc, q_sc, f'str_to_contract({t[1]!r},{v})',
                            'Passed_out reads back as a passed-out contract with the same vulnerability',
                            f'str_to_contract({t[1]!r}, {v}) = {back}')

    # ---- R6 seats / sides / vulnerability / suits ---------------------------------------------
    w_fn, q_fn = loc(repo, 'Player', 'formal_name', 'C15.R6')
    w_cf, q_cf = loc(repo, 'Player', 'convert_formal_name', 'C15.R6')
    formal = {'N': 'North', 'E': 'East', 'S': 'South', 'W': 'West'}
    chk.require([p.name for p in players] == ['N', 'E', 'S', 'W'], 'C15.R6', *loc(repo, 'Player', None, 'C15.R6'),
                'Player members', 'seats are N, E, S, W', f'Player members are {players}')
    names = set()
    for p in players:
        chk.evals()
        t = try_fold('C15.R6', q_fn, lambda: f.call_method(p, 'formal_name'))
        chk.require(t == ('ok', formal.get(p.name)), 'C15.R6', w_fn, q_fn, f'{p}.formal_name',
                    f'formal name of {p} is {formal.get(p.name)}', f'{p}.formal_name = {t}')
        if t[0] == 'ok':
            names.add(t[1])
            back = try_fold('C15.R6', q_cf, lambda: f.call_class('Player', 'convert_formal_name', t[1]))
            chk.require(back == ('ok', p), 'C15.R6', w_cf, q_cf, f'convert_formal_name({t[1]!r})',
                        f'convert_formal_name inverts formal_name at {p}', f'convert_formal_name({t[1]!r}) = {back}')
        w, q = loc(repo, 'Player', '__str__', 'C15.R6')
        s = try_fold('C15.R6', q, lambda: f.str_of(p))
        chk.require(s == ('ok', p.name), 'C15.R6', w, q, f'str({p})', f'str({p}) is its member name (read back by Player[...])',
                    f'str({p}) = {s}')
    chk.require(len(names) == 4, 'C15.R6', w_fn, q_fn, 'formal names injective', 'formal names are pairwise distinct',
                'two seats share a formal name')
    for pr in f.members('Pair'):
        w, q = loc(repo, 'Pair', '__str__', 'C15.R6')
        s = try_fold('C15.R6', q, lambda: f.str_of(pr))
        chk.require(s == ('ok', pr.name), 'C15.R6', w, q, f'str({pr})', f'str({pr}) is its member name', f'str({pr}) = {s}')
    for su in f.members('Suit'):
        w, q = loc(repo, 'Suit', '__str__', 'C15.R6')
        s = try_fold('C15.R6', q, lambda: f.str_of(su))
        chk.require(s == ('ok', su.name), 'C15.R6', w, q, f'str({su})', f'str({su}) is its member name', f'str({su}) = {s}')
    w_vs, q_vs = loc(repo, 'Vul', '__str__', 'C15.R6')
    w_vp, q_vp = loc(repo, 'Vul', 'pbn_format', 'C15.R6')
    w_sv, q_sv = loc(repo, 'Vul', 'str_to_vul', 'C15.R6')
    chk.require([v.name for v in vuls] == ['NONE', 'NS', 'EW', 'BOTH'], 'C15.R6', *loc(repo, 'Vul', None, 'C15.R6'),
                'Vul members', 'vulnerabilities are NONE, NS, EW, BOTH', f'Vul members are {vuls}')
    want_str = {'NONE': 'None', 'NS': 'NS', 'EW': 'EW', 'BOTH': 'Both'}
    want_pbn = {'NONE': 'None', 'NS': 'NS', 'EW': 'EW', 'BOTH': 'All'}
    for tab, (w, q, meth) in (('str', (w_vs, q_vs, None)), ('pbn', (w_vp, q_vp, 'pbn_format'))):
        img = set()
        for v in vuls:
            chk.evals()
            t = try_fold('C15.R6', q, (lambda: f.str_of(v)) if meth is None else (lambda: f.call_method(v, meth)))
            want = (want_str if meth is None else want_pbn).get(v.name)
            chk.require(t == ('ok', want), 'C15.R6', w, q, f'{tab}({v})', f'{tab} spelling of {v} is {want!r}',
                        f'{tab}({v}) = {t}, expected {want!r}')
            if t[0] == 'ok':
                img.add(t[1])
                back = try_fold('C15.R6', q_sv, lambda: f.call_class('Vul', 'str_to_vul', t[1]))
                chk.require(back == ('ok', v), 'C15.R6', w_sv, q_sv, f'str_to_vul({t[1]!r})',
                            f'str_to_vul inverts the {tab} spelling of {v}', f'str_to_vul({t[1]!r}) = {back}, expected {v}')
        chk.require(len(img) == 4, 'C15.R6', w, q, f'{tab} spellings injective', f'{tab} spellings are pairwise distinct',
                    f'{tab} spellings collide: {img}')
    for sp, want in (('None', 'NONE'), ('Love', 'NONE'), ('-', 'NONE'), ('NS', 'NS'), ('EW', 'EW'), ('All', 'BOTH'), ('Both', 'BOTH')):
        back = try_fold('C15.R6', q_sv, lambda: f.call_class('Vul', 'str_to_vul', sp))
        chk.require(back[0] == 'ok' and back[1].name == want, 'C15.R6', w_sv, q_sv, f'str_to_vul({sp!r})',
                    f'accepted spelling {sp!r} means {want}', f'str_to_vul({sp!r}) = {back}, expected Vul.{want}')
