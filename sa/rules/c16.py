"""C16 - IMP conversion is the official scale, odd and monotone, for every integer difference.

The argument for *every* integer: the difference flows only into abs(), unary minus and comparisons
against integer constants / entries of the scale table (checked by a use analysis of the parameter),
so the function is constant on each interval between consecutive comparison constants.  Folding one
representative per interval and per boundary (k-1, k, k+1 for every constant k, both signs, 0 and a
huge magnitude) therefore decides all integers."""
from __future__ import annotations

import ast

from ..fold import Folder, FoldRaise, Unsupported
from ..index import AnalysisError, parent
from ..norm import affine
from ..paths import Summarizer
from .common import floc

OFFICIAL = (20, 50, 90, 130, 170, 220, 270, 320, 370, 430, 500, 600, 750, 900, 1100, 1300, 1500, 1750, 2000, 2250,
            2500, 3000, 3500, 4000)


def official(d: int) -> int:
    n = sum(1 for t in OFFICIAL if abs(d) >= t)
    return n if d >= 0 else -n


def run(chk):
    repo = chk.repo
    rule = 'C16'
    m, fn = repo.function('score', 'point_difference_to_imps', rule)
    w, q = floc(repo, 'score', 'point_difference_to_imps', rule)
    chk.explanation = (
        'Use analysis of the parameter of point_difference_to_imps (only abs(), unary minus and comparisons with integer '
        'constants / entries of the scale table) => the result is constant between consecutive comparison constants; the '
        'function is folded (loop unrolled in the analyser, bound 24) on k-1,k,k+1 for every such constant, both signs, 0 '
        'and +-10**9, and compared with the official WBF scale (constant in this checker). score_to_imp must pass the sum '
        'of its two parameters. Range, monotonicity and oddness follow from equality with the scale on every interval.')
    chk.trusted.append('official IMP scale written in sa/rules/c16.py')
    f = Folder(repo, allow_loops=True, max_steps=5_000_000)
    param = fn.args.args[0].arg if len(fn.args.args) == 1 else None
    if param is None:
        raise AnalysisError(rule, q, 'expected one parameter')

    # ---- R0: counterexample search, independent of the shape of the code -------------------------------------------------
    # (dense fold: every integer difference up to beyond the last threshold, both signs, and huge magnitudes; every pair of a
    # score grid through score_to_imp).  A difference whose IMP value is wrong is a definite violation whatever the code looks
    # like; the proof for ALL integers is the use analysis below.
    dense = sorted(set(range(-4300, 4301)) | {s * k for s in (1, -1) for k in (5000, 7600, 7610, 8000, 10000, 10 ** 6, 10 ** 9, 10 ** 12 + 7, 2 ** 70)})
    bad0 = None
    n0 = 0
    unsupported = None
    for d in dense:
        try:
            got = f.call_function('score', 'point_difference_to_imps', d)
            f.steps = 0
        except FoldRaise as e:
            got = f'raises {e.kind}'
        except Unsupported as e:
            unsupported = str(e)
            break
        n0 += 1
        if got != official(d):
            bad0 = (d, got, official(d))
            break
    chk.evals(n0)
    if bad0:
        chk.fail('C16.R3', w, q, 'point_difference_to_imps differs from the official scale',
                 f'a difference of {bad0[0]} points gives {bad0[1]}; the official scale gives {bad0[2]} IMPs')
    elif unsupported is None:
        chk.ok('C16.R3', w, f'all {n0} integer differences in [-4300, 4300] and 18 huge ones give the official IMP value')
    grid = [-7600, -4000, -2220, -1100, -620, -100, -50, -10, 0, 10, 20, 40, 50, 90, 100, 420, 620, 1430, 2000, 3990, 4000, 7600]
    bad1 = None
    if unsupported is None:
        for a in grid:
            for b in grid:
                try:
                    got = f.call_function('score', 'score_to_imp', a, b)
                    f.steps = 0
                except FoldRaise as e:
                    got = f'raises {e.kind}'
                except Unsupported as e:
                    unsupported = str(e)
                    break
                chk.evals()
                if got != official(a + b) and bad1 is None:
                    bad1 = (a, b, got, official(a + b))
        w2_, q2_ = floc(repo, 'score', 'score_to_imp', 'C16.R4')
        if bad1:
            chk.fail('C16.R4', w2_, q2_, 'score_to_imp is not the conversion of the sum',
                     f'score_to_imp({bad1[0]}, {bad1[1]}) gives {bad1[2]}; the sum {bad1[0] + bad1[1]} is worth {bad1[3]} IMPs')
        elif unsupported is None:
            chk.ok('C16.R4', w2_, f'score_to_imp equals the conversion of the sum on {len(grid) ** 2} score pairs (both signs of the sum)')
    counterexample = bool(chk.findings)
    if unsupported is not None:
        chk.note(f'dense fold not possible: {unsupported}')

    # ---- R1: the table constant ---------------------------------------------------------------------------
    tables = {}
    for name, val in m.constants.items():
        if isinstance(val, (ast.Tuple, ast.List)) and all(isinstance(e, ast.Constant) and isinstance(e.value, int) for e in val.elts):
            tables[name] = tuple(e.value for e in val.elts)
    used = sorted({n.id for n in ast.walk(fn) if isinstance(n, ast.Name) and n.id in tables})
    if not counterexample:
        chk.floor('C16.R1', 'scale table used by point_difference_to_imps', len(used), 1)
    for name in used:
        t = tables[name]
        cw = repo.where(m, m.constants[name])
        chk.require(t == OFFICIAL, 'C16.R1', cw, f'score:{name}', f'{name} = {t}',
                    'the threshold table is the official 24-step IMP scale',
                    f'{name} differs from the official scale at ' +
                    str([(i, a, b) for i, (a, b) in enumerate(zip(t + (None,) * 24, OFFICIAL)) if a != b][:3]) +
                    (f' (length {len(t)} vs 24)' if len(t) != 24 else ''))
        chk.require(all(a < b for a, b in zip(t, t[1:])), 'C16.R1', cw, f'score:{name}', f'{name} increasing',
                    'thresholds strictly increase', f'{name} is not strictly increasing')

    if counterexample:
        return      # a definite counterexample is reported; the all-integers proof below is moot
    # ---- R2: the difference is used through comparisons only ------------------------------------------------
    # taint: names derived from the parameter by abs()/unary minus/plain copy keep the "difference" role;
    # a comparison result is a boolean (no longer the difference).
    tainted = {param}
    changed = True
    assigns = [n for n in ast.walk(fn) if isinstance(n, (ast.Assign, ast.AnnAssign, ast.AugAssign))]

    def is_diff(e):
        if isinstance(e, ast.Name):
            return e.id in tainted
        if isinstance(e, ast.UnaryOp) and isinstance(e.op, ast.USub):
            return is_diff(e.operand)
        if isinstance(e, ast.Call) and isinstance(e.func, ast.Name) and e.func.id == 'abs' and len(e.args) == 1:
            return is_diff(e.args[0])
        return False
    while changed:
        changed = False
        for a in assigns:
            val = a.value
            tg = a.targets[0] if isinstance(a, ast.Assign) else a.target
            if val is not None and isinstance(tg, ast.Name) and is_diff(val) and tg.id not in tainted:
                tainted.add(tg.id)
                changed = True
    elem_names = set()      # loop variables ranging over the scale table
    for n in ast.walk(fn):
        if isinstance(n, ast.For):
            it = n.iter
            if isinstance(it, ast.Name) and it.id in tables and isinstance(n.target, ast.Name):
                elem_names.add(n.target.id)
            if isinstance(it, ast.Call) and isinstance(it.func, ast.Name) and it.func.id == 'enumerate' and it.args \
                    and isinstance(it.args[0], ast.Name) and it.args[0].id in tables and isinstance(n.target, ast.Tuple) \
                    and len(n.target.elts) == 2 and isinstance(n.target.elts[1], ast.Name):
                elem_names.add(n.target.elts[1].id)
    breakpoints = {0}
    for t in used:
        breakpoints |= set(tables[t])
    bad_use = None
    n_cmp = 0
    for n in ast.walk(fn):
        if isinstance(n, ast.Name) and n.id in tainted and isinstance(n.ctx, ast.Load):
            # climb through abs()/-x to the consuming node
            cur = n
            par = parent(cur)
            while (isinstance(par, ast.UnaryOp) and isinstance(par.op, ast.USub)) or \
                    (isinstance(par, ast.Call) and isinstance(par.func, ast.Name) and par.func.id == 'abs'):
                cur, par = par, parent(par)
            if isinstance(par, ast.Compare):
                n_cmp += 1
                for o in [par.left] + par.comparators:
                    if o is cur or is_diff(o):
                        continue
                    if isinstance(o, ast.Constant) and isinstance(o.value, int):
                        breakpoints.add(abs(o.value))
                    elif isinstance(o, ast.Subscript) and isinstance(o.value, ast.Name) and o.value.id in tables:
                        pass
                    elif isinstance(o, ast.Name) and o.id in elem_names:
                        pass
                    else:
                        bad_use = bad_use or f'compared with `{ast.unparse(o)}`'
                continue
            if isinstance(par, (ast.Assign, ast.AnnAssign)) and is_diff(par.value):
                continue
            bad_use = bad_use or f'`{ast.unparse(par)}`'
    if bad_use:
        raise AnalysisError('C16.R2', q, f'the difference is used outside abs()/comparison ({bad_use}): the interval argument does not apply')
    chk.floor('C16.R2', 'comparisons on the difference', n_cmp, 2)
    chk.ok('C16.R2', w, f'the difference reaches only abs(), unary minus and {n_cmp} comparisons with integer constants / scale entries')

    # ---- R3: fold on every interval representative ------------------------------------------------------------
    reps = set()
    for k in breakpoints:
        for d in (k - 1, k, k + 1):
            reps |= {d, -d}
    reps |= {10 ** 9, -10 ** 9, 5, -5, 4005, -4005}
    first_bad = None
    nrep = 0
    for d in sorted(reps):
        nrep += 1
        try:
            got = f.call_function('score', 'point_difference_to_imps', d)
        except FoldRaise as e:
            got = f'raises {e.kind}'
        except Unsupported as e:
            raise AnalysisError('C16.R3', q, f'function left the foldable subset: {e}')
        if got != official(d) and first_bad is None:
            first_bad = (d, got, official(d))
    chk.evals(nrep)
    chk.require(first_bad is None, 'C16.R3', w, q, 'point_difference_to_imps on interval representatives',
                f'the conversion equals the official scale on all {nrep} interval/boundary representatives (hence on every integer)',
                f'difference {first_bad[0]} gives {first_bad[1]} IMPs, the official scale gives {first_bad[2]}' if first_bad else '')
    chk.extra['representatives'] = nrep
    chk.extra['breakpoints'] = len(breakpoints)

    # ---- R4: two-score form ------------------------------------------------------------------------------------
    w2, q2 = floc(repo, 'score', 'score_to_imp', 'C16.R4')
    _, fn2 = repo.function('score', 'score_to_imp', 'C16.R4')
    ps = Summarizer(repo, 'C16.R4').function_paths('score', 'score_to_imp')
    params = [a.arg for a in fn2.args.args]
    good = len(ps) == 1 and len(params) == 2 and ps[0].end[0] == 'return' and isinstance(ps[0].end[1], ast.Call) \
        and ast.unparse(ps[0].end[1].func) == 'point_difference_to_imps' and len(ps[0].end[1].args) == 1 \
        and not ps[0].end[1].keywords
    if good:
        a = affine(ps[0].end[1].args[0])
        good = a is not None and a == ({params[0]: 1, params[1]: 1}, 0)
    chk.require(good, 'C16.R4', w2, q2, ast.unparse(fn2.body[-1]),
                'score_to_imp converts the sum of its two scores', 'score_to_imp does not pass first+second to the scale')
