"""C16 - IMP conversion is the official scale, odd and monotone, for every integer difference.

The argument for *every* integer: the difference flows only into abs(), unary minus and comparisons
against integer constants / entries of the scale table - enforced by folding on an interval-abstract integer (fold.IntervalInt),
so the function is constant on each interval between consecutive comparison constants.  Folding one
representative per interval and per boundary (k-1, k, k+1 for every constant k, both signs, 0 and a
huge magnitude) therefore decides all integers."""
from __future__ import annotations

import ast

from ..fold import Folder, FoldRaise, Unsupported
from ..index import AnalysisError, parent
from ..norm import affine
from ..paths import Summarizer
from .common import floc

OFFICIAL = (20, 50, 90, 130, 170, 220, 270, 320, 370, 430, 500, 600, 750, 900, 1100, 1300, 1500, 1750, 2000, 2250,
            2500, 3000, 3500, 4000)


def official(d: int) -> int:
    n = sum(1 for t in OFFICIAL if abs(d) >= t)
    return n if d >= 0 else -n


def run(chk):
    repo = chk.repo
    rule = 'C16'
    m, fn = repo.function('score', 'point_difference_to_imps', rule)
    w, q = floc(repo, 'score', 'point_difference_to_imps', rule)
    chk.explanation = (
        'Abstract interpretation of point_difference_to_imps over intervals of the integers: the function is folded on an '
        'interval-abstract difference; a comparison with a constant the interval straddles splits the interval there and the parts '
        'are folded again, so the partition refines itself to the constants the code distinguishes (whatever its shape: loop over the '
        'table, bisect, chained ifs); an operation that needs the exact value is an analysis error.  On each of the resulting intervals '
        '(50 on this tree, covering all integers) the result is one integer and equals the official WBF scale (constant in this checker) '
        'at both ends.  score_to_imp is decided the same way for every integer score against a grid of 32 scores (on and off the 10-point grid) in both positions.  '
        'Before that a dense concrete fold (-4300..4300 and huge values; 32x32 score pairs) looks for counterexamples.  Range, '
        'monotonicity and oddness follow from equality with the scale on every interval.')
    chk.trusted.append('official IMP scale written in sa/rules/c16.py')
    f = Folder(repo, allow_loops=True, max_steps=5_000_000)
    param = fn.args.args[0].arg if len(fn.args.args) == 1 else None
    if param is None:
        raise AnalysisError(rule, q, 'expected one parameter')

    # ---- R0: counterexample search, independent of the shape of the code -------------------------------------------------
    # (dense fold: every integer difference up to beyond the last threshold, both signs, and huge magnitudes; every pair of a
    # score grid through score_to_imp).  A difference whose IMP value is wrong is a definite violation whatever the code looks
    # like; the proof for ALL integers is the interval abstraction below.
    base_ = range(-4300, 4301) if chk.tier != 'quick' else [d + e for d in range(-4300, 4301, 10) for e in (-1, 0, 1)]     # (scores are multiples of 10)
    dense = sorted(set(base_) | {s * k for s in (1, -1) for k in (5000, 7600, 7610, 8000, 10000, 10 ** 6, 10 ** 9, 10 ** 12 + 7, 2 ** 70)})
    bad0 = None
    n0 = 0
    unsupported = None
    for d in dense:
        try:
            got = f.call_function('score', 'point_difference_to_imps', d)
            f.steps = 0
        except FoldRaise as e:
            got = f'raises {e.kind}'
        except Unsupported as e:
            unsupported = str(e)
            break
        n0 += 1
        if got != official(d):
            bad0 = (d, got, official(d))
            break
    chk.evals(n0)
    if bad0:
        chk.fail('C16.R3', w, q, 'point_difference_to_imps differs from the official scale',
                 f'a difference of {bad0[0]} points gives {bad0[1]}; the official scale gives {bad0[2]} IMPs')
    elif unsupported is None:
        chk.ok('C16.R3', w, f'all {n0} integer differences folded concretely (in [-4300, 4300] and 18 huge ones) give the official IMP value')
    # (scores are multiples of 10, but the conversion is stated for every difference: the grid also holds values off the 10-point grid, so that
    # arithmetic done on the two scores separately - rounding, truncation to tens - shows against the conversion of the SUM)
    grid = [-7600, -7581, -4000, -2220, -1100, -620, -100, -50, -15, -10, -9, -1, 0, 1, 5, 9, 10, 15, 19, 20, 21, 40, 50, 90, 100, 420, 620, 1430, 2000, 3990, 4000, 7600]
    bad1 = None
    if unsupported is None:
        for a in grid:
            for b in grid:
                try:
                    got = f.call_function('score', 'score_to_imp', a, b)
                    f.steps = 0
                except FoldRaise as e:
                    got = f'raises {e.kind}'
                except Unsupported as e:
                    unsupported = str(e)
                    break
                chk.evals()
                if got != official(a + b) and bad1 is None:
                    bad1 = (a, b, got, official(a + b))
        w2_, q2_ = floc(repo, 'score', 'score_to_imp', 'C16.R4')
        if bad1:
            chk.fail('C16.R4', w2_, q2_, 'score_to_imp is not the conversion of the sum',
                     f'score_to_imp({bad1[0]}, {bad1[1]}) gives {bad1[2]}; the sum {bad1[0] + bad1[1]} is worth {bad1[3]} IMPs')
        elif unsupported is None:
            chk.ok('C16.R4', w2_, f'score_to_imp equals the conversion of the sum on {len(grid) ** 2} score pairs (both signs of the sum)')
    counterexample = bool(chk.findings)
    if unsupported is not None:
        chk.note(f'dense fold not possible: {unsupported}')

    # ---- R1: the table constant ---------------------------------------------------------------------------
    tables = {}
    for name, val in m.constants.items():
        if isinstance(val, (ast.Tuple, ast.List)) and all(isinstance(e, ast.Constant) and isinstance(e.value, int) for e in val.elts):
            tables[name] = tuple(e.value for e in val.elts)
    used = sorted({n.id for n in ast.walk(fn) if isinstance(n, ast.Name) and n.id in tables})
    if not counterexample and not used:
        # no literal table is read by the function (generated / encoded scale): R1 has nothing to compare; the scale is decided by R0 / R2
        chk.note('C16.R1: no literal threshold table is read by point_difference_to_imps; the scale is decided by the folds (R0, R2) alone')
    for name in used:
        t = tables[name]
        cw = repo.where(m, m.constants[name])
        chk.require(t == OFFICIAL, 'C16.R1', cw, f'score:{name}', f'{name} = {t}',
                    'the threshold table is the official 24-step IMP scale',
                    f'{name} differs from the official scale at ' +
                    str([(i, a, b) for i, (a, b) in enumerate(zip(t + (None,) * 24, OFFICIAL)) if a != b][:3]) +
                    (f' (length {len(t)} vs 24)' if len(t) != 24 else ''))
        chk.require(all(a < b for a, b in zip(t, t[1:])), 'C16.R1', cw, f'score:{name}', f'{name} increasing',
                    'thresholds strictly increase', f'{name} is not strictly increasing')

    if counterexample:
        return      # a definite counterexample is reported; the all-integers proof below is moot
    # ---- R2: ALL integers, by abstract interpretation over intervals -----------------------------------------------------------
    # The function is folded on an interval-abstract difference (fold.IntervalInt); whenever the code compares it with a constant the
    # interval straddles, the interval is split there and the parts are folded again (fold.partition_fold): the partition refines
    # itself to exactly the constants the code distinguishes, whatever shape the code has (loop over the table, bisect, chained ifs).
    # An operation that needs the exact value leaves the abstraction -> analysis error.  On every part the result is one integer,
    # compared with the official scale at both ends of the part (the scale is monotone, so equal ends = constant on the part).
    from ..fold import IntervalInt, partition_fold
    BIG = 10 ** 15

    def ends(lo, hi, shift=0):
        return (-BIG if lo is None else lo + shift), (BIG if hi is None else hi + shift)
    try:
        leaves = partition_fold(lambda x: f.call_function('score', 'point_difference_to_imps', x))
    except Unsupported as e:
        raise AnalysisError('C16.R2', q, f'the conversion leaves the interval abstraction of the difference: {e}')
    except FoldRaise as e:
        chk.fail('C16.R2', w, q, 'point_difference_to_imps raises on a range of differences', f'the conversion raises {e.kind} on a whole range of differences')
        leaves = []
    chk.evals(len(leaves))
    first_bad = None
    for lo, hi, r in leaves:
        a, b = ends(lo, hi)
        if isinstance(r, IntervalInt) or isinstance(r, bool) or not isinstance(r, int):
            raise AnalysisError('C16.R2', q, f'on the differences {lo}..{hi} the result is {r!r}, not one integer: the interval argument does not apply')
        if not (official(a) == official(b) == r) and first_bad is None:
            d = a if official(a) != r else b
            first_bad = (lo, hi, r, d, official(d))
    chk.floor('C16.R2', 'parts of the partition of the integers', len(leaves), 30)
    chk.require(first_bad is None, 'C16.R2', w, q, 'point_difference_to_imps on every integer (self-refining partition into intervals)',
                f'the integers fall into {len(leaves)} intervals on each of which the conversion is constant and equal to the official scale '
                f'(range -24..24, odd, monotone follow)',
                f'every difference in {first_bad[0]}..{first_bad[1]} gives {first_bad[2]} IMPs; for {first_bad[3]} the official scale gives {first_bad[4]}' if first_bad else '')
    chk.extra['intervals'] = len(leaves)

    # ---- R4: the two-score form, for every first score (all integers) x a grid of second scores, and vice versa -----------------
    w2, q2 = floc(repo, 'score', 'score_to_imp', 'C16.R4')
    bad2 = None
    n2 = 0
    pgrid = grid if chk.tier != 'quick' else [-7600, -620, -50, 0, 90, 4000]
    for fixed in pgrid:
        for pos in (0, 1):
            try:
                lv = partition_fold((lambda x: f.call_function('score', 'score_to_imp', x, fixed)) if pos == 0 else (lambda x: f.call_function('score', 'score_to_imp', fixed, x)))
            except Unsupported as e:
                raise AnalysisError('C16.R4', q2, f'score_to_imp leaves the interval abstraction: {e}')
            except FoldRaise as e:
                bad2 = bad2 or (fixed, pos, None, None, f'raises {e.kind}', None)
                continue
            n2 += len(lv)
            for lo, hi, r in lv:
                a, b = ends(lo, hi, fixed)
                if isinstance(r, IntervalInt) or not isinstance(r, int):
                    raise AnalysisError('C16.R4', q2, f'score_to_imp gives {r!r} on a range of scores, not one integer')
                if not (official(a) == official(b) == r) and bad2 is None:
                    d = a if official(a) != r else b
                    bad2 = (fixed, pos, lo, hi, r, (d - fixed, official(d)))
    chk.evals(n2)
    chk.require(bad2 is None, 'C16.R4', w2, q2, 'score_to_imp = conversion of the sum, for every integer score against a grid of scores',
                f'for each of {len(pgrid)} fixed scores (both positions) and EVERY integer other score ({n2} intervals) score_to_imp is the official value of the sum',
                (f'score_to_imp with {"second" if bad2[1] == 0 else "first"} score {bad2[0]} and the other in {bad2[2]}..{bad2[3]} gives {bad2[4]}; '
                 f'e.g. other = {bad2[5][0]}: the sum is worth {bad2[5][1]} IMPs') if bad2 and bad2[5] else (f'score_to_imp {bad2[4]}' if bad2 else ''))
