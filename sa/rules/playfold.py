"""Shape-independent complements of the path rules of C04 / C05 / C11: the real play engines are folded by sa.fold on
play-state objects built through their constructors.

fourth_card_rule (C04.R6): the fourth card of a trick for every class the winner can depend on - for each trump
denomination and each suit led, every assignment of {suit led, trump, another suit} to cards 2-4 and every rank order of
the four cards (ranks only matter through their order within a suit - enforced by a pass on order-abstract ranks), at trick 1
(later tricks: the complete play-outs of playout.py): next leader, the side credited,
the record, turn and trick number against the Laws.

acceptance_rule (C05.R5 / C11.R2): play_card_by_player of the full-information engine and of the one-seat observer (all
four observer seats, dummy disclosed or not) on every (seat on turn, seat named, kind of card: held and following suit /
held but revoking / held by another seat / already played): accepted iff the rules say so, an accepted play moves exactly
that card, a refused play changes nothing, and the observer accepts whatever the full engine accepts."""
from __future__ import annotations

import itertools

from ..fold import DV, EV, Folder, FoldRaise, Unsupported
from ..index import AnalysisError
from .c14 import SEATS, build_deals
from .common import loc

NEXT = {'N': 'E', 'E': 'S', 'S': 'W', 'W': 'N'}
SIDE = {'N': 'NS', 'S': 'NS', 'E': 'EW', 'W': 'EW'}


def _ctx(repo):
    f = Folder(repo, allow_loops=True, max_steps=5_000_000)
    P = {p.name: p for p in f.members('Player')}
    SU = {s.name: s for s in f.members('Suit')}
    B = {b.name: b for b in f.members('Bid')}
    V = {v.name: v for v in f.members('Vul')}
    return f, P, SU, B, V


def _contract(f, repo, B, V, P, trump: str, declarer: str):
    bid = {'C': 'C1', 'D': 'D1', 'H': 'H1', 'S': 'S1', 'NT': 'NT1'}[trump]
    return f._construct(repo.cls('Contract'), [], {'final_bid': B[bid], 'x': False, 'xx': False, 'vul': V['NONE'], 'declarer': P[declarer]})


def fourth_card_rule(chk, rule='C04.R6'):
    repo = chk.repo
    f, P, SU, B, V = _ctx(repo)
    w, q = loc(repo, 'PlayingPhase', 'play_card', rule)
    pair = {p.name: p for p in f.members('Pair')}
    n = 0
    first_bad = None
    from ..fold import OrdInt
    ranks_sets = list(itertools.permutations((3, 7, 11, 14)))
    extremes = list(itertools.permutations((2, 3, 13, 14))) + [(14, 14, 2, 2), (2, 14, 14, 2), (13, 2, 2, 13)]     # lowest against highest, equal ranks in different suits
    if chk.tier != 'thorough':
        ranks_sets = ranks_sets[::3]        # 8 of the 24 rank orders in the quick tier
        extremes = extremes[::2]
    # three passes: concrete ranks (middle values; the extremes 2 / ace and ties across suits), then the same orders with ORDER-ABSTRACT ranks
    # (fold.OrdInt): an engine that does arithmetic on ranks leaves the abstraction, so "only the order of the ranks matters" is enforced
    passes = [('concrete', ranks_sets + extremes), ('order-abstract', ranks_sets)]
    abstract_error = None
    for trump in (('S', 'H', 'NT') if chk.tier == 'thorough' else ('S', 'NT')):
        for led in ('S', 'D'):
            others = [x for x in ('S', 'H', 'D', 'C') if x != led]
            classes = [led] + ([trump] if trump not in ('NT', led) else []) + [next(x for x in others if x != trump)]
            for suits in itertools.product(classes, repeat=3):
                for mode, ranks in [(m_, r_) for m_, rs_ in passes for r_ in rs_]:
                    # (trick 1 only: later tricks are reached through the public interface by the complete play-outs, C04.R7 - building a
                    # mid-play state by hand would depend on how the engine represents it)
                    for tn, declarer in ((1, 'S'), (1, 'W')) if (mode == 'concrete' and ranks in ranks_sets[::4]) else ((1, 'S'),):
                        n += 1
                        cards = [(ranks[0], led)] + [(r, s) for r, s in zip(ranks[1:], suits)]
                        if len(set(cards)) < 4:
                            continue
                        con = _contract(f, repo, B, V, P, trump, declarer)
                        try:
                            f.steps = 0
                            eng = f._construct(repo.cls('PlayingPhase'), [], {'contract': con})
                            leader0 = eng.fields['leader'].name
                            eng.fields['trick_num'] = tn
                            if tn > 1:      # twelve tricks already recorded
                                filler = f.make('TrickHistory', leader=P['N'], cards=())
                                eng.fields['playing_history'].fields['_history'] = [filler] * (tn - 1)
                            if mode == 'concrete':
                                cs = [f.make('Card', rank=r, suit=SU[s]) for r, s in cards]
                            else:
                                cs = [DV(repo.cls('Card'), {'rank': OrdInt(r, 2, 14), 'suit': SU[s]}) for r, s in cards]
                            for c in cs:
                                f.call_method(eng, 'play_card', c)
                        except FoldRaise as r_:
                            first_bad = first_bad or (trump, cards, tn, f'raises {r_.kind}')
                            continue
                        except Unsupported as e:
                            if mode == 'order-abstract':
                                abstract_error = abstract_error or f'{e} (trump {trump}, cards {[str(r) + s for r, s in cards]})'
                                continue
                            raise AnalysisError(rule, q, f'play_card left the foldable subset: {e}')
                        tr = [i for i, (r, s) in enumerate(cards) if s == trump]
                        pool = tr if tr else [i for i, (r, s) in enumerate(cards) if s == led]
                        win = max(pool, key=lambda i: cards[i][0])
                        seat = leader0
                        for _ in range(win):
                            seat = NEXT[seat]
                        got = dict(leader=getattr(eng.fields.get('leader'), 'name', None), active=getattr(eng.fields.get('active_player'), 'name', None),
                                   trick_num=eng.fields.get('trick_num'), ns=eng.fields['taken_tricks'].get(pair['NS']), ew=eng.fields['taken_tricks'].get(pair['EW']),
                                   trick=len(eng.fields.get('_trick_cards', [])))
                        want = dict(leader=seat, active=seat, trick_num=tn + 1, ns=1 if SIDE[seat] == 'NS' else 0, ew=1 if SIDE[seat] == 'EW' else 0, trick=0)
                        hist = eng.fields['playing_history'].fields.get('_history') if isinstance(eng.fields.get('playing_history'), DV) else None
                        rec_ok = True
                        rec_ok = isinstance(hist, list) and len(hist) == tn and isinstance(hist[-1], DV) and hist[-1].fields.get('leader') == P[leader0] and \
                            tuple(hist[-1].fields.get('cards', ())) == tuple(cs)
                        if (got != want or not rec_ok) and first_bad is None:
                            diffs = {k: (got[k], want[k]) for k in want if got[k] != want[k]}
                            first_bad = (trump, cards, tn, f'after the trick {diffs or "the recorded trick is not (leader, the four cards in order)"}; the trick is won by card '
                                                           f'{win + 1} ({seat})')
    chk.evals(n)
    if first_bad is None and abstract_error is not None:
        raise AnalysisError(rule, q, f'the trick winner depends on more than the order of the ranks - the rank-order classes do not cover every trick: {abstract_error}')
    chk.require(first_bad is None, rule, w, q, 'fourth card of a trick on every (trump, led suit, suit classes, rank order) class',
                f'on {n} tricks (3 trump denominations x led suits x suit classes of cards 2-4 x rank orders incl. the extremes 2 / ace and equal ranks in different suits) the winner leads next, his side is '
                f'credited once, the trick is recorded with its leader and cards, turn and trick number advance',
                (f'trump {first_bad[0]}, trick {first_bad[2]} with cards {[str(r) + s for r, s in first_bad[1]]} (in order played): {first_bad[3]}') if first_bad else '')


def acceptance_rule(chk, rule5='C05.R5', rule11='C11.R2'):
    repo = chk.repo
    f, P, SU, B, V = _ctx(repo)
    w5, q5 = loc(repo, 'PlayingPhaseWithHands', 'play_card_by_player', rule5)
    w11, q11 = loc(repo, 'ObservedPlayingPhase', 'play_card_by_player', rule11)
    deals = build_deals(f)
    hands0 = deals[0][1]          # balanced: every seat holds every suit (so both following and revoking are possible)

    def mk_hands():
        return {s: set(hands0[s]) for s in SEATS}

    def snapshot(eng, extra_sets):
        return (getattr(eng.fields.get('active_player'), 'name', None), eng.fields.get('trick_num'), list(eng.fields.get('_trick_cards', [])),
                set(eng.fields.get('used_cards', set())), [set(x) if x is not None else None for x in extra_sets])
    n = 0
    for declarer in ('S', 'W'):
        dummy = NEXT[NEXT[declarer]]
        leader = NEXT[declarer]
        for k_played in (0, 1, 2):
            for named in SEATS:
                for kind in ('follow', 'revoke', 'foreign', 'played'):
                    # ---- set-up shared by the engines: k cards already played legally (lowest card of the led suit / any on lead)
                    def setup(eng, hs, play):
                        active = leader
                        led = None
                        for _ in range(k_played):
                            pool = sorted(hs[active], key=lambda c: (c.fields['suit'].value, c.fields['rank']))
                            if led is not None:
                                same = [c for c in pool if c.fields['suit'] == led]
                                pool = same or pool
                            c = pool[0]
                            play(eng, c, active)
                            hs[active].discard(c)
                            led = led if led is not None else c.fields['suit']
                            active = NEXT[active]
                        return active, led

                    def pick(hs, active, led, played_cards):
                        hn = sorted(hs[named], key=lambda c: (c.fields['suit'].value, c.fields['rank']))
                        if kind == 'follow':
                            same = [c for c in hn if led is None or c.fields['suit'] == led]
                            return same[-1] if same else None
                        if kind == 'revoke':
                            if led is None or not any(c.fields['suit'] == led for c in hn):
                                return None
                            off = [c for c in hn if c.fields['suit'] != led]
                            return off[0] if off else None
                        if kind == 'foreign':
                            other = NEXT[named]
                            return sorted(hs[other], key=lambda c: (c.fields['suit'].value, c.fields['rank']))[0]
                        return played_cards[0] if played_cards else None
                    con = _contract(f, repo, B, V, P, 'H', declarer)
                    # ---- full-information engine
                    try:
                        f.steps = 0
                        hs = mk_hands()
                        H = f._construct(repo.cls('Hands'), [], {'north_hand': hs['N'], 'east_hand': hs['E'], 'south_hand': hs['S'], 'west_hand': hs['W']})
                        full = f._construct(repo.cls('PlayingPhaseWithHands'), [], {'contract': con, 'hands': H})
                        truth = {s: set(hs[s]) for s in SEATS}
                        played = []

                        def play_full(eng, c, who):
                            f.call_method(eng, 'play_card_by_player', c, P[who])
                            played.append(c)
                        try:
                            active, led = setup(full, truth, play_full)
                        except FoldRaise as r_:
                            chk.fail(rule5, w5, q5, 'full engine refuses a legal play in turn while setting up a trick',
                                     f'PlayingPhaseWithHands (declarer {declarer}): a card held by the seat on turn, following suit, is refused with {r_.kind} '
                                     f'({str(r_)[:80]}) while playing the first {k_played} card(s) of a trick')
                            continue
                        card = pick(truth, active, led, played)
                        if card is None:
                            continue
                        n += 1
                        before = snapshot(full, [hs[s] for s in SEATS])
                        try:
                            f.call_method(full, 'play_card_by_player', card, P[named])
                            res_full = 'accepted'
                        except FoldRaise as r_:
                            res_full = f'refused ({r_.kind})'
                        after = snapshot(full, [hs[s] for s in SEATS])
                    except Unsupported as e:
                        raise AnalysisError(rule5, q5, f'play_card_by_player left the foldable subset: {e}')
                    must_accept = named == active and kind in ('follow', 'revoke')
                    sit = (f'{k_played} card(s) in the trick, {active} on turn, {named} named, card {f.str_of(card)} ' +
                           {'follow': 'held, following suit / leading', 'revoke': 'held, not following suit although able to', 'foreign': "held by another seat",
                            'played': 'already played'}[kind])
                    chk.require((res_full == 'accepted') == must_accept, rule5, w5, q5, f'full engine: {"legal" if must_accept else "illegal"} play ({kind}, {"in" if named == active else "out of"} turn) is {res_full.split(" ")[0]}',
                                f'full engine: {sit}: ' + ('accepted' if must_accept else 'refused'), f'PlayingPhaseWithHands: {sit}: the play is {res_full}')
                    if res_full != 'accepted':
                        chk.require(before == after, rule5, w5, q5, f'full engine: refused play ({kind}) changes state',
                                    'a refused play changes nothing', f'PlayingPhaseWithHands: {sit}: the play is refused but the state changed '
                                    f'(hands / played cards / current trick / turn differ before and after)')
                    else:
                        idx = SEATS.index(named)
                        ok = card not in hs[named] and all(after[4][i] == before[4][i] for i in range(4) if i != idx) and \
                            len(after[4][idx]) == len(before[4][idx]) - 1 and card in after[3] and len(after[3]) == len(before[3]) + 1
                        chk.require(ok, rule5, w5, q5, 'full engine: accepted play moves exactly that card',
                                    'an accepted play removes exactly that card from exactly that hand and adds it to the played cards',
                                    f'PlayingPhaseWithHands: {sit}: after the accepted play the card is still in the hand / another hand changed / the played-card set is wrong')
                    # ---- observers
                    for me in SEATS:
                        for disclosed in ((True, False) if me != dummy else (True,)):
                            try:
                                f.steps = 0
                                ohs = mk_hands()
                                obs = f._construct(repo.cls('ObservedPlayingPhase'), [], {'contract': con, 'player': P[me], 'hand': ohs[me]})
                                dummy_set = set(ohs[dummy])
                                if disclosed and me != dummy:
                                    f.call_method(obs, 'set_dummy_hand', dummy_set)
                                otruth = {s: set(ohs[s]) for s in SEATS}
                                oplayed = []

                                def play_obs(eng, c, who):
                                    f.call_method(eng, 'play_card_by_player', c, P[who])
                                    oplayed.append(c)
                                try:
                                    oactive, oled = setup(obs, otruth, play_obs)
                                except FoldRaise:
                                    continue        # the set-up itself needs the undisclosed dummy hand: not a state of this family
                                ocard = pick(otruth, oactive, oled, oplayed)
                                if ocard is None:
                                    continue
                                n += 1
                                ob = snapshot(obs, [ohs[me], dummy_set])
                                try:
                                    f.call_method(obs, 'play_card_by_player', ocard, P[named])
                                    res_obs = 'accepted'
                                except FoldRaise as r_:
                                    res_obs = f'refused ({r_.kind})'
                                oa = snapshot(obs, [ohs[me], dummy_set])
                            except Unsupported as e:
                                raise AnalysisError(rule11, q11, f'observer left the foldable subset: {e}')
                            known = named == me or (named == dummy and disclosed and me != dummy)
                            hidden_dummy = named == dummy and me != dummy and not disclosed
                            want_obs = named == oactive and ((kind in ('follow', 'revoke')) if known else (not hidden_dummy))
                            role = 'own seat' if named == me else ('dummy (disclosed)' if named == dummy and disclosed else 'dummy (not disclosed)' if named == dummy else 'a hidden seat')
                            osit = f'observer {me} (declarer {declarer}), {k_played} card(s) in the trick, {oactive} on turn, {named} named [{role}], card {kind}'
                            if must_accept and not hidden_dummy:
                                chk.require(res_obs == 'accepted', rule11, w11, q11, f'observer refuses a play the table manager accepts ({kind}, named seat is {role})',
                                            f'{osit}: accepted like the full engine', f'ObservedPlayingPhase: {osit}: the play is {res_obs}, the full-information engine accepts it')
                            chk.require((res_obs == 'accepted') == want_obs, rule5, w11, q11, f'observer: play ({kind}, named seat is {role}, {"in" if named == oactive else "out of"} turn) is {res_obs.split(" ")[0]}',
                                        f'{osit}: ' + ('accepted' if want_obs else 'refused'), f'ObservedPlayingPhase: {osit}: the play is {res_obs}')
                            if res_obs != 'accepted':
                                chk.require(ob == oa, rule5, w11, q11, f'observer: refused play ({kind}, {role}) changes state', 'a refused play changes nothing',
                                            f'ObservedPlayingPhase: {osit}: refused, but own hand / dummy hand / played cards / trick / turn changed')
                            elif known:
                                hset = ohs[me] if named == me else dummy_set
                                chk.require(ocard not in hset and ocard in oa[3], rule5, w11, q11, f'observer: accepted play from a known hand ({role}) moves the card',
                                            'an accepted play from a known hand removes the card from that hand', f'ObservedPlayingPhase: {osit}: accepted, but the card is still in the hand it was played from')
    chk.floor(rule5, 'play situations folded through the engines', n, 400)
