"""C10 - each seat is told exactly what the protocol entitles it to, and nothing else.

R1  information flow of hand contents inside the table manager: every put() whose payload depends
    on the deal is one of the two recognised disclosures - the per-seat hand message (queue key,
    name in the text and hand index are the same loop variable) or the dummy disclosure (index =
    the engine's dummy, every seat except dummy, inside the `first card of the first trick` guard,
    after the card has been applied and relayed).
R2  each relay loop skips exactly the connection whose queue produced the message.
R4  abstract interpretation of the communication skeleton for every role configuration: the
    stream of messages each connection receives equals, message by message, the protocol's
    entitlement computed from the configuration alone (own hand only; dummy after card 1 and
    before card 2, never to dummy; every call / card once, in order, to every seat except its
    source connection; lead prompts to the connection that must lead; configured header); each
    seat queue is read by that seat's thread only and fed by the main thread only."""
from __future__ import annotations

import ast

from ..index import AnalysisError, parent
from . import session as S
from .c13 import stmt_of
from .common import loc

SRV = 'bridge_env/network_bridge/server.py'


def local_defs(fn: ast.FunctionDef):
    """name -> list of value expressions assigned to it inside fn (simple assignments only)."""
    out = {}
    for n in ast.walk(fn):
        if isinstance(n, ast.Assign) and len(n.targets) == 1 and isinstance(n.targets[0], ast.Name):
            out.setdefault(n.targets[0].id, []).append(n.value)
    return out


def resolve(e: ast.AST, defs, depth=3) -> str:
    """Canonical text of `e` with single-definition locals substituted."""
    class T(ast.NodeTransformer):
        def visit_Name(self, n):
            vs = defs.get(n.id)
            if vs and len(vs) == 1 and depth > 0 and isinstance(n.ctx, ast.Load):
                return ast.parse(resolve(vs[0], defs, depth - 1), mode='eval').body
            return n
    import copy
    return ast.unparse(T().visit(copy.deepcopy(e)))


def inline_broadcasts(repo, fn: ast.FunctionDef) -> ast.FunctionDef:
    """A copy of `fn` in which every statement `self.H(...)`, H being a method of Server whose whole body is one `for seat in
    Player:` loop that puts a parameter into the seat queues (optionally skipping one parameter seat), is replaced by that loop with
    the arguments substituted.  The relay / disclosure rules then see the same shape whether or not the loop was extracted."""
    import copy
    srv = repo.cls('Server', 'C10')
    helpers = {}
    for name, h in srv.methods.items():
        body = [b for b in h.body if not (isinstance(b, ast.Expr) and isinstance(b.value, ast.Constant))]
        if len(body) == 1 and isinstance(body[0], ast.For) and ast.unparse(body[0].iter) == 'Player' and name not in ('deal',):
            puts = [x for x in ast.walk(body[0]) if isinstance(x, ast.Call) and isinstance(x.func, ast.Attribute) and x.func.attr == 'put']
            params = [a.arg for a in h.args.args][1:]
            if puts and all(isinstance(x.args[0], ast.Name) and x.args[0].id in params for x in puts if x.args):
                helpers[name] = (h, body[0], params)
    if not helpers:
        return fn
    new = copy.deepcopy(fn)

    class T(ast.NodeTransformer):
        def visit_Expr(self, st):
            c = st.value
            if isinstance(c, ast.Call) and isinstance(c.func, ast.Attribute) and isinstance(c.func.value, ast.Name) and c.func.value.id == 'self' \
                    and c.func.attr in helpers:
                h, loop, params = helpers[c.func.attr]
                defaults = dict(zip(reversed(params), reversed(h.args.defaults)))
                bind = {}
                for i, p_ in enumerate(params):
                    if i < len(c.args):
                        bind[p_] = c.args[i]
                    else:
                        kw = [k for k in c.keywords if k.arg == p_]
                        bind[p_] = kw[0].value if kw else defaults.get(p_)
                if any(v is None for v in bind.values()):
                    return st
                lp = copy.deepcopy(loop)

                class S_(ast.NodeTransformer):
                    def visit_Name(self, n):
                        if n.id in bind and isinstance(n.ctx, ast.Load):
                            return copy.deepcopy(bind[n.id])
                        return n
                lp = S_().visit(lp)
                # `if seat is None: continue` (no seat skipped) can never fire: drop it
                lp.body = [b for b in lp.body if not (isinstance(b, ast.If) and isinstance(b.test, ast.Compare) and len(b.test.comparators) == 1
                                                      and isinstance(b.test.comparators[0], ast.Constant) and b.test.comparators[0].value is None
                                                      and isinstance(b.test.ops[0], (ast.Is, ast.Eq)) and len(b.body) == 1 and isinstance(b.body[0], ast.Continue))]
                ast.copy_location(lp, st)
                for x in ast.walk(lp):
                    if not hasattr(x, 'lineno'):
                        continue
                    x.lineno = st.lineno
                return lp
            return self.generic_visit(st)
    new = T().visit(new)
    ast.fix_missing_locations(new)
    for node in ast.walk(new):
        for ch in ast.iter_child_nodes(node):
            ch._parent = node
    new._parent = getattr(fn, '_parent', None)
    return new


def enclosing_loops(n):
    out = []
    p = parent(n)
    while p is not None and not isinstance(p, ast.FunctionDef):
        if isinstance(p, (ast.For, ast.While)):
            out.append(p)
        p = parent(p)
    return out


def skip_guard(put_call: ast.Call, loop: ast.For):
    """The seat expression X such that the put is executed iff `loopvar is not X` (None = unconditional, False = unrecognised)."""
    var = loop.target.id if isinstance(loop.target, ast.Name) else None
    st = stmt_of(put_call)
    conds = []
    p = parent(st)
    child = st
    while p is not loop:
        if isinstance(p, ast.If):
            conds.append((p.test, child in p.body))
        else:
            return False
        child = p
        p = parent(p)
    # `if var is X: continue` statements before the put in the loop body
    idx = loop.body.index(child)
    for prev in loop.body[:idx]:
        if isinstance(prev, ast.If) and len(prev.body) == 1 and isinstance(prev.body[0], ast.Continue) and not prev.orelse:
            conds.append((prev.test, False))
        elif any(isinstance(x, (ast.Continue, ast.Break, ast.Return)) for x in ast.walk(prev)):
            return False
    if not conds:
        return None
    if len(conds) != 1:
        return False
    t, pol = conds[0]
    if isinstance(t, ast.Compare) and len(t.ops) == 1 and isinstance(t.left, ast.Name) and t.left.id == var:
        op = t.ops[0]
        if isinstance(op, (ast.IsNot, ast.NotEq)) and pol:
            return t.comparators[0]
        if isinstance(op, (ast.Is, ast.Eq)) and not pol:
            return t.comparators[0]
    return False


def relay_loops(chk, repo, sm):
    # ---- R2: relay loops -------------------------------------------------------------------------------------------
    n_relay = 0
    for meth in ('bidding_phase', 'playing_phase'):
        _, fn = repo.method('Server', meth, 'C10.R2')
        fn = inline_broadcasts(repo, fn)
        q = f'Server.{meth}'
        defs = local_defs(fn)
        gets = {}
        for n in ast.walk(fn):
            if isinstance(n, ast.Assign) and len(n.targets) == 1 and isinstance(n.targets[0], ast.Name) and isinstance(n.value, ast.Call) and \
                    isinstance(n.value.func, ast.Attribute) and n.value.func.attr == 'get' and isinstance(n.value.func.value, ast.Subscript):
                gets.setdefault(n.targets[0].id, []).append(n.value.func.value.slice)
        if not gets:
            raise AnalysisError('C10.R2', q, 'no `msg = <queues>[seat].get()` found')
        for n in ast.walk(fn):
            if not (isinstance(n, ast.Call) and isinstance(n.func, ast.Attribute) and n.func.attr == 'put' and len(n.args) == 1 and isinstance(n.args[0], ast.Name)
                    and n.args[0].id in gets):
                continue
            msg = n.args[0].id
            loops = [lp for lp in enclosing_loops(n) if isinstance(lp, ast.For) and ast.unparse(lp.iter) == 'Player']
            if not loops:
                raise AnalysisError('C10.R2', q, f'relay `{ast.unparse(n)}` is not inside a loop over Player')
            lp = loops[0]
            n_relay += 1
            where = repo.where(sm, n)
            keyq = n.func.value.slice if isinstance(n.func.value, ast.Subscript) else None
            chk.require(keyq is not None and isinstance(lp.target, ast.Name) and ast.unparse(keyq) == lp.target.id, 'C10.R2', where, q, f'relay of {msg}: target queue',
                        f'{q}: the relay puts into the queue of the loop seat', f'`{ast.unparse(n)}`: relay target queue is not indexed by the loop seat')
            g = skip_guard(n, lp)
            if g is False:
                raise AnalysisError('C10.R2', q, f'guard of relay `{ast.unparse(n)}` at {where} not recognised')
            src_keys = {resolve(k, defs) for k in gets[msg]}
            ok = g is not None and len(src_keys) == 1 and resolve(g, defs) in src_keys
            chk.require(ok, 'C10.R2', where, q, f'relay of {msg} in {meth}: skipped seat',
                        f'{q}: the relay skips exactly the connection the message was taken from (`{sorted(src_keys)[0][:60]}`)',
                        f'`{ast.unparse(n)}`: the relay skips `{resolve(g, defs) if g is not None else "nobody"}` but the message was taken from the queue of '
                        f'`{sorted(src_keys)[0]}` - the sender gets its own message back and/or another seat never sees it')
    chk.floor('C10.R2', 'relay loops', n_relay, 2)



def run(chk):
    repo = chk.repo
    chk.explanation = __doc__
    chk.trusted += ['sa.skeleton engine stubs (turn logic as established by C01-C05)', 'spec oracle sa.rules.session.seat_oracle (protocol v18 entitlement)']
    chk.assumptions += ['clients conform to the protocol', 'byte-level content of hand / call / card texts is C19\'s subject; here they are opaque tokens with provenance']
    sm = repo.module('network_bridge.server', 'C10')
    srv = repo.cls('Server', 'C10')

    # ---- R2: relay loops (structural; the relays are decided semantically by R4 on the abstract sessions - an unrecognised shape is recorded) --
    try:
        relay_loops(chk, repo, sm)
    except AnalysisError as e:
        if chk.findings:
            raise
        chk.note(f'C10.R2 (relay loops by structure) not evaluated: {e.why[:200]}; who receives which relayed message is decided by C10.R4')

    # ---- R1: information flow of hands ------------------------------------------------------------------------------
    # the structural reading of the hand flows is evaluated on a shadow check: its findings are reported only when the abstract sessions (R4),
    # which decide who is sent which hand at which point semantically, report something as well - a disclosure guard written differently
    # (`card_num == 0` for "first trick, first card") is not a violation
    from ..report import Check as _Check
    shadow = _Check(chk.pid, chk.tier, repo, chk.seed)
    try:
        _hand_flows(shadow, repo, sm, srv)
    except AnalysisError as e:
        deferred = e
    else:
        deferred = None
    n_before = len(chk.findings)
    _rest(chk, repo, sm, deferred)
    sess_findings = len(chk.findings) > n_before
    leaks = [f_ for f_ in shadow.findings if 'PlayerThread receives the deal' in f_.construct]
    for f_ in shadow.findings:
        if sess_findings or f_ in leaks:
            chk.fail(f_.rule, f_.where, f_.qual, f_.construct, f_.reason, **f_.extra)
    if shadow.findings and not sess_findings and len(leaks) < len(shadow.findings):
        chk.note(f'C10.R1 (hand flows by structure) disagrees with the abstract sessions, which find every hand disclosure where the protocol puts it: '
                 f'{[f_.construct for f_ in shadow.findings if f_ not in leaks][:2]} - the sessions (R4) decide')
    elif not shadow.findings and deferred is None:
        for k_, v_ in shadow.rules.items():
            r_ = chk._rule(k_)
            for kk in ('obligations', 'discharged', 'instances'):
                r_[kk] += v_[kk]
        chk.obligations += shadow.obligations
        chk.discharged += shadow.discharged


def _hand_flows(chk, repo, sm, srv):
    n_flows = 0
    for mname, fn in srv.methods.items():
        fn = inline_broadcasts(repo, fn)
        q = f'Server.{mname}'
        defs = local_defs(fn)
        params = {a.arg for a in fn.args.args}
        hand_params = {a.arg for a in fn.args.args if a.annotation is not None and 'Hands' in ast.unparse(a.annotation)}
        if mname == 'run':
            continue        # Server.run hands the deal to deal()/playing_phase()/the log only; its puts carry control tokens (checked below)

        def is_engine(name):
            vs = defs.get(name, [])
            return bool(vs) and all(isinstance(v, ast.Call) and isinstance(v.func, ast.Name) and repo.has_cls(v.func.id) for v in vs)

        def tainted(e, seen=()):
            """Does the value of `e` depend on card holdings?  Engine objects built from the deal expose seats and counters;
            only their hand-named attributes carry cards."""
            if isinstance(e, ast.Call) and ast.unparse(e.func).endswith('hand_to_str'):
                return True
            if isinstance(e, ast.Attribute):
                base = e
                while isinstance(base, ast.Attribute):
                    base = base.value
                if isinstance(base, ast.Name) and is_engine(base.id):
                    chain = ast.unparse(e).lower()
                    return 'hand' in chain or 'card' in chain
            if isinstance(e, ast.Name):
                if e.id in hand_params:
                    return True
                if is_engine(e.id):
                    return True
                if e.id in defs and e.id not in seen:
                    return any(tainted(v, seen + (e.id,)) for v in defs[e.id])
                return False
            return any(tainted(c, seen) for c in ast.iter_child_nodes(e))
        for n in ast.walk(fn):
            if not (isinstance(n, ast.Call) and isinstance(n.func, ast.Attribute) and n.func.attr == 'put' and n.args):
                continue
            if not tainted(n.args[0]):
                continue
            n_flows += 1
            where = repo.where(sm, n)
            payload = n.args[0]
            full = payload
            if isinstance(payload, ast.Name) and len(defs.get(payload.id, [])) == 1:
                full = defs[payload.id][0]
            h2s = [x for x in ast.walk(full) if isinstance(x, ast.Call) and ast.unparse(x.func).endswith('hand_to_str')]
            loops = [lp for lp in enclosing_loops(n) if isinstance(lp, ast.For) and ast.unparse(lp.iter) == 'Player']
            if len(h2s) != 1 or not loops or not isinstance(n.func.value, ast.Subscript):
                raise AnalysisError('C10.R1', q, f'hand-dependent put `{ast.unparse(n)[:80]}` at {where} has an unrecognised shape')
            lp = loops[0]
            var = lp.target.id
            idx = h2s[0].args[0] if h2s[0].args else None
            if not (isinstance(idx, ast.Subscript) and isinstance(idx.value, ast.Name) and idx.value.id in hand_params):
                raise AnalysisError('C10.R1', q, f'`{ast.unparse(h2s[0])}`: argument is not `<deal>[seat]`')
            seat_idx = resolve(idx.slice, defs)
            qkey = ast.unparse(n.func.value.slice)
            lits = ''.join(v.value for v in ast.walk(full) if isinstance(v, ast.Constant) and isinstance(v.value, str))
            if "Dummy" in lits:
                g = skip_guard(n, lp)
                if g is False:
                    raise AnalysisError('C10.R1', q, f'guard of the dummy disclosure at {where} not recognised')
                dummy_expr = resolve(g, defs) if g is not None else None
                chk.require(qkey == var, 'C10.R1', where, q, 'dummy disclosure: target queue', 'dummy disclosure goes to the loop seat\'s queue',
                            f'`{ast.unparse(n)[:70]}`: queue key `{qkey}` is not the loop seat')
                chk.require(dummy_expr is not None and dummy_expr.endswith('.dummy') and seat_idx == dummy_expr, 'C10.R1', where, q, 'dummy disclosure: hand shown = seat skipped = engine.dummy',
                            'the hand shown is the engine\'s dummy and exactly dummy is skipped',
                            f'dummy disclosure shows the hand of `{seat_idx}` and skips `{dummy_expr}`: both must be the play engine\'s `dummy`')
                # guard: first card of first trick, after the card was applied
                ifs = []
                p = parent(lp)
                while p is not None and not isinstance(p, ast.FunctionDef):
                    if isinstance(p, ast.If):
                        ifs.append(p)
                    p = parent(p)
                outer = enclosing_loops(lp)
                first_ok = False
                if ifs and len(outer) >= 2:
                    atoms = {ast.unparse(a) for a in (ifs[0].test.values if isinstance(ifs[0].test, ast.BoolOp) and isinstance(ifs[0].test.op, ast.And) else [ifs[0].test])}
                    firsts = set()
                    for o in outer[:2]:
                        if isinstance(o, ast.For) and isinstance(o.target, ast.Name) and isinstance(o.iter, ast.Call) and ast.unparse(o.iter.func) == 'range':
                            a0 = o.iter.args[0].value if len(o.iter.args) > 1 and isinstance(o.iter.args[0], ast.Constant) else 0
                            firsts.add(f'{o.target.id} == {a0}')
                    first_ok = len(firsts) == 2 and atoms == firsts
                chk.require(first_ok, 'C10.R1', where, q, 'dummy disclosure: guard',
                            'dummy is disclosed only in the first iteration of both loops (first card of the first trick)',
                            f'dummy disclosure is guarded by `{ast.unparse(ifs[0].test) if ifs else None}`, not by `first trick and first card`')
                if ifs and len(outer) >= 1:
                    inner = outer[0]
                    top = ifs[0]
                    while parent(top) is not inner and parent(top) is not None:
                        top = parent(top)
                    before = inner.body[:inner.body.index(top)] if top in inner.body else []
                    played = any(isinstance(x, ast.Call) and isinstance(x.func, ast.Attribute) and x.func.attr == 'play_card_by_player' for b in before for x in ast.walk(b))
                    relayed = any(isinstance(x, ast.Call) and isinstance(x.func, ast.Attribute) and x.func.attr == 'put' for b in before for x in ast.walk(b))
                    chk.require(played and relayed, 'C10.R1', where, q, 'dummy disclosure: after the lead',
                                'the disclosure follows, in the same iteration, the application and the relay of the opening lead',
                                'dummy\'s hand is queued before the opening lead has been applied and relayed in that iteration')
            else:
                names = {x.id for x in ast.walk(full) if isinstance(x, ast.Name)}
                fv = [v for v in ast.walk(full) if isinstance(v, ast.FormattedValue)]
                name_ok = any(ast.unparse(v.value) == f'{var}.formal_name' for v in fv)
                chk.require(qkey == var and seat_idx == var and name_ok, 'C10.R1', where, q, 'hand message: queue key = hand index = named seat',
                            'each seat is queued its own hand, under its own name',
                            f'`{ast.unparse(n)[:60]}...`: queue `{qkey}`, hand of `{seat_idx}`, loop seat `{var}` - a seat would receive another seat\'s cards')
                g = skip_guard(n, lp)
                chk.require(g is None, 'C10.R1', where, q, 'hand message: every seat', 'every seat gets its hand', f'hand message is guarded by `{ast.unparse(g) if g not in (None, False) else g}`')
    chk.floor('C10.R1', 'hand-dependent queue messages', n_flows, 2)
    # seat threads never look at the deal: PlayerThread has no Hands-typed data
    pt = repo.cls('PlayerThread', 'C10.R1')
    leaks = [a for m in pt.methods.values() for a in m.args.args if a.annotation is not None and 'Hands' in ast.unparse(a.annotation)]
    chk.require(not leaks, 'C10.R1', repo.where(sm, pt.node), 'PlayerThread', 'PlayerThread receives the deal', 'seat threads have no access to the deal',
                'a PlayerThread method takes the whole deal: a seat thread could send any hand')



def _rest(chk, repo, sm, deferred):
    # ---- R5: what crosses a queue is text built by the sender (the discipline rule of C09.R1, evaluated again here) --------
    from .c09 import discipline
    discipline(chk, rule='C10.R5')

    # ---- R4: abstract traces -----------------------------------------------------------------------------------------
    res = S.run_family(chk, ['entitlement'])
    S.record(chk, res)
    S.schedule_independence(chk, res, 'C10.R4')
    chk.floor('C10.R4', 'abstract sessions', len(res), 30)
    chk.exhaustive = chk.tier == 'thorough'
    chk.extra['sessions'] = {'runs': len(res), 'configurations': len({r['vid'] for r in res}), 'policies': sorted({r['policy'] for r in res}),
                             'events_interpreted': sum(r['stats'].get('events', 0) for r in res)}
    if deferred is not None:
        if chk.findings:
            raise deferred
        # the hand flows could not be read off the structure: which seat is sent which hand is decided on the abstract sessions above (R4: every
        # hand text carries its owner and board and is compared with what the protocol entitles the recipient to)
        chk.note(f'C10.R1 (hand flows by structure) not evaluated: {deferred.why[:200]}; decided by C10.R4 on the abstract sessions')
