"""C02 - the auction proceeds clockwise from the dealer and ends exactly when it must."""
from __future__ import annotations

import ast

from ..fold import NOVALUE
from ..index import AnalysisError
from .bidding import Bidding
from .c01 import CLOCKWISE, seat_tables
from .common import loc


def run(chk):
    """Two deciders: the explicit-state exploration of the folded engine against the Laws (bidfold: public interface only, bounded
    depth + scripted long auctions) and the symbolic path summaries below (all histories, but tied to the shapes the summariser
    recognises).  A representation of the engine state the summaries cannot bind is not an analysis error as long as the
    exploration decides the behaviour; it is recorded in the evidence."""
    from . import bidfold
    bidfold.run(chk, 'C02')
    try:
        symbolic(chk)
    except AnalysisError as e:
        if chk.findings:
            raise
        chk.explanation = ''
        chk.note(f'symbolic rules not evaluated ({e.rule} at {e.anchor}: {e.why[:200]}); the verdict rests on the bounded exploration only')
    chk.explanation = ('Explicit-state exploration of the folded BiddingPhase (numpy vector on a 1-d array model) against an oracle of the Laws: every '
                       'call sequence over an alphabet of all call kinds (pass, double, redouble, cheapest / denomination-changing / same-denomination / '
                       'top bids, insufficient bids) to depth 6 (7 thorough) from dealer N, depth 4-5 from the other dealers and vulnerabilities, plus '
                       'scripted long auctions (the 319-call maximum); at every prefix turn, vector of the 38 calls, histories, end, contract and declarer '
                       'are compared, refused calls and calls after the end must change nothing.  ' + (chk.explanation or
                       'The symbolic path-summary rules could not bind the state representation of this tree and were not evaluated.'))


def symbolic(chk):
    # a failure is reported only for a path whose guards ALL evaluate under the valuation: a guard over state the valuation does not
    # know (another representation of the engine state) makes the path indefinite -> no verdict from this rule (bidfold decides)
    chk.strict_guards = True
    B = Bidding(chk, 'C02')
    f, r = B.f, B.roles
    chk.explanation = (
        'Path-sensitive effect summary of BiddingPhase.take_bid/has_done/__init__: under every abstract valuation '
        '(call x history length 0..4 x whether each of the last two calls is a pass x seat) the consistent accepting '
        'paths must all end FINISHED exactly when the call is a pass, at least three calls precede it and the last two '
        'are passes; each accepting path appends the call once to the common history and once to the list of the seat '
        'that was on turn BEFORE the advance; the turn advances to the clockwise neighbour (table folded from '
        'Player.next_player/left) or becomes none exactly on FINISHED; once the active seat is none every call raises '
        'before anything is written.')
    chk.note(f'roles: {r.__dict__}')
    PASS = f.member('Bid', 'Pass')
    NOTPASS = B.bids[0]
    nb = len(B.bids)
    seat_tables(chk, 'C02.R4', f)

    # ---- R2: raise-guard dominates everything; has_done <=> active is none ----------------------------------
    chk.floor('C02.R2', 'raising paths', len(B.raising), 1)
    w_hd, q_hd = loc(chk.repo, 'BiddingPhase', 'has_done', 'C02.R2')
    hd_paths = B.summ.paths('BiddingPhase', 'has_done')
    for act in [None] + B.players:
        pe = B.evaluator({'active': act})
        vals = set()
        for p in hd_paths:
            if B.consistent(p, pe) and p.end[0] == 'return' and p.end[1] is not None:
                vals.add(pe.eval(p.end[1]))
        chk.require(vals == {act is None}, 'C02.R2', w_hd, q_hd, f'has_done() with active={act}',
                    f'has_done() is {act is None} when the active seat is {act}',
                    f'has_done() gives {vals} when the active seat is {act}')
        for b in (B.bids[0], PASS):
            for slot in (0, 1):
                chk.evals()
                pe = B.evaluator({'active': act, 'bid': b, 'slot': slot})
                cons = [p for p in B.paths if B.consistent(p, pe, b)]
                if not cons:
                    raise AnalysisError('C02.R2', B.qual, f'no consistent path for active={act}')
                for p in cons:
                    chk.focus(p, pe)
                    k = B.kinds[id(p)]
                    if act is None:
                        ws = p.writes()
                        chk.require(k == 'raise' and not ws, 'C02.R2', B.where, B.qual,
                                    f'call after the end -> {k}: {p.describe()[-70:]}',
                                    'after the end every call is refused with an error and changes nothing',
                                    f'after the auction has ended a call ({b}, slot {slot}) is not refused with an error '
                                    f'before any write (path ends {k}' + (f', writes `{ast.unparse(ws[0].node)}`' if ws else '') + ')',
                                    path=p.describe())
                    else:
                        chk.require(k != 'raise', 'C02.R2', B.where, B.qual, f'live auction -> raise: {p.describe()[-70:]}',
                                    'a live auction does not raise', f'take_bid raises although seat {act} is on turn',
                                    path=p.describe())

    # ---- R3: finish condition -------------------------------------------------------------------------------
    shapes = [(0, None, None), (1, True, None), (1, False, None)]
    for n in (2, 3, 4):
        for h1 in (True, False):
            for h2 in (True, False):
                shapes.append((n, h1, h2))
    reps = [b for b in B.bids if b.value in (1, nb - 3) or b.value > nb - 3]
    N = f.member('Player', 'N')
    for b in reps:
        for (n, h1, h2) in shapes:
            chk.evals()
            st = {'bid': b, 'slot': 1, 'active': N, 'n': n}
            if h1 is not None:
                st['h1'] = PASS if h1 else NOTPASS
            if h2 is not None:
                st['h2'] = PASS if h2 else NOTPASS
            pe = B.evaluator(st)
            want_fin = b == PASS and n >= 3 and bool(h1) and bool(h2)
            cons = [p for p in B.accept if B.consistent(p, pe, b)]
            if not cons:
                raise AnalysisError('C02.R3', B.qual, f'no accepting path for {b} after {n} calls')
            for p in cons:
                chk.focus(p, pe)
                k = B.kinds[id(p)]
                chk.require((k == 'FINISHED') == want_fin, 'C02.R3', B.where, B.qual,
                            f'{b} after {n} calls, last pass={h1}, one before pass={h2} -> {k}',
                            f'{b} after {n} calls (last is pass: {h1}, one before: {h2}) {"ends" if want_fin else "does not end"} the auction',
                            f'{b} after {n} calls (last is a pass: {h1}, the one before: {h2}) gives {k}; '
                            f'the auction must {"end" if want_fin else "go on"} here', path=p.describe())

    # ---- R1: append discipline, R4: turn advance -------------------------------------------------------------
    for b in reps:
        for a in B.players:
            chk.evals()
            pe = B.evaluator({'bid': b, 'slot': 1, 'active': a})
            for p in B.accept:
                if not B.consistent(p, pe, b):
                    continue
                chk.focus(p, pe)
                k = B.kinds[id(p)]
                common, seat = [], []
                for e in p.events:
                    if e.kind == 'call' and e.method in ('append', 'insert', 'extend', 'pop', 'remove', 'clear'):
                        rn = ast.parse(e.recv, mode='eval').body
                        if ast.unparse(rn) == r.history:
                            common.append(e)
                        elif isinstance(rn, ast.Subscript) and ast.unparse(rn.value) == r.seat_history:
                            seat.append((e, pe.eval(rn.slice)))
                    if e.kind in ('assign', 'store', 'aug') and e.target in (r.history, r.seat_history):
                        common.append(e)
                good = len(common) == 1 and common[0].kind == 'call' and common[0].method == 'append' and \
                    len(common[0].args) == 1 and pe.eval(common[0].args[0]) == b
                chk.require(good, 'C02.R1', B.where, B.qual, f'common history on {k} path for {b}: {p.describe()[-60:]}',
                            f'accepted {b} is appended exactly once to the common history',
                            f'accepted call {b}: common history receives {[getattr(e, "text", ast.unparse(e.node)) for e in common]}',
                            path=p.describe())
                good = len(seat) == 1 and seat[0][0].method == 'append' and seat[0][1] == a and \
                    len(seat[0][0].args) == 1 and pe.eval(seat[0][0].args[0]) == b
                chk.require(good, 'C02.R1', B.repo.where(B.mod, seat[0][0].node) if seat else B.where, B.qual,
                            (seat[0][0].text if seat else f'per-seat history on {k} path for {b}') + f' [{k}]',
                            f'accepted {b} by {a.name} is appended exactly once to the list of {a.name}',
                            f'accepted call {b} by {a.name}: per-seat history receives '
                            f'{[(e.text, str(kk)) for e, kk in seat]} (must be one append under the seat that made the call)',
                            path=p.describe())
                ap = B.post(p, r.active, pe)
                if k == 'FINISHED':
                    chk.require(ap is None, 'C02.R4', B.where, B.qual, f'active after FINISHED {p.describe()[-50:]}',
                                'no seat is on turn after the end', f'after FINISHED the active seat is {ap}')
                else:
                    chk.require(getattr(ap, 'name', None) == CLOCKWISE[a.name], 'C02.R4', B.where, B.qual,
                                f'turn after {b} by {a.name}',
                                f'after a call by {a.name} the turn passes to {CLOCKWISE[a.name]}',
                                f'after a call by {a.name} the turn passes to {ap}, clockwise is {CLOCKWISE[a.name]}')
    # a refused call leaves no trace in either history and does not move the turn
    chk.focus(None)
    for p in B.illegal:
        ws = [e for e in p.writes() if (getattr(e, 'target', None) in (r.history, r.seat_history, r.active)) or
              (e.kind == 'call' and (e.recv == r.history or e.recv.startswith(r.seat_history + '[') or e.recv.startswith(r.seat_history)))]
        chk.require(not ws, 'C02.R1', B.repo.where(B.mod, ws[0].node) if ws else B.where, B.qual,
                    (f'`{ast.unparse(ws[0].node)}` on a refused call' if ws else f'refused path {p.describe()[-50:]}'),
                    'a refused (ILLEGAL) call is appended to no history and does not move the turn',
                    f'`{ast.unparse(ws[0].node) if ws else ""}` is executed on a path that returns ILLEGAL: the refused call leaks into the auction record',
                    path=p.describe())
    # a snapshot / cache handed out by a read-only property must be refreshed on every path that changes what it is derived from
    for pname, pfn in B.ci.methods.items():
        if B.ci.method_kind(pname) != 'property':
            continue
        for n in ast.walk(pfn):
            if isinstance(n, ast.Assign) and len(n.targets) == 1 and isinstance(n.targets[0], ast.Attribute) and isinstance(n.targets[0].value, ast.Name) \
                    and n.targets[0].value.id == 'self':
                view = f'self.{n.targets[0].attr}'
                srcs = {f'self.{x.attr}' for x in ast.walk(n.value) if isinstance(x, ast.Attribute) and isinstance(x.value, ast.Name) and x.value.id == 'self'}
                for p in B.accept:
                    idx_mut = [i for i, e in enumerate(p.events) if (e.kind == 'call' and e.mutator and any(e.recv == s_ or e.recv.startswith(s_ + '[') for s_ in srcs))
                               or (e.kind in ('assign', 'store', 'aug') and getattr(e, 'target', None) in srcs)]
                    if not idx_mut:
                        continue
                    refreshed = any(e.kind == 'assign' and e.target == view for e in p.events[max(idx_mut) + 1:])
                    chk.require(refreshed, 'C02.R1', B.repo.where(B.mod, n), f'BiddingPhase.{pname}', f'snapshot {view} of {sorted(srcs)} not refreshed on a {B.kinds[id(p)]} path',
                                f'{pname}: the snapshot {view} is refreshed after the {B.kinds[id(p)]} path changes {sorted(srcs)}',
                                f'property `{pname}` hands out `{view}`, computed once from {sorted(srcs)}; the path of take_bid that ends {B.kinds[id(p)]} changes '
                                f'{sorted(srcs)} without resetting it - a caller that looked at `{pname}` before that call keeps seeing the old calls',
                                path=p.describe())
    # dealer starts
    ip = B.init_paths[0]
    w_init, q_init = loc(chk.repo, 'BiddingPhase', '__init__', 'C02.R4')
    a0 = ip.env.get(r.active)
    chk.require(a0 is not None and ast.unparse(a0) == r.dealer_param, 'C02.R4', w_init, q_init, f'{r.active} initial',
                'the dealer is the first to call', f'the first seat to call is `{ast.unparse(a0) if a0 is not None else None}`, not the dealer')
    for role in (r.history,):
        v = ip.env.get(role)
        chk.require(v is not None and ast.unparse(v) in ('[]', 'list()'), 'C02.R1', w_init, q_init, f'{role} initial',
                    'the common history starts empty', f'common history starts as `{ast.unparse(v) if v is not None else None}`')
    v = ip.env.get(r.seat_history)
    good = isinstance(v, ast.DictComp) and ast.unparse(v.value) in ('[]', 'list()') and len(v.generators) == 1 \
        and ast.unparse(v.generators[0].iter) == 'Player' and ast.unparse(v.key) == ast.unparse(v.generators[0].target) \
        and not v.generators[0].ifs
    chk.require(good, 'C02.R1', w_init, q_init, f'{r.seat_history} initial',
                'every seat starts with its own empty list', f'per-seat histories start as `{ast.unparse(v) if v is not None else None}`')
