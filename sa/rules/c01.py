"""C01 - the auction accepts exactly the legal calls.

Legality is an inductive invariant of the 38-slot vector M with last bid L, last bidder B, flags
x/xx and the seat A to call next:
   (i)   for i < 35:  M[i]  <=>  L = none or i > L
   (ii)  M[35] (pass) always
   (iii) M[36] (X)    <=>  L exists and not x and not xx and A, B on different sides
   (iv)  M[37] (XX)   <=>  L exists and x and not xx and A, B on the same side
The rules discharge the local obligations of that invariant on every path of __init__ / take_bid
(path-sensitive effect summary, guards evaluated as truth tables over abstract valuations)."""
from __future__ import annotations

import ast

from ..fold import NOVALUE
from ..index import AnalysisError
from .bidding import Bidding
from .common import loc, try_fold

CLOCKWISE = {'N': 'E', 'E': 'S', 'S': 'W', 'W': 'N'}
SIDE = {'N': 'NS', 'S': 'NS', 'E': 'EW', 'W': 'EW'}


def seat_tables(chk, rule, f):
    """Fold the seat helpers used by the auction and compare with the table of the game."""
    repo = chk.repo
    P = f.members('Player')
    for meth in ('next_player', 'left'):
        w, q = loc(repo, 'Player', meth, rule)
        for p in P:
            r = try_fold(rule, q, lambda: f.call_method(p, meth))
            chk.require(r[0] == 'ok' and getattr(r[1], 'name', None) == CLOCKWISE[p.name], rule, w, q, f'{p}.{meth}',
                        f'{p}.{meth} is the clockwise neighbour {CLOCKWISE[p.name]}', f'{p}.{meth} = {r}, clockwise is {CLOCKWISE[p.name]}')
    w, q = loc(repo, 'Player', 'pair', rule)
    for p in P:
        r = try_fold(rule, q, lambda: f.call_method(p, 'pair'))
        chk.require(r[0] == 'ok' and getattr(r[1], 'name', None) == SIDE[p.name], rule, w, q, f'{p}.pair',
                    f'{p} belongs to {SIDE[p.name]}', f'{p}.pair = {r}, expected {SIDE[p.name]}')
    w, q = loc(repo, 'Player', 'is_partner', rule)
    for p in P:
        for o in P:
            r = try_fold(rule, q, lambda: f.call_method(p, 'is_partner', o))
            want = SIDE[p.name] == SIDE[o.name]
            chk.require(r == ('ok', want), rule, w, q, f'{p}.is_partner({o})',
                        f'same-side test of {p},{o} is {want}', f'{p}.is_partner({o}) = {r}, expected {want}')
    w, q = loc(repo, 'Player', 'partner', rule)
    for p in P:
        r = try_fold(rule, q, lambda: f.call_method(p, 'partner'))
        want = CLOCKWISE[CLOCKWISE[p.name]]
        chk.require(r[0] == 'ok' and getattr(r[1], 'name', None) == want, rule, w, q, f'{p}.partner',
                    f'partner of {p} is {want}', f'{p}.partner = {r}, expected {want}')


def run(chk):
    """Two deciders: the explicit-state exploration of the folded engine against the Laws (bidfold: public interface only, bounded
    depth + scripted long auctions) and the symbolic path summaries below (all histories, but tied to the shapes the summariser
    recognises).  A representation of the engine state the summaries cannot bind is not an analysis error as long as the
    exploration decides the behaviour; it is recorded in the evidence."""
    from . import bidfold
    bidfold.run(chk, 'C01')
    try:
        symbolic(chk)
    except AnalysisError as e:
        if chk.findings:
            raise
        chk.explanation = ''
        chk.note(f'symbolic rules not evaluated ({e.rule} at {e.anchor}: {e.why[:200]}); the verdict rests on the bounded exploration only')
    chk.explanation = ('Explicit-state exploration of the folded BiddingPhase (numpy vector on a 1-d array model) against an oracle of the Laws: every '
                       'call sequence over an alphabet of all call kinds (pass, double, redouble, cheapest / denomination-changing / same-denomination / '
                       'top bids, insufficient bids) to depth 6 (7 thorough) from dealer N, depth 4-5 from the other dealers and vulnerabilities, plus '
                       'scripted long auctions (the 319-call maximum); at every prefix turn, vector of the 38 calls, histories, end, contract and declarer '
                       'are compared, refused calls and calls after the end must change nothing.  ' + (chk.explanation or
                       'The symbolic path-summary rules could not bind the state representation of this tree and were not evaluated.'))


def symbolic(chk):
    # a failure is reported only for a path whose guards ALL evaluate under the valuation: a guard over state the valuation does not
    # know (another representation of the engine state) makes the path indefinite -> no verdict from this rule (bidfold decides)
    chk.strict_guards = True
    B = Bidding(chk, 'C01')
    f, r = B.f, B.roles
    chk.explanation = (
        'Path-sensitive effect summary of BiddingPhase.__init__/take_bid (all syntactic paths, helpers inlined, reads '
        'replaced by their reaching expressions). Roles (mask, flags, active seat, last bidder, histories, table) are '
        'bound by use, not by name. Guards are evaluated as truth tables over abstract valuations (call x slot value x '
        'flags x last bidder x seat); the stores to the 38-slot vector on every consistent path are compared with the '
        'invariant of the Laws (prefix disabled exactly up to the bid, pass never disabled, X/XX slots = the double / '
        'redouble rights of the NEXT caller); ILLEGAL/raise paths perform no write. Seat helpers (next_player, pair, '
        'is_partner) are folded to tables and compared with the clockwise / same-side tables.')
    chk.assumptions += ['numpy slice/index assignment semantics on a 1-d array of length 38',
                        'Enum identity semantics (`is` on members)']
    chk.note(f'roles: {r.__dict__}')
    chk.note(f'{len(B.paths)} paths of take_bid: ' + ', '.join(f'{k}={sum(1 for p in B.paths if B.kinds[id(p)] == k)}'
                                                              for k in ('raise', 'ILLEGAL', 'FINISHED', 'ONGOING')))
    chk.floor('C01.R1', 'ILLEGAL return paths', len(B.illegal), 1)
    PASS, X, XX = f.member('Bid', 'Pass'), f.member('Bid', 'X'), f.member('Bid', 'XX')
    nb = len(B.bids)
    N = f.member('Player', 'N')

    # ---- R1/R2: the mask is consulted before any state change and is the only thing that refuses a call ----
    for b in B.bids:
        for slot in (0, 1):
            chk.evals()
            pe = B.evaluator({'bid': b, 'slot': slot, 'active': N})
            cons = [p for p in B.paths if B.consistent(p, pe)]
            if not cons:
                raise AnalysisError('C01.R1', B.qual, f'no path is consistent with call {b}, slot {slot}')
            for p in cons:
                chk.focus(p, pe)
                k = B.kinds[id(p)]
                if slot == 0:
                    good = k == 'ILLEGAL'
                    chk.require(good, 'C01.R1', B.where, B.qual, f'{b} offered while slot is 0 -> {k}: {p.describe()[-80:]}',
                                f'{b} with availability 0 is reported ILLEGAL',
                                f'call {b} whose slot is 0 is not refused: path ends {k}', path=p.describe())
                    ws = p.writes()
                    chk.require(not ws, 'C01.R1', B.repo.where(B.mod, ws[0].node) if ws else B.where, B.qual,
                                ast.unparse(ws[0].node) if ws else 'no write',
                                f'refusing {b} changes nothing (no write on the path)',
                                f'state is modified before the call {b} is refused: `{ast.unparse(ws[0].node) if ws else ""}`',
                                path=p.describe())
                else:
                    chk.require(k != 'ILLEGAL', 'C01.R2', B.where, B.qual,
                                f'{b} offered while slot is 1 -> ILLEGAL: {p.describe()[-100:]}',
                                f'{b} with availability 1 is accepted (only the vector refuses calls)',
                                f'call {b} is refused although its slot is 1 (something other than the advertised vector decides)',
                                path=p.describe())
    for p in B.raising:
        ws = p.writes()
        chk.require(not ws, 'C01.R1', B.where, B.qual, 'raise path writes', 'the raising path performs no write',
                    f'state is modified before raising: `{ast.unparse(ws[0].node) if ws else ""}`')

    # ---- R3: initial vector --------------------------------------------------------------------------------
    ip = B.init_paths[0]
    w_init, q_init = loc(chk.repo, 'BiddingPhase', '__init__', 'C01.R3')
    pe0 = B.evaluator({})
    init_val = [e for e in ip.events if e.kind == 'assign' and e.target == r.mask]
    if len(init_val) != 1:
        raise AnalysisError('C01.R3', q_init, 'mask is not assigned exactly once in __init__')
    iv = init_val[0].value
    size = None
    if isinstance(iv, ast.Call) and ast.unparse(iv.func) in ('np.ones', 'numpy.ones', 'ones') and len(iv.args) >= 1:
        size = pe0.eval(iv.args[0])
    if size is None or size is NOVALUE:
        raise AnalysisError('C01.R3', q_init, f'initial vector `{ast.unparse(iv)}` is not an all-ones constructor of constant size')
    chk.require(size == nb, 'C01.R3', w_init, q_init, ast.unparse(init_val[0].node),
                f'vector has one slot per call ({nb})', f'vector has {size} slots, there are {nb} calls')
    d0 = B.mask_delta(ip, pe0, init=True)
    if d0 is None:
        raise AnalysisError('C01.R3', q_init, 'initial stores to the vector are not constant')
    zero = sorted(i for i, v in d0.items() if v == 0)
    chk.require(zero == [X.value - 1, XX.value - 1] and all(v in (0, 1) for v in d0.values()), 'C01.R3', w_init, q_init,
                'initial zeroed slots', 'initially every bid and pass is available, X and XX are not',
                f'initially zeroed slots are {zero}, expected [{X.value - 1}, {XX.value - 1}]')
    for role, want in ((r.x, False), (r.xx, False), (r.last_bid, None), (r.last_bidder, None)):
        v = B.post(ip, role, pe0)
        chk.require(v is want, 'C01.R3', w_init, q_init, f'{role} initial', f'{role} starts as {want}', f'{role} starts as {v!r}')

    # ---- R4 (+R7 for flags): stores below slot 36 / flag updates, per call ---------------------------------
    for b in B.bids:
        regular = b.value <= nb - 3
        for x0, xx0 in ((False, False), (True, False), (True, True)):
            chk.evals()
            pe = B.evaluator({'bid': b, 'slot': 1, 'active': N, 'x': x0, 'xx': xx0})
            for p in B.accept:
                if not B.consistent(p, pe, b):
                    continue
                chk.focus(p, pe)
                d = B.mask_delta(p, pe)
                if d is None:
                    raise AnalysisError('C01.R4', B.qual, f'stores to the vector on path `{p.describe()[-80:]}` are not evaluable for {b}')
                low = {i: v for i, v in d.items() if i < nb - 2}
                want = {i: 0 for i in range(b.value)} if regular else {}
                st = next((e for e in p.events if e.kind == 'store' and e.target == r.mask and getattr(e, 'slice', None) is not None), None)
                cons = ast.unparse(st.node) if st is not None else f'stores to {r.mask} for {b}'
                chk.require(low == want, 'C01.R4', B.repo.where(B.mod, st.node) if st is not None else B.where, B.qual, cons,
                            f'after {b} exactly the bids up to and including it are disabled (pass stays available)',
                            f'after {b} the slots set below X are {sorted(low.items())[:6]}..({len(low)}), expected exactly 0..{b.value - 1} -> 0'
                            if regular else f'call {b} changes bid/pass slots {sorted(low.items())[:6]}')
                # flags (R7)
                xp, xxp = B.post(p, r.x, pe), B.post(p, r.xx, pe)
                if b == X:
                    wantx, wantxx = True, xx0
                elif b == XX:
                    wantx, wantxx = x0, True
                elif b == PASS:
                    wantx, wantxx = x0, xx0
                else:
                    wantx, wantxx = False, False
                chk.require(xp is wantx and xxp is wantxx, 'C01.R7', B.where, B.qual,
                            f'flags after {b} from ({x0},{xx0})',
                            f'doubled/redoubled flags after {b} from ({x0},{xx0}) are ({wantx},{wantxx})',
                            f'after {b} from doubled={x0}, redoubled={xx0} the flags are ({xp},{xxp}), expected ({wantx},{wantxx})')

    # ---- R5/R6: X and XX slots = rights of the NEXT caller ---------------------------------------------------
    seat_tables(chk, 'C01.R5', f)
    ongoing = [p for p in B.paths if B.kinds[id(p)] == 'ONGOING']
    reps = B.bids if chk.tier == 'thorough' else \
        [b for b in B.bids if b.value in (1, 18, nb - 3) or b.value > nb - 3]
    chk.note(f'C01.R5 evaluated for calls {[b.name for b in reps]} (quick: first/middle/last bid + Pass, X, XX; '
             f'thorough: all {nb})')
    for b in reps:
        regular = b.value <= nb - 3
        for a in B.players:
            for lb in [None] + B.players:
                for x0, xx0 in ((False, False), (True, False), (True, True)):
                    if lb is None and (x0 or xx0):
                        continue        # unreachable: no double before any bid
                    if b == X and (x0 or lb is None) or b == XX and (not x0 or xx0 or lb is None):
                        continue        # unreachable: such a call has slot 0 by (iii)/(iv)
                    chk.evals()
                    pe = B.evaluator({'bid': b, 'slot': 1, 'active': a, 'x': x0, 'xx': xx0, 'last_bidder': lb,
                                      'last_bid': None if lb is None else B.bids[0]})
                    for p in ongoing:
                        if not B.consistent(p, pe, b):
                            continue
                        chk.focus(p, pe)
                        d = B.mask_delta(p, pe)
                        ap, bp = B.post(p, r.active, pe), B.post(p, r.last_bidder, pe)
                        xp, xxp = B.post(p, r.x, pe), B.post(p, r.xx, pe)
                        if d is None or NOVALUE in (ap, bp, xp, xxp):
                            raise AnalysisError('C01.R5', B.qual, f'post-state of `{p.describe()[-80:]}` is not evaluable')
                        nxt = CLOCKWISE[a.name]
                        bidder = a.name if regular else (lb.name if lb is not None else None)
                        x1 = True if b == X else (False if regular else x0)
                        xx1 = True if b == XX else (False if regular else xx0)
                        has = bidder is not None
                        same = has and SIDE[nxt] == SIDE[bidder]
                        want_x = 1 if (has and not x1 and not xx1 and not same) else 0
                        want_xx = 1 if (has and x1 and not xx1 and same) else 0
                        for slot, want, nm in ((X.value - 1, want_x, 'X'), (XX.value - 1, want_xx, 'XX')):
                            got = d.get(slot, 'unchanged')
                            if got == 'unchanged':
                                good = not has          # before any bid the slot keeps its initial 0
                            else:
                                good = got == want
                            st = [e for e in p.events if e.kind == 'store' and e.target == r.mask and getattr(e, 'slice', None) is None]
                            chk.require(good, 'C01.R5', B.repo.where(B.mod, st[-1].node) if st else B.where, B.qual,
                                        f'{nm} slot after {b} by {a.name}, last bidder {bidder}, doubled={x1}, redoubled={xx1}',
                                        f'{nm} right of next caller {nxt} after {b} by {a.name} (last bidder {bidder}, x={x1}, xx={xx1}) is {want}',
                                        f'after {b} by {a.name} (last bidder {bidder}, doubled={x1}, redoubled={xx1}) the {nm} slot is {got}; '
                                        f'the next caller {nxt} must find it {want}', path=p.describe())

    # ---- R8: who may write the auction state -----------------------------------------------------------------
    from .common import writers_of
    state_attrs = [r.active, r.mask, r.x, r.xx, r.history, r.seat_history, r.last_bid, r.last_bidder, r.table]
    from .common import writer_closure
    allowed = {m for _, m in writer_closure(chk.repo, 'BiddingPhase', {'__init__', 'take_bid'})}
    n = 0
    for meth, fn in B.ci.methods.items():
        for (attr, node) in writers_of(fn, {a.split('.', 1)[1] for a in state_attrs}):
            n += 1
            chk.require(meth in allowed, 'C01.R8', B.repo.where(B.mod, node), f'BiddingPhase.{meth}', ast.unparse(node),
                        f'{attr} is written in {meth} (constructor / take_bid only)',
                        f'auction state {attr} is modified outside __init__/take_bid: `{ast.unparse(node)}`')
    chk.floor('C01.R8', 'writes to auction state', n, 9)
    # nobody in the package mutates the vectors handed out by the read-only properties
    from .common import external_mutations
    props = {'available_bid', 'bid_history', 'players_bid_history'}
    for (m, qual, node) in external_mutations(chk.repo, props, exclude_class='BiddingPhase'):
        chk.require(False, 'C01.R8', chk.repo.where(m, node), qual, ast.unparse(node),
                    'no code outside BiddingPhase mutates the vectors it hands out',
                    f'`{ast.unparse(node)}` mutates auction state through a read-only property')
