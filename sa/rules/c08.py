"""C08 - the table manager's log records exactly what was played (partial).

R5  timing independence: the Kahn discipline of every cross-thread primitive (the rule of C09.R1,
    evaluated again here) - the record is a function of the boards and the seats' decisions only;
    no random choice is made for a value the board list configures.
R7  abstract interpretation of the whole session for every role configuration: the keyword
    arguments handed to the log writer for board k are exactly - the configured id, dealer, dda
    and the ORIGINAL deal object (not the copy the play engine consumes); the call tokens the
    seats sent, in order; the contract the auction engine produced (with the configured
    vulnerability); per trick the leader and the four card tokens the seats sent; the trick count
    of DECLARER'S side; scores {declarer's side: calc_score(contract, those tricks), other side:
    the negation of the same value}; None / None / zeros on a passed-out board; one record per
    board in list order; the four names are the seated team names; identical under every
    scheduling policy of the same configuration.
R8  what JsonLogWriter.write is handed is what the document holds: board sequences with pairwise different
    parameter values are written through one writer (its real code folded), the text parsed and read back
    through the real reader, every field compared by value (whole-document rule of sa/rules/jsonfile.py).
Not decided here: schema conformance of the JSON text (C12); scoring
arithmetic is C07/C16; legality of the auction and play is C01-C06)."""
from __future__ import annotations

import ast

from ..index import AnalysisError
from . import session as S
from .c09 import discipline
from .common import loc

W = 'bridge_env/data_handler/json_handler/writer.py'

# key path -> (parameters the value must depend on, attribute/constant fragments that must appear in it)
PROVENANCE = {
    'players.N': ({'north_player'}, ()), 'players.E': ({'east_player'}, ()), 'players.S': ({'south_player'}, ()), 'players.W': ({'west_player'}, ()),
    'board_id': ({'board_id'}, ()), 'dealer': ({'dealer'}, ()), 'deal': ({'deal'}, ()), 'vulnerability': ({'contract'}, ('contract.vul',)),
    'bid_history': ({'bid_history'}, ()), 'contract': ({'contract'}, ()), 'declarer': ({'contract'}, ('contract.declarer', 'contract.is_passed_out()')),
    'play_history': ({'play_history'}, ('.leader', '.cards', 'play_history.history')), 'taken_trick': ({'taken_trick_num'}, ()),
    'score_type': ({'scoring'}, ()), 'scores.NS': ({'scores'}, ('scores[Pair.NS]',)), 'scores.EW': ({'scores'}, ('scores[Pair.EW]',)),
}


def flatten(d: ast.Dict, prefix=''):
    out = {}
    for k, v in zip(d.keys, d.values):
        if not (isinstance(k, ast.Constant) and isinstance(k.value, str)):
            raise AnalysisError('C08.R8', 'JsonLogWriter.write', f'record key `{ast.unparse(k) if k is not None else "**"}` is not a string constant')
        key = prefix + k.value
        if isinstance(v, ast.Dict) and all(isinstance(x, ast.Constant) for x in v.keys):
            out.update(flatten(v, key + '.'))
        else:
            out[key] = v
    return out


def run(chk):
    repo = chk.repo
    chk.explanation = __doc__
    chk.trusted += ['Kahn determinacy theorem (timing independence under the discipline of R5)', 'sa.skeleton engine stubs (turn logic as established by C01-C05)']
    chk.assumptions += ['clients conform to the protocol', 'calc_score is a function of (contract, tricks) (C07)']
    # ---- R5 ---------------------------------------------------------------------------------------------------------------
    discipline(chk, rule='C08.R5')

    # ---- R8: what the log writer is handed is what the document holds -------------------------------------------------------
    # (decided on whole documents: sequences of boards with pairwise different values in every parameter are written through one
    # JsonLogWriter by folding its real code, the text is parsed as JSON and read back through the real reader; every field must come
    # back equal to the value handed in - sa/rules/jsonfile.py.  A key computed from the wrong parameter, a stale value kept from the
    # previous board, a value normalised on the way are all differences there, whatever the code looks like.)
    from .jsonfile import log_rule
    log_rule(chk, 'C08.R8')

    # ---- R7 ---------------------------------------------------------------------------------------------------------------
    res = S.run_family(chk, ['log'])
    S.record(chk, res)
    S.schedule_independence(chk, res, 'C08.R5')
    chk.floor('C08.R7', 'abstract sessions', len(res), 30)
    chk.exhaustive = chk.tier == 'thorough'
    chk.extra['sessions'] = {'runs': len(res), 'configurations': len({r['vid'] for r in res}), 'policies': sorted({r['policy'] for r in res}),
                             'events_interpreted': sum(r['stats'].get('events', 0) for r in res)}
