"""C18 - PBN export is read back by the PBN parser, one game per board."""
from __future__ import annotations

import ast
import re

from ..fold import DV, Folder, FoldRaise, NOVALUE, PartialEvaluator, Unsupported
from ..index import AnalysisError, parent
from ..paths import Summarizer
from .c13 import stmt_of
from .common import loc
from .pbnio import VALUE_ALPHABET_SAMPLES, fold_parse_board, parser_constants, separator_pattern

MANDATORY = ['Event', 'Site', 'Date', 'Board', 'West', 'North', 'East', 'South', 'Dealer', 'Vulnerable', 'Deal', 'Scoring',
             'Declarer', 'Contract', 'Result']


class Sink:
    """Recording stand-in for the output stream while write_line is folded."""

    def __init__(self):
        self.chunks = []

    def write(self, s):
        self.chunks.append(s)


def run(chk):
    repo = chk.repo
    chk.explanation = (
        'R1: on every path of PbnWriter.write_board_result the tags written are the 15 mandatory PBN tags in order. R2 (sibling '
        'agreement writer<->reader): after the last tag the writer emits a line that the reader\'s game-separator pattern fullmatches. '
        'R3: the stream is written only inside write_line; write_line uses its argument only through len/slicing/concatenation, so it '
        'is folded for every length 1..1100 (with and without trailing newline): every chunk <= 255 characters and the content is '
        'preserved. R4: tag values by provenance (Vulnerable <- pbn_format(), Deal <- to_pbn(dealer), Dealer <- str(dealer), Board <- '
        'str(board_num), passed-out arms "" / "Pass" / "" under is_passed_out()). R5: the `[Tag "value"]` lines produced by '
        'write_tag_pair for all 15 tags and values over the property\'s alphabet are read back verbatim by parse_board (folded).')
    from .pbnfile import writer_rule
    writer_rule(chk, 'C18.R6')
    def structural():
        S = Summarizer(repo, 'C18')
        wm = repo.cls('PbnWriter', 'C18').module
        w_wbr, q_wbr = loc(repo, 'PbnWriter', 'write_board_result', 'C18.R1')
        paths = [p for p in S.paths('PbnWriter', 'write_board_result', dyn='PbnWriter') if p.end[0] != 'raise']
        chk.floor('C18.R1', 'non-raising paths of write_board_result', len(paths), 1)
        f = Folder(repo, allow_loops=True, max_steps=200000)
        pat, func, sep_call, sep_if, ps_fn, pci = separator_pattern(repo, 'C18.R2')
        from .pbnio import check_line_source
        check_line_source(chk, 'C18.R3', repo)
        fm = re.fullmatch if func == 're.fullmatch' else re.match
        tag_values = {}
        for p in paths:
            lines = [e for e in p.events if e.kind == 'call' and e.method == 'write_line' and e.recv == 'self']
            tags = []
            tail = []
            for e in lines:
                a = e.args[0] if e.args else None
                m = None
                if isinstance(a, ast.JoinedStr):
                    # template  [ {tag} "{content}" ]
                    parts = a.values
                    lit = ''.join(v.value if isinstance(v, ast.Constant) else '\0' for v in parts)
                    holes = [v.value for v in parts if isinstance(v, ast.FormattedValue)]
                    if lit == '[\0 "\0"]' and len(holes) == 2 and isinstance(holes[0], ast.Constant):
                        m = (holes[0].value, holes[1])
                if m is not None and not tail:
                    tags.append(m[0])
                    tag_values.setdefault(m[0], set()).add(ast.unparse(m[1]))
                else:
                    tail.append(e)
            if tags != MANDATORY and len(tags) < len([e for e in lines]) - 1:
                # the tag lines are not built from the one template this reading knows: the order of the tags is decided by the fold (R1 in writer_rule)
                raise AnalysisError('C18.R1', q_wbr, f'tag lines of write_board_result are not recognised by the structural reading ({len(tags)} of {len(lines)} write_line calls)')
            chk.require(tags == MANDATORY, 'C18.R1', w_wbr, q_wbr, f'tags written: {tags}',
                        'the 15 mandatory tags are written in PBN order', f'tags written are {tags}; PBN requires {MANDATORY}')
            # R2 separator
            sep_ok = False
            sep_txt = None
            for e in tail:
                pe = PartialEvaluator(f, wm, [])
                v = pe.eval(e.args[0]) if e.args else NOVALUE
                if isinstance(v, str):
                    sep_txt = v if v.endswith('\n') else v + '\n'
                    if fm(pat, sep_txt) is not None:
                        sep_ok = True
            chk.require(sep_ok, 'C18.R2', repo.where(wm, tail[0].node) if tail else w_wbr, q_wbr,
                        f'after the Result tag the writer emits {sep_txt!r}; reader separates games on {pat!r}',
                        'each board result ends with a line the reader recognises as a game separator',
                        f'after the last tag the writer emits {repr(sep_txt) if sep_txt is not None else "nothing"}: the reader (separator pattern {pat!r}) '
                        f'reads consecutive board results as ONE game and loses every board after the first')

        # ---- R4 provenance of the tag values (conditional arms evaluated, leaves matched by call) -------------------------
        leaf = {'str(board_num)': 'BOARD', 'str(dealer)': 'DEALER', 'contract.vul.pbn_format()': 'VUL-PBN', 'deal.to_pbn(dealer)': 'DEAL-FROM-DEALER',
                'scoring.value': 'SCORING', 'event': 'EVENT', 'site': 'SITE', 'west_player': 'W', 'north_player': 'N', 'east_player': 'E',
                'south_player': 'S', "date.strftime('%Y.%m.%d')": 'DATE', 'str(contract.declarer)': 'DECLARER', 'str(contract)': 'CONTRACT',
                'str(taken_tricks)': 'TRICKS'}
        want = {'Board': ('BOARD', 'BOARD'), 'Dealer': ('DEALER', 'DEALER'), 'Vulnerable': ('VUL-PBN', 'VUL-PBN'),
                'Deal': ('DEAL-FROM-DEALER', 'DEAL-FROM-DEALER'), 'Scoring': ('SCORING', 'SCORING'), 'Event': ('EVENT', 'EVENT'),
                'Site': ('SITE', 'SITE'), 'West': ('W', 'W'), 'North': ('N', 'N'), 'East': ('E', 'E'), 'South': ('S', 'S'),
                'Date': ('DATE', 'DATE'), 'Declarer': ('', 'DECLARER'), 'Contract': ('Pass', 'CONTRACT'), 'Result': ('', 'TRICKS')}
        from .playing import Playing
        n_r4 = 0
        _, wbr_fn = repo.method('PbnWriter', 'write_board_result', 'C18.R4')
        wbr_params = {a.arg for a in wbr_fn.args.args + wbr_fn.args.kwonlyargs} - {'self'}
        for p in paths:
            for passed, tricks in ((True, None), (False, 0), (False, 7), (False, 13)):
                def m(node, passed=passed, tricks=tricks):
                    txt = ast.unparse(node)
                    if txt == 'contract.is_passed_out()':
                        return passed
                    if txt in leaf:
                        return leaf[txt]
                    if txt == 'taken_tricks':
                        return tricks
                    if txt == 'taken_tricks is None':
                        return tricks is None
                    if txt == 'taken_tricks is not None':
                        return tricks is not None
                    # any other value computed purely from the parameters is a recognised provenance (just not the required one)
                    if isinstance(node, (ast.Call, ast.Attribute)) and not isinstance(node, ast.Constant):
                        names = {n.id for n in ast.walk(node) if isinstance(n, ast.Name)}
                        if names and names <= wbr_params | {'str'} and not any(isinstance(n, ast.IfExp) for n in ast.walk(node)):
                            return f'<{txt}>'
                    return NOVALUE
                pe = PartialEvaluator(f, wm, [m])
                if not Playing.consistent(p, pe):
                    continue        # this path is not taken on a passed-out / played board
                for e in [e for e in p.events if e.kind == 'call' and e.method == 'write_line' and e.recv == 'self']:
                    a0 = e.args[0] if e.args else None
                    if not (isinstance(a0, ast.JoinedStr) and len([v for v in a0.values if isinstance(v, ast.FormattedValue)]) == 2):
                        continue
                    holes = [v.value for v in a0.values if isinstance(v, ast.FormattedValue)]
                    if not isinstance(holes[0], ast.Constant) or holes[0].value not in want:
                        continue
                    t = holes[0].value
                    v = pe.eval(holes[1])
                    got = v if isinstance(v, str) else None
                    if got is None:
                        raise AnalysisError('C18.R4', q_wbr, f'value of tag {t} (`{ast.unparse(holes[1])[:60]}`) cannot be traced to a parameter on a {"passed-out" if passed else "played"} board')
                    exp = want[t][0 if passed else 1]
                    n_r4 += 1
                    chk.require(got == exp, 'C18.R4', repo.where(wm, e.node), q_wbr, f'{t} <- {ast.unparse(holes[1])[:60]} [{"passed out" if passed else "played"}]',
                                f'tag {t} carries {exp!r} on a {"passed-out" if passed else "played"} board',
                                f'tag {t} is written as {got!r} on a {"passed-out" if passed else "played"} board; expected {exp!r} '
                                f'- PBN spelling / passed-out convention / dealer-first deal')
        chk.floor('C18.R4', 'tag values traced', n_r4, 60)

        # ---- R3 line length ---------------------------------------------------------------------------------------------------
        w_wl, q_wl = loc(repo, 'PbnWriter', 'write_line', 'C18.R3')
        _, wl = repo.method('PbnWriter', 'write_line', 'C18.R3')
        # (that length classes suffice is not argued from the syntax: write_line is folded on OPAQUE texts - fold.OpaqueText - whose characters
        # are unknown except for line breaks; an operation that depends on the characters leaves the abstraction -> analysis error)
        from ..fold import OpaqueText
        pw = repo.cls('PbnWriter')
        maxc = None
        for c in repo.mro(pw):
            if 'MAX_LINE_CHARS' in c.assigns and isinstance(c.assigns['MAX_LINE_CHARS'], ast.Constant):
                maxc = c.assigns['MAX_LINE_CHARS'].value
        chk.require(maxc == 255, 'C18.R3', w_wl, q_wl, f'MAX_LINE_CHARS = {maxc}', 'the line limit constant is 255', f'MAX_LINE_CHARS is {maxc}, PBN allows 255')
        first_bad = None
        ncase = 0
        for ln in list(range(1, 600)) + [764, 765, 766, 1019, 1020, 1021, 1100]:
            for nl in (False, True):
                ncase += 1
                text = OpaqueText.of_length(ln, nl)
                sink = Sink()
                obj = DV(pw, {'writer': sink})
                f.stubs['self.writer.write'] = sink.write
                try:
                    f.call_method(obj, 'write_line', text)
                except FoldRaise as r:
                    first_bad = first_bad or (ln, nl, f'raises {r.kind}')
                    continue
                except Unsupported as e:
                    raise AnalysisError('C18.R3', q_wl, f'left the foldable subset: {e}')
                out = [c if isinstance(c, OpaqueText) else OpaqueText(tuple(c)) if isinstance(c, str) else None for c in sink.chunks]
                ok = all(c is not None and len(c) <= 255 and c.syms[-1:] == ('\n',) and c.count('\n') == 1 for c in out) and \
                    [x for c in out for x in c.syms if x != '\n'] == [x for x in text.syms if x != '\n']
                if not ok and first_bad is None:
                    first_bad = (ln, nl, [len(c) if c is not None else '?' for c in out])
        f.stubs.pop('self.writer.write', None)
        chk.evals(ncase)
        chk.require(first_bad is None, 'C18.R3', w_wl, q_wl, 'write_line on every length class',
                    f'every chunk written is a line of at most 255 characters and the text is preserved ({ncase} length classes)',
                    f'text of length {first_bad[0]} (trailing newline: {first_bad[1]}) is written as chunks {first_bad[2]}' if first_bad else '')
        # the stream is written only through write_line
        n_w = 0
        for meth, fn in pw.methods.items():
            for n in ast.walk(fn):
                if isinstance(n, ast.Call) and ast.unparse(n.func) in ('self.writer.write', 'self.writer.writelines'):
                    n_w += 1
                    chk.require(meth == 'write_line', 'C18.R3', repo.where(wm, n), f'PbnWriter.{meth}', ast.unparse(n)[:60],
                                'the stream is written only inside write_line', f'PbnWriter.{meth} writes to the stream directly (bypasses the 255 limit)')
        chk.floor('C18.R3', 'stream writes in PbnWriter', n_w, 1)

        # ---- R5 writer lines read back by parse_board -----------------------------------------------------------------------------
        w_tp, q_tp = loc(repo, 'PbnWriter', 'write_tag_pair', 'C18.R5')
        tp_paths = [p for p in S.paths('PbnWriter', 'write_tag_pair', dyn='PbnWriter') if p.end[0] != 'raise']
        if len(tp_paths) != 1:
            raise AnalysisError('C18.R5', q_tp, 'write_tag_pair is expected to have one non-raising path')
        ev = [e for e in tp_paths[0].events if e.kind == 'call' and e.method == 'write_line']
        if len(ev) != 1:
            raise AnalysisError('C18.R5', q_tp, 'write_tag_pair does not call write_line exactly once')
        _, tpf = repo.method('PbnWriter', 'write_tag_pair', 'C18.R5')
        tagp, contp = tpf.args.args[1].arg, tpf.args.args[2].arg
        first_bad = None
        n = 0
        samples = VALUE_ALPHABET_SAMPLES + ['N:AKQJ.T98.765.432 T98.765.432.AKQJ 765.432.AKQJ.T98 432.AKQJ.T98.765', 'Pass', '4SXX', '2020.01.31']
        for val in samples:
            n += 1
            lines = []
            for t in MANDATORY:
                pe = PartialEvaluator(f, wm, [lambda node, t=t, val=val: (t if isinstance(node, ast.Name) and node.id == tagp else
                                                                         (val if isinstance(node, ast.Name) and node.id == contp else NOVALUE))])
                line = pe.eval(ev[0].args[0])
                if not isinstance(line, str):
                    raise AnalysisError('C18.R5', q_tp, 'tag-pair line is not a constant template of tag and content')
                lines.append(line + '\n')
            got = fold_parse_board(repo, 'C18.R5', lines)
            ok = got[0] == 'ok' and got[1] == {t: val for t in MANDATORY}
            if not ok and first_bad is None:
                first_bad = (val, got)
        chk.evals(n)
        chk.require(first_bad is None, 'C18.R5', w_tp, q_tp, 'writer tag-pair lines through parse_board',
                    f'the 15 tag-pair lines are read back verbatim for all {n} sample values over the property\'s alphabet',
                    f'value {first_bad[0]!r}: the 15 written tag lines are read back as {first_bad[1]}' if first_bad else '')

    try:
        structural()
    except AnalysisError as e_s:
        if chk.findings:
            raise
        chk.note(f'C18: structural rules not evaluated completely ({e_s.rule} at {e_s.anchor}: {e_s.why[:160]}); the verdict rests on the whole-file rule C18.R6 '
                 f'(complete reader / writer folded on file layouts and board sequences) and the rules evaluated before')
