"""Shared by C08-C11 and C20: valuation families, the session runner on top of sa.skeleton (E6),
the spec-level oracles (what the protocol entitles each seat to, what the log must record) and the
analysers that compare one abstract session against them.

Nothing of the subject runs: sa.skeleton interprets the ASTs of Server / PlayerThread / Client
over the role domain (seats, pairs, control tokens, opaque call/card/hand tokens with provenance).
One abstract session per valuation and scheduling policy; workers run in parallel processes."""
from __future__ import annotations

import itertools
import os
from concurrent.futures import ProcessPoolExecutor
from typing import Dict, List, Optional

from ..fold import DV, EV, FoldRaise, Unsupported
from ..index import AnalysisError, Repo
from ..skeleton import (ABidding, AContract, AEnd, AEvent, AFile, AHand, AHands, APlay, AQueue, ASock, AScore, AStr, ATricks,
                        Tok, World)

SEATS = 'NESW'
FORMAL = {'N': 'North', 'E': 'East', 'S': 'South', 'W': 'West'}          # protocol v18 seat names
VULTEXT = {'NONE': 'Neither', 'NS': 'N/S', 'EW': 'E/W', 'BOTH': 'Both'}    # protocol v18 vulnerability words
VULS = ['NONE', 'NS', 'EW', 'BOTH']
WINNERS = [
    [0] * 13,                                     # the opening leader keeps the lead
    [1] * 13,                                     # lead rotates clockwise: dummy leads trick 2
    [2, 3, 1, 0, 2, 1, 3, 0, 0, 1, 2, 3, 2],      # mixed
    [3] * 13,                                     # declarer wins trick 1 and loses the lead each time
    [1, 0, 0, 2, 2, 0, 3, 3, 0, 1, 0, 2, 0],      # dummy on lead for several consecutive tricks
]
POLICIES = ['rr', 'fifo', 'lifo', 'stall:main', 'rush:main', 'stall:T', 'rush:T', 'stall:client', 'rush:client',
            'stall:T1', 'stall:T3', 'stall:client-S', 'rush:client-W', 'rand:1', 'rand:2', 'rand:3', 'rand:4']


def nxt(s: str, k: int = 1) -> str:
    return SEATS[(SEATS.index(s) + k) % 4]


def partner(s: str) -> str:
    return nxt(s, 2)


def pair_of(s: str) -> str:
    return 'NS' if s in 'NS' else 'EW'


def board(dealer: str, declarer: Optional[str], extra: int = 0, winners: int = 0, vul: str = 'NONE', alerts=(), illegal_at=None, fault=None) -> dict:
    if declarer is None:
        b = dict(dealer=dealer, vul=vul, passed_out=True, n_calls=4, declarer=None, winners=WINNERS[0], alerts=tuple(alerts))
    else:
        k = (SEATS.index(declarer) - SEATS.index(dealer)) % 4
        n_calls = k + 4 + extra
        b = dict(dealer=dealer, vul=vul, passed_out=False, n_calls=n_calls, declarer=declarer, winners=list(WINNERS[winners]),
                 alerts=tuple(a if a >= 0 else n_calls + a for a in alerts))        # a negative index counts from the end: -2 = a closing pass
    if illegal_at is not None:
        b['illegal_at'] = illegal_at
    if fault is not None:
        b['fault'] = fault      # (kind, point, at): see World.fault
    return b


def val_id(val: dict) -> str:
    out = []
    for b in val['boards']:
        if b['passed_out']:
            out.append(f'{b["dealer"]}/passed-out/{b["vul"]}')
        else:
            w = WINNERS.index(b['winners']) if b['winners'] in WINNERS else 'x'
            out.append(f'{b["dealer"]}/{b["declarer"]}/{b["n_calls"]}c/w{w}/{b["vul"]}' + ('/alert' if b['alerts'] else ''))
        if b.get('illegal_at') is not None:
            out[-1] += f'/illegal call #{b["illegal_at"]}'
        if b.get('fault'):
            out[-1] += f'/{b["fault"][0]} at {b["fault"][1]} {b["fault"][2]}'
    return ' + '.join(out) + ('' if val.get('teams', ('A', 'B')) == ('A', 'B') else f' teams={val["teams"]}')


def family(tier: str) -> List[tuple]:
    """[(valuation, policy)] - complete product of roles in the thorough tier, a covering subset in quick."""
    out = []
    n = 0
    if tier == 'thorough':
        for d in SEATS:
            for c in SEATS:
                for wi in range(len(WINNERS)):
                    for ex in (0, 1, 3):
                        out.append((dict(boards=[board(d, c, ex, wi, VULS[n % 4], alerts=((0,) if n % 5 == 0 else ()))]), POLICIES[n % len(POLICIES)]))
                        n += 1
        for d in SEATS:
            for pol in POLICIES:
                out.append((dict(boards=[board(d, None, vul=VULS[n % 4])]), pol))
                n += 1
        multi = []
        for d in SEATS:
            for c in SEATS:
                multi.append([board(d, c, 1, n % 5, VULS[n % 4]), board(nxt(d), None, vul=VULS[(n + 1) % 4]), board(nxt(d, 2), nxt(c), 0, (n + 2) % 5, VULS[(n + 2) % 4])])
                multi.append([board(d, None, vul=VULS[n % 4]), board(nxt(d), c, 2, (n + 1) % 5, VULS[(n + 3) % 4], alerts=(1,))])
                multi.append([board(d, c, 0, (n + 3) % 5, VULS[n % 4]), board(d, None, vul=VULS[(n + 1) % 4])])
                n += 1
        for i, bs in enumerate(multi):
            for pol in (POLICIES[i % len(POLICIES)], POLICIES[(i + 7) % len(POLICIES)]):
                out.append((dict(boards=bs), pol))
        # one configuration under every policy (schedule independence shown on identical input)
        ref = [board('W', 'S', 1, 2, 'EW', alerts=(0,)), board('N', None, vul='BOTH'), board('E', 'E', 0, 4, 'NS')]
        for pol in POLICIES:
            out.append((dict(boards=ref), pol))
    else:
        for d in SEATS:
            for c in SEATS:
                out.append((dict(boards=[board(d, c, n % 3, n % 5, VULS[n % 4], alerts=((0,) if n % 4 == 1 else ()))]), POLICIES[n % len(POLICIES)]))
                n += 1
        for d in SEATS:
            out.append((dict(boards=[board(d, None, vul=VULS[n % 4])]), POLICIES[(n * 3) % len(POLICIES)]))
            n += 1
        ref = [board('W', 'S', 1, 2, 'EW', alerts=(0, -1)), board('N', None, vul='BOTH'), board('E', 'E', 0, 4, 'NS')]
        for pol in ('rr', 'stall:main', 'rush:main', 'stall:T', 'stall:client', 'rand:1', 'lifo', 'stall:T3'):
            out.append((dict(boards=ref), pol))
        out.append((dict(boards=[board('S', None, vul='NS'), board('W', 'N', 2, 1, 'NONE', alerts=(0, -2))]), 'rand:2'))        # an alerted closing pass
        out.append((dict(boards=[board('E', 'W', 0, 3, 'BOTH'), board('E', None, vul='EW')]), 'fifo'))
    return out


# ---------------------------------------------------------------------------------------------------------------------
# normal forms of abstract messages, and the spec-level oracle of what the table manager sends to a seat
# ---------------------------------------------------------------------------------------------------------------------
def nf(m) -> tuple:
    if isinstance(m, str):
        return ('text', m)
    if isinstance(m, Tok):
        m = AStr([m])
    if isinstance(m, AStr):
        toks = m.toks()
        pre = ''.join(m.lits()[:1]) if m.parts and isinstance(m.parts[0], str) else ''
        if len(toks) == 1 and len(m.parts) <= 2:
            t = toks[0]
            if t.kind == 'handtext':
                return ('hand', pre.lower(), t.board, t.owner.name)
            if t.kind == 'calltext':
                return ('call', pre.lower(), t.call.board, t.call.idx, t.call.src.name)
            if t.kind == 'cardtext' and isinstance(t.card, Tok):
                return ('card', pre.lower(), t.card.board, t.card.trick, t.card.pos, t.card.src.name)
        return ('other', repr(m))
    return ('other', repr(m))


def seating_oracle(seat: str, teams: Dict[str, str]) -> List[tuple]:
    return [('text', f'{FORMAL[seat]} {teams[seat]} seated'),
            ('text', f'Teams : N/S : "{teams["N"]}" E/W : "{teams["E"]}"')]


def play_positions(b: dict):
    """(trick, pos, active seat, leader) for the 52 plays of a played board, from the scripted trick winners."""
    leader = nxt(b['declarer'])
    for t in range(1, 14):
        for j in range(4):
            yield t, j, nxt(leader, j), leader
        leader = nxt(leader, b['winners'][t - 1])


def seat_oracle(val: dict, seat: str) -> List[tuple]:
    """What the protocol entitles `seat` to be sent, in order (spec level; independent of the code)."""
    out = []
    for k, b in enumerate(val['boards'], 1):
        out.append(('text', 'Start of board'))
        out.append(('text', f'Board number {k}. Dealer {FORMAL[b["dealer"]]}. {VULTEXT[b["vul"]]} vulnerable.'))
        out.append(('hand', f"{FORMAL[seat]}'s cards : ".lower(), k, seat))
        upto = b['n_calls'] if b.get('illegal_at') is None else b['illegal_at']
        for i in range(upto):
            s = nxt(b['dealer'], i)
            if s != seat:
                out.append(('call', f'{FORMAL[s]} '.lower(), k, i, s))
        if b.get('illegal_at') is not None:
            return out
        if b['passed_out']:
            continue
        decl = b['declarer']
        dummy = partner(decl)
        for t, j, a, leader in play_positions(b):
            conn = decl if a == dummy else a
            if j == 0 and conn == seat:
                out.append(('text', 'Dummy to lead' if a == dummy else f'{FORMAL[seat]} to lead'))
            if conn != seat:
                out.append(('card', f'{FORMAL[a]} plays '.lower(), k, t, j, a))
            if t == 1 and j == 0 and seat != dummy:
                out.append(('hand', "dummy's cards : ", k, dummy))
    out.append(('text', 'End of session'))
    return out


def kind_anchor(n: tuple) -> str:
    if n[0] == 'hand':
        return 'Server.playing_phase (dummy disclosure)' if n[1].startswith('dummy') else 'Server.deal (hand message)'
    if n[0] == 'call':
        return 'Server.bidding_phase (relay)'
    if n[0] == 'card':
        return 'Server.playing_phase (relay)'
    if n[0] == 'text':
        t = n[1]
        if t.endswith('to lead'):
            return 'PlayerThread._playing_phase (lead prompt)'
        if t.startswith('Board number'):
            return 'Server.deal (board header)'
        if t == 'Start of board':
            return 'PlayerThread.run (start of board)'
        if t == 'End of session':
            return 'Server.run / PlayerThread.run (end of session)'
        if t.startswith('Teams'):
            return 'PlayerThread._connect (Teams message)'
        if t.endswith('seated'):
            return 'PlayerThread._connect (seated reply)'
    return 'server.py'


def show_nf(n: tuple) -> str:
    if n[0] == 'text':
        return repr(n[1])
    if n[0] == 'hand':
        return f'"{n[1]}<hand of {n[3]}, board {n[2]}>"'
    if n[0] == 'call':
        return f'"{n[1]}<call #{n[3]} of board {n[2]} by {n[4]}>"'
    if n[0] == 'card':
        return f'"{n[1]}<card {n[4] + 1} of trick {n[3]}, board {n[2]}, by {n[5]}>"'
    return n[1][:100]


# ---------------------------------------------------------------------------------------------------------------------
# running one abstract session
# ---------------------------------------------------------------------------------------------------------------------
class Ob:
    """One obligation result, picklable."""

    def __init__(self, rule, ok, what, where='', qual='', construct='', reason=''):
        self.rule, self.ok, self.what, self.where, self.qual, self.construct, self.reason = rule, ok, what, where, qual, construct, reason


def run_world(repo: Repo, val: dict, policy: str, requests=None) -> World:
    w = World(repo, val, policy)
    w.add_server()
    teams = val.get('team_of', {'N': 'A', 'S': 'A', 'E': 'B', 'W': 'B'})
    if requests is None:
        for s in val.get('arrival', 'NESW'):
            w.add_client(s, teams[s])
    else:
        requests(w)
    w.run(timeout=float(os.environ.get('SA_SESSION_TIMEOUT', '120')))
    return w


def analysis_errors(w: World) -> List[str]:
    out = []
    for p in w.sched.procs:
        if p.state == 'error':
            e = p.error
            loc = w_where(w, p)
            out.append(f'{p.name} at {loc}: {type(e).__name__}: {str(e)[:200]}')
    if w.sched.overrun:
        out.append('abstract session exceeded its step/time budget')
    for role, kind, detail, where in w.anomalies:
        if kind == 'unsupported':
            out.append(f'{role} at {where}: {detail}')
    return out


def w_where(w: World, p) -> str:
    if p.cur_stmt is None or p.cur_mod is None:
        return '?'
    return f'{os.path.relpath(p.cur_mod.path, w.repo.root)}:{getattr(p.cur_stmt, "lineno", 0)}'


def stmt_text(p) -> str:
    import ast as _ast
    if p.cur_stmt is None:
        return '?'
    try:
        return _ast.unparse(p.cur_stmt).split('\n')[0][:90]
    except Exception:  # noqa
        return '?'


def seat_threads(w: World) -> Dict[str, str]:
    """seat name -> analyser process name of its PlayerThread (only threads that chose a seat)."""
    out = {}
    for i, obj in enumerate(w.thread_objs, 1):
        pl = obj.fields.get('player') if isinstance(obj, DV) else None
        if isinstance(pl, EV):
            out.setdefault(pl.name, []).append(f'T{i}')
    return out


def client_conns(w: World) -> Dict[str, str]:
    """seat -> connection id of the bundled client process of that seat."""
    out = {}
    for cid, owner in w.conn_owner.items():
        if owner.startswith('client-') and len(owner) == 8:
            out[owner[-1]] = cid
    return out


# ---------------------------------------------------------------------------------------------------------------------
# analysers
# ---------------------------------------------------------------------------------------------------------------------
def a_liveness(w: World, val: dict, tag: str) -> List[Ob]:
    """C09.R2: every process terminates, nothing is left in a queue, everybody was told the session ended,
    the log was closed before that, every seat thread was joined."""
    obs = []
    R = 'C09.R2'
    dl = w.sched.deadlock
    if dl:
        blocked = [p for p in w.sched.procs if p.state in ('blocked', 'killed') and p.what]
        main = next((p for p in w.sched.procs if p.name == 'main'), None)
        first = main if main is not None and main.what else (blocked[0] if blocked else None)
        detail = '; '.join(f'{p.name} blocked at {w_where(w, p)} `{stmt_text(p)}` on {p.what}' for p in w.sched.procs
                           if p.what and not p.state == 'done')
        obs.append(Ob(R, False, 'no deadlock', w_where(w, first) if first else '?', 'session', f'deadlock: main waits at `{stmt_text(main) if main else "?"}`',
                      f'[{tag}] every process is blocked: {detail[:900]}'))
        return obs
    obs.append(Ob(R, True, f'[{tag}] no deadlock under policy'))
    for p in w.sched.procs:
        if p.state == 'raised':
            obs.append(Ob(R, False, 'no process aborts', w_where(w, p), p.name.rstrip('0123456789'), f'{p.name.split("-")[0].rstrip("0123456789")} raises at `{stmt_text(p)}`',
                          f'[{tag}] {p.name} aborted at {w_where(w, p)} `{stmt_text(p)}`: {p.error}'))
        elif p.state == 'done':
            obs.append(Ob(R, True, f'{p.name} runs to completion'))
    srv = w.server_obj
    if isinstance(srv, DV):
        for attr in ('sent_message_queues', 'received_message_queues'):
            d = srv.fields.get(attr)
            if isinstance(d, dict):
                for s, q in d.items():
                    obs.append(Ob(R, not q.items, f'queue {q.label()} is empty at the end', 'bridge_env/network_bridge/server.py', 'Server', f'{q.label()} not drained',
                                  f'[{tag}] {len(q.items)} message(s) left in {q.label()} at the end of the session: {[show_nf(nf(x)) for x in q.items[:3]]}'))
    conns = client_conns(w)
    for s in SEATS:
        cid = conns.get(s)
        sent = w.server_sent(cid) if cid else []
        ok = bool(sent) and sent[-1] == 'End of session'
        obs.append(Ob(R, ok, f'client {s} is sent "End of session" last', 'bridge_env/network_bridge/server.py', 'PlayerThread.run', f'End of session to {s}',
                      f'[{tag}] the last message sent to seat {s} is {show_nf(nf(sent[-1])) if sent else "nothing"}, not "End of session"'))
    logs = [f for f in w.files if 'w' in str(f.mode)]
    ok = len(logs) == 1 and logs[0].closed
    obs.append(Ob(R, ok, 'the log file is closed', 'bridge_env/network_bridge/server.py', 'Server.run', 'log file closed', f'[{tag}] log files opened {len(logs)}, closed {[f.closed for f in logs]}'))
    nrec = len(w.log_records)
    obs.append(Ob(R, nrec == len(val['boards']), 'every board is played and logged', 'bridge_env/network_bridge/server.py', 'Server.run', 'boards logged',
                  f'[{tag}] {nrec} boards logged, {len(val["boards"])} configured'))
    # the closing of the log precedes the END_SESSION tokens
    idx_close = next((i for i, e in enumerate(w.events) if e[1] == 'file-close'), None)
    idx_end = next((i for i, e in enumerate(w.events) if e[1] == 'put' and (e[3] == 'End of session' or getattr(e[3], 'value', None) == 'End of session')), None)
    obs.append(Ob(R, idx_close is not None and idx_end is not None and idx_close < idx_end, 'log closed before the seats are told the session is over',
                  'bridge_env/network_bridge/server.py', 'Server.run', 'END_SESSION before log close',
                  f'[{tag}] END_SESSION is handed to the seat threads before the log is closed'))
    joined = {e[2] for e in w.events if e[1] == 'thread-join'}
    st = seat_threads(w)
    for s in SEATS:
        ts = st.get(s, [])
        seated = [t for t in ts if any(p.name == t and p.state == 'done' for p in w.sched.procs)]
        obs.append(Ob(R, bool(seated) and any(t in joined for t in seated), f'main joins the thread of seat {s}', 'bridge_env/network_bridge/server.py', 'Server.run',
                      f'join of seat thread {s}', f'[{tag}] the thread serving seat {s} ({ts}) is never joined by the main thread'))
    for role, kind, detail, where in w.anomalies:
        if kind == 'discipline':
            obs.append(Ob('C09.R1', False, 'KPN discipline', where, role, detail, f'[{tag}] {detail} (by {role} at {where})'))
    return obs


def a_entitlement(w: World, val: dict, tag: str) -> List[Ob]:
    """C10.R4: the message stream of every connection equals the protocol's entitlement, message by message."""
    obs = []
    R = 'C10.R4'
    conns = client_conns(w)
    teams = val.get('team_of', {'N': 'A', 'S': 'A', 'E': 'B', 'W': 'B'})
    for s in SEATS:
        cid = conns.get(s)
        if cid is None:
            obs.append(Ob(R, False, 'client connected', '?', 'session', f'no connection for {s}', f'[{tag}] client {s} never connected'))
            continue
        actual = [nf(m) for m in w.server_sent(cid)]
        wheres = [x for side, x in w.conn_where.get(cid, []) if side == 'server']
        expect = seating_oracle(s, teams) + seat_oracle(val, s)
        n = min(len(actual), len(expect))
        diff = next((i for i in range(n) if actual[i] != expect[i]), None)
        if diff is None and len(actual) == len(expect):
            obs.append(Ob(R, True, f'[{tag}] seat {s}: {len(actual)} messages, exactly the entitlement'))
            # dummy's hand strictly between the opening lead and the second card, on the two-way stream
            both = [nf(m) for _, m in w.conn_trace.get(cid, [])]
            for k, b in enumerate(val['boards'], 1):
                if b['passed_out'] or b.get('illegal_at') is not None or s == partner(b['declarer']):
                    continue
                try:
                    i_d = next(i for i, x in enumerate(both) if x[0] == 'hand' and x[1].startswith('dummy') and x[2] == k)
                    i_1 = next(i for i, x in enumerate(both) if x[0] == 'card' and x[2:5] == (k, 1, 0))
                    i_2 = next(i for i, x in enumerate(both) if x[0] == 'card' and x[2:5] == (k, 1, 1))
                    ok = i_1 < i_d < i_2
                except StopIteration:
                    ok = False
                obs.append(Ob(R, ok, f'seat {s} board {k}: dummy shown after the opening lead and before the second card', 'bridge_env/network_bridge/server.py',
                              'Server.playing_phase', f'dummy disclosure timing for {("declarer" if s == b["declarer"] else "defender")}',
                              f'[{tag}] seat {s}, board {k}: the dummy hand is not disclosed strictly between card 1 and card 2 of trick 1'))
            continue
        if diff is None:
            diff = n
        got = actual[diff] if diff < len(actual) else None
        want = expect[diff] if diff < len(expect) else None
        where = wheres[diff] if diff < len(wheres) else 'bridge_env/network_bridge/server.py'
        origin = ''
        if got is not None:
            raw = w.server_sent(cid)[diff]
            for lab, x, wh in reversed(w.put_log):
                if x is raw and lab.endswith(f'[{s}]'):
                    origin = f' (queued at {wh})'
                    where = wh
                    break
        anchor = kind_anchor(got if got is not None else want)
        role = seat_role(val, s, got if got is not None else want)
        what = (f'{role} is sent {show_nf(got)}' if got is not None else f'{role} is not sent {show_nf(want)}')
        obs.append(Ob(R, False, 'entitlement', where, anchor, f'{anchor}: {role} {"gets " + got[0] if got is not None else "misses " + want[0]} {_shape(got if got is not None else want)}',
                      f'[{tag}] seat {s}, message #{diff + 1}: {what}{origin}; the protocol entitles it to {show_nf(want) if want is not None else "nothing more"} at this point'))
    for k, setting in enumerate(getattr(w, 'board_settings', []) or [], 1):
        hs = getattr(setting, 'hands', None)
        if isinstance(hs, AHands):
            obs.append(Ob(R, hs.consumed_by is None, f'[{tag}] board {k}: the configured deal is left intact (a later board sharing it deals the same 13 cards to every seat)',
                          'bridge_env/network_bridge/server.py', 'Server.run', 'configured deal consumed',
                          f'[{tag}] board {k}: the configured deal object is handed to the play engine of {hs.consumed_by}, which removes the cards as they are played; a later board that shares '
                          f'the object (a replay, `[setting] * n`, `setting._replace(...)`) then tells every seat an empty hand'))
    # a seat thread reads only its own queue; only main feeds it
    srv = w.server_obj
    st = seat_threads(w)
    if isinstance(srv, DV):
        for attr, reader_is_seat in (('sent_message_queues', True), ('received_message_queues', False)):
            d = srv.fields.get(attr)
            if not isinstance(d, dict):
                continue
            for seat_ev, q in d.items():
                mine = set(st.get(seat_ev.name, []))
                seat_side = q.getters if reader_is_seat else q.putters
                main_side = q.putters if reader_is_seat else q.getters
                ok = seat_side <= mine and main_side <= {'main'}
                obs.append(Ob('C10.R4', ok, f'{q.label()}: single producer / single consumer, the seat end is seat {seat_ev.name}\'s own thread',
                              'bridge_env/network_bridge/server.py', 'PlayerThread', f'{q.label()} touched by a foreign thread',
                              f'[{tag}] {q.label()}: read by {sorted(q.getters)}, written by {sorted(q.putters)}; the thread of seat {seat_ev.name} is {sorted(mine)}'))
    return obs


def _shape(n) -> str:
    if n is None:
        return ''
    if n[0] == 'text':
        t = n[1]
        for key in ('to lead', 'Board number', 'Start of board', 'End of session', 'Teams', 'seated'):
            if key in t:
                return f'"{key}"'
        return 'text'
    return n[0]


def seat_role(val: dict, s: str, n) -> str:
    """Describe seat `s` by its role on the board the message belongs to (stable finding keys)."""
    if n is None or n[0] == 'text' or len(n) < 3 or not isinstance(n[2], int) or n[2] > len(val['boards']):
        return 'a seat'
    b = val['boards'][n[2] - 1]
    if b['passed_out']:
        return 'a seat'
    if s == b['declarer']:
        return 'declarer'
    if s == partner(b['declarer']):
        return 'dummy'
    return 'a defender'


def a_duality(w: World, val: dict, tag: str) -> List[Ob]:
    """C11.R4: the bundled client and the seat thread are dual; every mirror is built from, and fed,
    exactly what the table manager's engine was."""
    obs = []
    R = 'C11.R4'
    bad = [a for a in w.anomalies if a[1] in ('engine', 'engine-args', 'policy-args', 'text')]
    seen = set()
    for role, kind, detail, where in bad:
        k = (role.split('-')[0], kind, where)
        if k in seen:
            continue
        seen.add(k)
        obs.append(Ob(R, False, 'replica agreement', where, role.split('-')[0], f'{kind}: {_generalise(detail)}', f'[{tag}] {detail} (at {where})'))
    if not bad:
        obs.append(Ob(R, True, f'[{tag}] every auction/play mirror is constructed from the announced dealer, vulnerability, contract and own hand, and every '
                               f'call and card it is fed is the one the table manager applied at the same step'))
    for cid, tr in w.conn_trace.items():
        for i, (side, m) in enumerate(tr):
            if side == 'server' and isinstance(m, str) and m.upper().startswith('ERROR'):
                wh = [x for sd, x in w.conn_where.get(cid, [])][i]
                owner = w.conn_owner.get(cid, '?')
                obs.append(Ob(R, False, 'no ERROR reply to a conforming client', wh, 'PlayerThread._check_message', f'ERROR reply to a conforming client after `{_last_client(tr, i)}`',
                              f'[{tag}] the seat thread answered {owner} with "{m}" after the client sent {_last_client(tr, i)!r}'))
    for p in w.sched.procs:
        if p.name.startswith('client-'):
            if p.state == 'done':
                obs.append(Ob(R, True, f'{p.name} completes the session'))
            elif p.state == 'raised':
                obs.append(Ob(R, False, 'client completes', w_where(w, p), 'Client', f'Client raises at `{stmt_text(p)}`',
                              f'[{tag}] {p.name} aborted at {w_where(w, p)} `{stmt_text(p)}`: {p.error}'))
    # at the end of each board every replica holds the same auction, contract, trick history and turn as the table manager's engine
    for k, b in enumerate(val['boards'], 1):
        if b.get('illegal_at') is not None:
            continue
        for kind in ('auction', 'play'):
            if kind == 'play' and b['passed_out']:
                continue
            reps = {owner: e for kd, owner, bd, e in w.engines if kd == kind and bd == k}
            tm = reps.get('main')
            if tm is None:
                obs.append(Ob(R, False, 'table manager engine', 'bridge_env/network_bridge/server.py', 'Server', f'no {kind} engine for a board', f'[{tag}] board {k}: the table manager built no {kind} engine'))
                continue
            for s in SEATS:
                c = reps.get(f'client-{s}')
                if c is None:
                    obs.append(Ob(R, False, 'client mirror', 'bridge_env/network_bridge/client.py', 'Client', f'client builds no {kind} mirror', f'[{tag}] board {k}: client {s} built no {kind} mirror'))
                    continue
                if kind == 'auction':
                    same = c.bid_history == tm.bid_history and c.active_player == tm.active_player and c.contract() == tm.contract()
                    what = f'calls {len(c.bid_history)}/{len(tm.bid_history)}, turn {c.active_player}/{tm.active_player}'
                else:
                    same = (c.cards_seen, c.playing_history, c.trick_num, c.leader, c.active_player, c.declarer, c.dummy) == \
                        (tm.cards_seen, tm.playing_history, tm.trick_num, tm.leader, tm.active_player, tm.declarer, tm.dummy)
                    what = f'cards {len(c.cards_seen)}/{len(tm.cards_seen)}, trick {c.trick_num}/{tm.trick_num}, leader {c.leader}/{tm.leader}'
                obs.append(Ob(R, same, f'[{tag}] board {k}: client {s} {kind} mirror = table manager ({what})', 'bridge_env/network_bridge/client.py',
                              'Client.bidding_phase' if kind == 'auction' else 'Client.playing_phase', f'client {kind} mirror differs from the table manager at the end of a board',
                              f'[{tag}] board {k}: client {s}\'s {kind} mirror ends with {what} (client/table manager)'))
    return obs


def _generalise(detail: str) -> str:
    import re
    return re.sub(r'\b(board|trick|#)\s*\d+', r'\1 k', re.sub(r'Player\.[NESW]|\b(North|East|South|West)\b|client-[NESW]|\bT\d\b', 'X', detail))[:160]


def _last_client(tr, i):
    for side, m in reversed(tr[:i]):
        if side == 'client':
            return m if isinstance(m, str) else repr(m)
    return None


def a_log(w: World, val: dict, tag: str) -> List[Ob]:
    """C08 (skeleton part): each log record carries exactly the configured board and what the seats sent."""
    obs = []
    R = 'C08.R7'
    S = 'bridge_env/network_bridge/server.py'
    recs = w.log_records
    boards = val['boards']
    teams = val.get('team_of', {'N': 'A', 'S': 'A', 'E': 'B', 'W': 'B'})
    if any(b.get('illegal_at') is not None for b in boards):
        return obs
    for role, kind, detail, where in w.anomalies:
        if kind == 'random':
            obs.append(Ob('C08.R5', False, 'no random choice for a configured value', where, 'Server.run', 'random choice although the board is configured', f'[{tag}] {detail} (at {where})'))
    obs.append(Ob(R, len(recs) == len(boards), 'one record per board', S, 'Server.run', 'record count', f'[{tag}] {len(recs)} records for {len(boards)} boards'))
    f0 = w.folder0
    for k, (rec, b) in enumerate(zip(recs, boards), 1):
        def req(ok, what, construct, reason):
            obs.append(Ob(R, ok, f'[{tag}] board {k}: {what}', S, 'Server.run', construct, f'[{tag}] board {k}: {reason}'))
        setting = w.board_settings[k - 1]
        req(rec.get('board_id') == setting.board_id, 'board id is the configured one', 'log field board_id', f'board_id logged is {rec.get("board_id")!r}, configured {setting.board_id!r}')
        req(rec.get('dealer') == w.seat(b['dealer']), 'dealer is the configured one', 'log field dealer', f'dealer logged is {rec.get("dealer")}, configured {b["dealer"]}')
        deal = rec.get('deal')
        req(deal is setting.hands or (isinstance(deal, AHands) and deal.origin() is setting.hands and not deal.stale), 'deal logged is the configured deal (the object or a copy taken while it was intact)',
            'log field deal', f'deal logged is {deal!r}' + (' copied after the play engine had consumed it' if getattr(deal, 'stale', False) else f', not the configured {setting.hands!r}'))
        req(setting.hands.consumed_by is None, 'the configured deal of the board is left intact (the play engine works on a private copy)', 'configured deal consumed',
            f'the configured deal object of the board was handed to the play engine of {setting.hands.consumed_by}, which removes the cards as they are played: a later board built on the same '
            f'object (a replay, `[setting] * n`, `setting._replace(...)`) is dealt empty hands and logs an empty deal')
        req(isinstance(deal, AHands) and deal.consumed_by is None, 'the logged deal was not handed to the play engine (which consumes it)', 'log field deal (consumed)',
            f'the deal object logged was consumed by the play engine of {getattr(deal, "consumed_by", None)} (cards removed as they are played)')
        req(rec.get('dda') is setting.dda, 'dda passed through', 'log field dda', f'dda logged is {rec.get("dda")!r}')
        req(rec.get('north_player') == teams['N'] and rec.get('south_player') == teams['S'] and rec.get('east_player') == teams['E'] and rec.get('west_player') == teams['W'],
            'player names are the team names of the seats', 'log fields *_player',
            f'names logged N/E/S/W = {[rec.get(x + "_player") for x in ("north", "east", "south", "west")]}, seated {teams}')
        calls = rec.get('bid_history')
        want_calls = [(k, i, nxt(b['dealer'], i)) for i in range(b['n_calls'])]
        got_calls = [(c.board, c.idx, c.src.name) if isinstance(c, Tok) and c.kind == 'call' else repr(c) for c in (calls or [])] if isinstance(calls, list) else repr(calls)
        req(got_calls == want_calls, 'auction logged = the calls the seats sent, in order', 'log field bid_history', f'calls logged {got_calls} differ from the calls sent {want_calls}')
        con = rec.get('contract')
        want_con = AContract(w, k, b, w.vul(b['vul']))
        req(con == want_con, 'contract (declarer, vulnerability) is the one the auction produced', 'log field contract', f'contract logged {con!r} (vul {getattr(con, "vul", None)}), auction gave {want_con!r} (vul {want_con.vul})')
        if b['passed_out']:
            req(rec.get('play_history') is None, 'no play on a passed-out board', 'log field play_history (passed out)', f'play_history logged for a passed-out board: {rec.get("play_history")!r}')
            req(rec.get('taken_trick_num') is None, 'no trick count on a passed-out board', 'log field taken_trick_num (passed out)', f'trick count logged for a passed-out board: {rec.get("taken_trick_num")!r}')
            sc = rec.get('scores')
            ok = isinstance(sc, dict) and len(sc) == 2 and {getattr(p, 'name', None) for p in sc} == {'NS', 'EW'} and all(v == 0 and not isinstance(v, AScore) for v in sc.values())
            req(ok, 'zero scores on a passed-out board', 'log field scores (passed out)', f'scores logged for a passed-out board: {sc!r}')
            continue
        ph = rec.get('play_history')
        want_ph = []
        for t, j, a, leader in play_positions(b):
            if j == 0:
                want_ph.append((t, leader, []))
            want_ph[-1][2].append((k, t, j, a))
        got_ph = []
        if isinstance(ph, list):
            for e in ph:
                try:
                    got_ph.append((e[0], e[1].name, [(c.board, c.trick, c.pos, c.src.name) for c in e[2]]))
                except Exception:  # noqa
                    got_ph.append(repr(e))
        req(got_ph == want_ph, 'play logged = the cards the seats sent, trick by trick, with the leaders', 'log field play_history', f'play history logged differs from the cards sent: first difference {_first_diff(got_ph, want_ph)}')
        dpair = f0._attr(w.seat(b['declarer']), 'pair')
        tt = rec.get('taken_trick_num')
        want_tt = ATricks(k, dpair, tricks_of_declarer(b))
        req(isinstance(tt, ATricks) and tt == want_tt, 'trick count is the one of declarer\'s side', 'log field taken_trick_num', f'trick count logged is {tt!r}, declarer {b["declarer"]} plays for {dpair.name} and takes {int(want_tt)}')
        sc = rec.get('scores')
        ok = False
        why = f'scores logged: {sc!r}'
        if isinstance(sc, dict) and len(sc) == 2:
            opp = [p for p in sc if p != dpair]
            if dpair in sc and len(opp) == 1 and getattr(opp[0], 'name', None) in ('NS', 'EW'):
                a, o = sc[dpair], sc[opp[0]]
                ok = isinstance(a, AScore) and isinstance(o, AScore) and a.sign == 1 and o.sign == -1 and a.contract == want_con and o.contract == want_con and \
                    isinstance(a.tricks, ATricks) and a.tricks == want_tt and isinstance(o.tricks, ATricks) and o.tricks == a.tricks
        req(ok, "declarer's side gets calc_score(contract, its tricks), the other side the negative", 'log field scores', why + f'; expected {{{dpair.name}: score(contract, tricks of {dpair.name}), other: -score}}')
    return obs


def tricks_of_declarer(b: dict) -> int:
    """Tricks won by declarer's side under the winner script of the board (winners[t] = seats clockwise from the leader of trick t
    to its winner; the opening leader sits on declarer's left)."""
    leader = nxt(b['declarer'])
    n = 0
    for steps in b['winners'][:13]:
        leader = nxt(leader, steps)
        if leader in (b['declarer'], partner(b['declarer'])):
            n += 1
    return n


def _first_diff(a, b):
    for i, (x, y) in enumerate(itertools.zip_longest(a, b)):
        if x != y:
            return f'entry {i + 1}: logged {x!r}, sent {y!r}'[:300]
    return 'none'


def a_policy(w: World, val: dict, tag: str) -> List[Ob]:
    """C06.R3 (client side): whenever the bundled client asks its playing policy for a card, the hand it passes is the hand
    of the seat that is to play (its own, or dummy's when it is declarer) of the current board, together with its own mirror."""
    obs = []
    bad = [a for a in w.anomalies if a[1] == 'policy-args']
    seen = set()
    for role, kind, detail, where in bad:
        if where in seen:
            continue
        seen.add(where)
        obs.append(Ob('C06.R3', False, 'policy arguments', where, 'Client.playing_phase', f'policy given the wrong hand / engine: {_generalise(detail)}', f'[{tag}] {detail} (at {where})'))
    own = sum(1 for seat, who, hand in w.policy_hands if seat == who)
    dum = sum(1 for seat, who, hand in w.policy_hands if seat != who)
    if not bad:
        obs.append(Ob('C06.R3', True, f'[{tag}] {own} cards chosen from the own hand and {dum} from dummy\'s hand: always the hand of the seat on turn, as kept up to date by the observer'))
    return obs


def abort_family(tier: str) -> List[tuple]:
    """Sessions of three boards in which board k (1..3) is hit by an offending action or an interrupt at a given point."""
    out = []
    n = 0
    kinds = []
    # auction: illegal call (engine answers ILLEGAL), unparseable call, interrupt - at the first, a middle and the last call
    for j in (0, 2, -1):
        kinds.append(('illegal', 'call', j))
        kinds.append(('malformed', 'parse_call', j))
        kinds.append(('interrupt', 'call', j))
    # play: card refused by the engine (not held / out of turn), unparseable card, interrupt - first card, mid-trick, last card of the board
    for at in ((1, 0), (1, 3), (7, 2), (13, 3)):
        kinds.append(('refuse', 'card', at))
        kinds.append(('malformed', 'parse_card', at))
    kinds.append(('interrupt', 'card', (5, 1)))
    kinds.append(('interrupt', 'card', (13, 3)))
    quick_ks = None
    if tier == 'quick':
        # every kind of offence at one point each, rotating over the boards; the illegal call on every board
        kinds = [('illegal', 'call', 0), ('illegal', 'call', -1), ('malformed', 'parse_call', 2), ('interrupt', 'call', 0), ('refuse', 'card', (1, 0)),
                 ('refuse', 'card', (13, 3)), ('malformed', 'parse_card', (7, 2)), ('interrupt', 'card', (5, 1)), ('interrupt', 'card', (13, 3)),
                 ('malformed', 'parse_call', -1), ('refuse', 'card', (7, 2))]
        quick_ks = {i: ((1, 2, 3) if i == 0 else (i % 3 + 1,)) for i in range(len(kinds))}
    for ki, (kind, point, at) in enumerate(kinds):
        for k in (1, 2, 3):
            if quick_ks is not None and k not in quick_ks[ki]:
                continue
            d = SEATS[(n + k) % 4]
            c = SEATS[(n + 2 * k + 1) % 4]
            bs = [board(d, c, 1, (n + 1) % 5, VULS[n % 4]), board(nxt(d), None if (n % 3 == 0 and k != 2) else nxt(c), 2, (n + 2) % 5, VULS[(n + 1) % 4]),
                  board(nxt(d, 2), nxt(c, 2), 0, (n + 3) % 5, VULS[(n + 2) % 4])]
            tgt = bs[k - 1]
            if tgt['passed_out']:
                # the hit board must be played when the fault is in the play; in the auction a passed-out board has 4 calls
                if point in ('card', 'parse_card'):
                    bs[k - 1] = tgt = board(tgt['dealer'], nxt(tgt['dealer']), 1, (n + 2) % 5, tgt['vul'])
            a = at
            if point in ('call', 'parse_call'):
                a = at if at >= 0 else tgt['n_calls'] + at
                a = min(a, tgt['n_calls'] - 1)
            if kind == 'illegal':
                tgt['illegal_at'] = a
            else:
                tgt['fault'] = (kind, point, a)
            out.append((dict(boards=bs, abort=k), POLICIES[n % len(POLICIES)]))
            n += 1
    return out


def a_abort(w: World, val: dict, tag: str) -> List[Ob]:
    """C13: a session abandoned at board k leaves a complete, parseable log with exactly the k-1 finished boards."""
    import json as _json
    obs = []
    R = 'C13.R6'
    S = 'bridge_env/network_bridge/server.py'
    k = val['abort']
    main = next(p for p in w.sched.procs if p.name == 'main')
    hit = val['boards'][k - 1]
    what = f'illegal call #{hit["illegal_at"]}' if hit.get('illegal_at') is not None else f'{hit["fault"][0]} at {hit["fault"][1]} {hit["fault"][2]}'
    if main.state != 'raised':
        obs.append(Ob(R, False, 'the table manager abandons the session', w_where(w, main), 'Server.run', f'offending action does not stop the session ({what.split(" at ")[0].split(" #")[0]})',
                      f'[{tag}] board {k} is hit by {what} but the table manager goes on (main thread ends {main.state}): the offending action is ignored '
                      f'and the boards logged from here on are not the boards played'))
        return obs
    fl = w.fs.get('out.json')
    if fl is None:
        others = sorted(w.fs)
        obs.append(Ob(R, False, 'the output file exists after the abort', S, 'Server.run', 'no file at the configured output path after an abort',
                      f'[{tag}] session abandoned at board {k} ({what}): there is no file at the configured output path'
                      + (f'; what was written is in {others} (moved into place only after a complete session?)' if others else '')))
        return obs

    def piece(x):
        if isinstance(x, Tok) and x.kind == 'record':
            return '{"record": %d}' % x.n
        if isinstance(x, AStr):
            return ''.join(piece(q) for q in x.parts)
        return x if isinstance(x, str) else '\x00'
    text = ''.join(piece(x) for x in fl.writes)
    where = w_where(w, main)
    try:
        doc = _json.loads(text)
        ok = isinstance(doc, dict) and len(doc) == 1 and isinstance(next(iter(doc.values())), list)
    except ValueError:
        doc, ok = None, False
    obs.append(Ob(R, ok, f'[{tag}] after the abort at board {k} ({what}) the output file is one parseable JSON document', S, 'Server.run',
                  'output file after an abort is not a complete JSON document',
                  f'[{tag}] session abandoned at board {k} ({what}, exception raised at {where}): the output file reads {text[:60]!r}...{text[-30:]!r} - not a complete JSON document'))
    if ok:
        recs = next(iter(doc.values()))
        got = [r.get('record') if isinstance(r, dict) else r for r in recs]
        obs.append(Ob(R, got == list(range(1, k)), f'[{tag}] the log holds exactly the {k - 1} board(s) finished before the abort', S, 'Server.run',
                      'boards in the log after an abort',
                      f'[{tag}] session abandoned at board {k} ({what}): the log holds the records {got}, finished before the abort were boards {list(range(1, k))}'))
        done = [r for r in w.log_records]
        obs.append(Ob(R, len(done) == k - 1, f'[{tag}] no record is written for the abandoned board', S, 'Server.run', 'record written for the abandoned board',
                      f'[{tag}] {len(done)} record(s) written although only {k - 1} board(s) were finished'))
    obs.append(Ob(R, fl.closed, f'[{tag}] the output file is closed', S, 'Server.run', 'output file left open after an abort', f'[{tag}] the output file is not closed after the abort at board {k}'))
    return obs


ANALYSERS = {'abort': a_abort, 'policy': a_policy, 'liveness': a_liveness, 'entitlement': a_entitlement, 'duality': a_duality, 'log': a_log}

_REPO: Dict[str, Repo] = {}


def _digest(w: World, val: dict) -> dict:
    """What must not depend on the schedule: every connection's two-way stream and the log records."""
    conns = client_conns(w)
    d = {}
    for s, cid in sorted(conns.items()):
        d[f'conn-{s}'] = [(side, nf(m)) for side, m in w.conn_trace.get(cid, [])]
    d['log'] = [repr({k: v for k, v in r.items() if not k.startswith('_')}) for r in w.log_records]
    return d


def worker(args):
    root, val, policy, analysers = args
    repo = _REPO.get(root)
    if repo is None:
        repo = _REPO[root] = Repo(root)
    tag = f'{val_id(val)} | {policy}'
    try:
        w = run_world(repo, val, policy)
    except (AnalysisError, Unsupported) as e:
        return dict(tag=tag, errors=[f'{type(e).__name__}: {e}'], obs=[], digest=None, stats={})
    errs = analysis_errors(w)
    obs: List[Ob] = []
    if not errs:
        for a in analysers:
            obs += ANALYSERS[a](w, val, tag)
    import hashlib
    dg = hashlib.sha1(repr(_digest(w, val)).encode()).hexdigest() if not errs else None
    return dict(tag=tag, errors=errs, obs=obs, digest=dg, vid=val_id(val), policy=policy,
                stats=dict(events=len(w.events), switches=w.sched.switches, procs=len(w.sched.procs)))


def run_family(chk, analysers: List[str], fam=None, jobs: int = 16) -> List[dict]:
    fam = fam if fam is not None else family(chk.tier)
    work = [(chk.repo.root, val, pol, analysers) for val, pol in fam]
    if os.environ.get('SA_SERIAL') == '1':
        res = [worker(x) for x in work]
    else:
        with ProcessPoolExecutor(max_workers=__import__('sa.rules.common', fromlist=['pool_size']).pool_size(len(work), jobs)) as ex:
            res = list(ex.map(worker, work, chunksize=1))
    errs = [f'[{r["tag"]}] {e}' for r in res for e in r['errors']]
    if errs:
        raise AnalysisError('E6', 'abstract session', f'{len(errs)} abstract session(s) left the supported subset: ' + ' || '.join(errs[:3]))
    return res


def record(chk, res: List[dict], rules_prefix=None, as_rule=None):
    """Feed the obligations of the abstract sessions into the check (failures are de-duplicated by construct)."""
    for r in res:
        for o in r['obs']:
            if as_rule:
                o.rule = as_rule
            if rules_prefix and not o.rule.startswith(rules_prefix):
                continue
            if o.ok:
                chk.ok(o.rule, o.where or 'abstract session', o.what)
            else:
                chk.fail(o.rule, o.where or '?', o.qual or 'session', o.construct or o.what, o.reason)
        chk.evals(r['stats'].get('events', 0))


def schedule_independence(chk, res: List[dict], rule: str):
    """Runs of the same valuation under different policies must produce identical streams and records."""
    by = {}
    for r in res:
        by.setdefault(r['vid'], []).append(r)
    groups = 0
    for vid, rs in by.items():
        if len(rs) < 2:
            continue
        groups += 1
        ds = {r['digest'] for r in rs}
        chk.require(len(ds) == 1, rule, 'abstract session', 'session', f'schedule-dependent outcome',
                    f'[{vid}] {len(rs)} scheduling policies give identical connection streams and log records',
                    f'[{vid}] connection streams / log records differ between scheduling policies {[r["policy"] for r in rs]}')
    return groups


# ---------------------------------------------------------------------------------------------------------------------
# C20: admission
# ---------------------------------------------------------------------------------------------------------------------
def admission_spec(table: Dict[str, Optional[str]], seat: str, team: str, version: int):
    """Spec-level verdict of one well-formed request against a seat table: ('seated'|'rejected', reason, table after)."""
    if version != 18:
        return 'rejected', 'version', dict(table)
    if table[seat] is not None:
        return 'rejected', 'seat taken', dict(table)
    pt = table[partner(seat)]
    if pt is not None and pt != team:
        return 'rejected', 'partner team', dict(table)
    t = dict(table)
    t[seat] = team
    return 'seated', '', t


def connect_case_worker(args):
    """C20.R1: PlayerThread._connect interpreted alone against one seat table and one request."""
    root, cases = args
    repo = _REPO.get(root)
    if repo is None:
        repo = _REPO[root] = Repo(root)
    out = []
    for table, seat, team, version in cases:
        out.append(_connect_case(repo, table, seat, team, version))
    return out


def _connect_case(repo: Repo, table, seat, team, version):
    from ..skeleton import ABarrier
    w = World(repo, dict(boards=[]), 'fifo')
    cid = 'c0'
    cl, sv = AEnd(w, cid, 'client'), AEnd(w, cid, 'server')
    cl.peer, sv.peer = sv, cl
    tbl = {w.seat(s): t for s, t in table.items()}
    ev = AEvent(w)
    result = {}

    def thread_body(f):
        obj = f._construct(repo.cls('PlayerThread', 'C20.R1'), [], dict(connection=sv, event_sync=ABarrier(w, 1), event_thread=ev, sent_message_queues={},
                                                                    received_message_queues={}, players_event={}, team_names=tbl))
        result['ret'] = f._getattr_call(obj, '_connect', [], {})

    def req_body(f):
        cl.send_msg(f'Connecting "{team}" as {FORMAL[seat]} using protocol version {version}')
        r = cl.recv_msg()
        result['reply'] = r
        if isinstance(r, str) and r.lower().endswith('seated'):
            cl.send_msg(f'{FORMAL[seat]} ready for teams')
            result['teams'] = cl.recv_msg()
            cl.send_msg(f'{FORMAL[seat]} ready to start')
    w.sched.spawn('req', w._proc_body(req_body))
    w.sched.spawn('T1', w._proc_body(thread_body))
    w.run(timeout=60)
    errs = analysis_errors(w)
    sets = sum(1 for op, _ in ev.ops if op == 'set')
    t1 = next(p for p in w.sched.procs if p.name == 'T1')
    return dict(table=table, seat=seat, team=team, version=version, errors=errs, reply=result.get('reply'), ret=result.get('ret'), closed=sv.closed,
                after={s.name: t for s, t in tbl.items()}, sets=sets, state=t1.state, err=str(t1.error) if t1.error else None,
                where=w_where(w, t1), deadlock=w.sched.deadlock, teams=result.get('teams'), n_server_msgs=len(w.server_sent(cid)),
                req_state=next(p for p in w.sched.procs if p.name == 'req').state)


def scenario_worker(args):
    """C20.R4: a whole admission phase (requests in a fixed order of arrival, or all at once) followed by a one-board session."""
    root, scen, policy = args
    repo = _REPO.get(root)
    if repo is None:
        repo = _REPO[root] = Repo(root)
    val = dict(boards=[board('N', None)])
    w = World(repo, val, policy)
    w.add_server()
    reqs = scen['requests']           # [(seat, team, version)]
    gated = scen.get('gated', True)
    table = {s: None for s in SEATS}
    plan = []
    for i, (seat, team, version) in enumerate(reqs):
        verdict, why, table2 = admission_spec(table, seat, team, version)
        plan.append((verdict, why))
        if gated:
            table = table2
    outcomes = {}

    def gate(i):
        if gated and i > 0:
            # request i is made only after request i-1 has received its verdict (the order of arrival is the scenario's order)
            w.sched.block(lambda: sum(1 for e in w.events if e[1] == 'clear' and e[0] == 'main') >= i, f'arrival slot {i} (after {i} completed admission handshakes)')

    def mk_script(i, seat, team, version):
        def lines(end):
            end.send_msg(f'Connecting "{team}" as {FORMAL[seat]} using protocol version {version}')
            r = end.recv_msg()
            outcomes[i] = ('reply', r)
            if isinstance(r, str) and r.upper().startswith('ERROR'):
                try:
                    end.recv_msg()
                    outcomes[i] = ('reply-not-closed', r)
                except FoldRaise:
                    outcomes[i] = ('rejected', r)
            return r

        def body(f):
            gate(i)
            s = ASock(w)
            s.connect(('table', 2000))
            try:
                return lines(s.end)
            finally:
                s.close()
        return w.sched.spawn(f'req{i}', w._proc_body(body))

    def mk_client(i, seat, team):
        name = f'req{i}'
        seat_ev = w.seat(seat)
        from ..skeleton import ABidSys, APlaySys, ADDR, Killed

        def body(f):
            gate(i)
            c = f._construct(repo.cls('Client', 'C20.R4'), [], dict(player=seat_ev, team_name=team, bidding_system=ABidSys(w, seat_ev), playing_system=APlaySys(w, seat_ev),
                                                                    ip_address=ADDR[0], port=ADDR[1]))
            f._getattr_call(c, '__enter__', [], {})
            try:
                # the verdict is known to later requesters as soon as the client got past its connect step
                r = f._getattr_call(c, '_connect', [], {})
                outcomes[i] = ('seated', None)
                # continue with the rest of Client.run (everything after self._connect())
                return _client_after_connect(f, c, repo)
            except FoldRaise as e:
                outcomes.setdefault(i, ('raised', str(e)))
                raise
            finally:
                try:
                    f._getattr_call(c, '__exit__', [None, None, None], {})
                except Killed:
                    pass
        return w.sched.spawn(name, w._proc_body(body))
    for i, (seat, team, version) in enumerate(reqs):
        if version == 18 and (not gated or plan[i][0] == 'seated'):
            mk_client(i, seat, team)
        else:
            mk_script(i, seat, team, version)
    w.run(timeout=120)
    errs = analysis_errors(w)
    # order in which the server accepted the connections
    accepted = [e[2] for e in w.events if e[1] == 'accept']
    order = [int(w.conn_owner[c][3:]) for c in accepted if w.conn_owner.get(c, '').startswith('req')]
    if not gated:
        table = {s: None for s in SEATS}
        plan = [None] * len(reqs)
        for i in order:
            seat, team, version = reqs[i]
            verdict, why, table = admission_spec(table, seat, team, version)
            plan[i] = (verdict, why)
    per_conn = {}
    for c in accepted:
        o = w.conn_owner.get(c, '')
        if o.startswith('req'):
            per_conn[int(o[3:])] = [m for m in w.server_sent(c)]
    states = {p.name: (p.state, str(p.error)[:200] if p.error else None, w_where(w, p), stmt_text(p)) for p in w.sched.procs}
    return dict(scen=scen, policy=policy, errors=errs, plan=plan, order=order, outcomes=outcomes, per_conn={k: [show_nf(nf(m)) for m in v] for k, v in per_conn.items()},
                states=states, deadlock=w.sched.deadlock, final_table=table, n_log=len(w.log_records),
                main_where=states.get('main', (None, None, '?', '?'))[2:])


def _client_after_connect(f, c, repo):
    """Interpret Client.run from the statement after `self._connect()` on (the admission step was interpreted separately to learn its verdict)."""
    import ast as _ast
    ci, fn = repo.method('Client', 'run', 'C20.R4')
    idx = None
    for i, st in enumerate(fn.body):
        if isinstance(st, _ast.Expr) and isinstance(st.value, _ast.Call) and _ast.unparse(st.value.func) == 'self._connect':
            idx = i
    if idx is None:
        raise AnalysisError('C20.R4', 'Client.run', 'cannot locate the `self._connect()` statement')
    env = {'self': c}
    try:
        f._block(fn.body[idx + 1:], env, ci.module, ci)
    except Exception as e:  # noqa
        if type(e).__name__ == '_Return':
            return getattr(e, 'v', None)
        raise
    return None
