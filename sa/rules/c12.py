"""C12 - JSON game logs are schema-valid and read back exactly as written."""
from __future__ import annotations

import ast
import json

from ..fold import Folder, NOVALUE, PartialEvaluator
from ..index import AnalysisError, clone
from ..paths import Summarizer
from ..typeflow import NONE, RAW, UNK, TypeInfer, parse_annotation, show
from .common import floc, loc
from .jsonio import (JH, ReaderRecord, WriterRecord, check_truthiness, check_typed_fields, check_writer_schema, load_schemas)

FIELD_KEYS = {  # reader field -> JSON keys it must be computed from (frozen writer<->reader table, confirmed by reading)
    'board_id': {'board_id'}, 'hands': {'deal'}, 'dealer': {'dealer'}, 'vul': {'vulnerability'}, 'declarer': {'declarer'},
    'contract': {'contract', 'vulnerability', 'declarer'}, 'taken_trick': {'taken_trick'}, 'players': {'players'},
    'bid_history': {'bid_history'}, 'play_history': {'play_history'}, 'dda': {'dda'}, 'score_type': {'score_type'},
    'scores': {'scores'}}
SETTING_KEYS = {'hands': {'deal'}, 'dealer': {'dealer'}, 'vul': {'vulnerability'}, 'board_id': {'board_id'}, 'dda': {'dda'}}


class OpaqueHelper(AnalysisError):
    """A writer helper that is not a single return expression: the per-key typing rule gives no verdict for that key (what is read
    back for it is decided by the whole-document rule R6 / R7)."""


class _StripSerialisers(ast.NodeTransformer):
    """str(x) -> x ; convert_deal(x) -> x : what is being serialised."""

    def visit_Call(self, n):
        self.generic_visit(n)
        if isinstance(n.func, ast.Name) and n.func.id in ('str', 'convert_deal') and len(n.args) == 1 and not n.keywords:
            return n.args[0]
        return n


def source_type(repo, ti: TypeInfer, expr: ast.AST):
    """Type of the value a writer expression serialises (record dicts become ('record', {...}))."""
    e = _StripSerialisers().visit(clone(expr))
    return _src(repo, ti, e)


def _enum_of_names(repo, names):
    for cname in ('Player', 'Pair', 'Suit'):
        if set(names) <= set(repo.cls(cname).enum_members()):
            return ('leaf', cname)
    return None


def has_unknown(t) -> bool:
    if t == UNK:
        return True
    if isinstance(t, tuple):
        return any(has_unknown(x) for x in t[1:] if isinstance(x, (tuple, dict)))
    if isinstance(t, dict):
        return any(has_unknown(x) for x in t.values())
    return False


def _src(repo, ti, e):
    if isinstance(e, ast.Call) and isinstance(e.func, ast.Attribute) and isinstance(e.func.value, ast.Name) and e.func.value.id in ('self', 'cls') \
            and getattr(ti, 'owner', None) is not None:
        # a helper method of the writer class: looked through like a helper function of the module
        for c in repo.mro(ti.owner):
            if e.func.attr in c.methods:
                fn = c.methods[e.func.attr]
                params = fn.args.args[1:] if c.method_kind(e.func.attr) in ('method', 'class') else fn.args.args
                body = [b for b in fn.body if not (isinstance(b, ast.Expr) and isinstance(b.value, ast.Constant))]
                if len(body) == 1 and isinstance(body[0], ast.Return) and body[0].value is not None and len(params) == len(e.args) and not e.keywords:
                    from ..paths import subst
                    inl = subst(clone(body[0].value), {a.arg: v for a, v in zip(params, e.args)})
                    return _src(repo, ti, _StripSerialisers().visit(inl))
                raise OpaqueHelper('C12.R2', f'{c.name}.{e.func.attr}', f'cannot see which library values the helper `{e.func.attr}` serialises '
                                                                       f'(not a single return expression)')
    if isinstance(e, ast.Call) and isinstance(e.func, ast.Name) and e.func.id in ti.mod.functions and e.func.id not in ('str', 'convert_deal'):
        # a helper of the writer module: look through it when it is a single `return <expr>`; otherwise what it serialises
        # cannot be read off its signature (Dict[str, ...] hides which library type was stringified) - no verdict
        fn = ti.mod.functions[e.func.id]
        body = [b for b in fn.body if not (isinstance(b, ast.Expr) and isinstance(b.value, ast.Constant))]
        if len(body) == 1 and isinstance(body[0], ast.Return) and body[0].value is not None and len(fn.args.args) == len(e.args) and not e.keywords:
            from ..paths import subst
            inl = subst(clone(body[0].value), {a.arg: v for a, v in zip(fn.args.args, e.args)})
            return _src(repo, ti, _StripSerialisers().visit(inl))
        raise OpaqueHelper('C12.R2', f'{ti.mod.name.split(".")[-1]}:{e.func.id}', f'cannot see which library values the helper `{e.func.id}` serialises '
                                                                                     f'(not a single return expression)')
    if isinstance(e, ast.IfExp):
        a, b = _src(repo, ti, e.body), _src(repo, ti, e.orelse)
        if a == NONE:
            return ('opt', b)
        if b == NONE:
            return ('opt', a)
        return a if a == b else UNK
    if isinstance(e, ast.Dict) and all(isinstance(k, ast.Constant) and isinstance(k.value, str) for k in e.keys):
        names = [k.value for k in e.keys]
        en = _enum_of_names(repo, names)
        vals = [_src(repo, ti, v) for v in e.values]
        if en is not None:
            return ('dict', en, vals[0] if all(v == vals[0] for v in vals) else UNK)
        return ('record', dict(zip(names, vals)))
    if isinstance(e, (ast.ListComp, ast.GeneratorExp)):
        ti._bind_generators(e.generators)
        t = _src(repo, ti, e.elt)
        for _ in e.generators:
            ti.scopes.pop()
        return ('list', t)
    if isinstance(e, ast.DictComp):
        ti._bind_generators(e.generators)
        k, v = _src(repo, ti, e.key), _src(repo, ti, e.value)
        for _ in e.generators:
            ti.scopes.pop()
        return ('dict', k, v)
    return ti.infer(e)


def agree(repo, src, annot) -> bool:
    if annot[0] == 'opt':
        return src == NONE or agree(repo, src[1] if src[0] == 'opt' else src, annot[1])
    if src[0] == 'opt':
        return agree(repo, src[1], annot)
    seq = ('list', 'tuple', 'set')
    if src[0] in seq and annot[0] in seq:
        return agree(repo, src[1], annot[1])
    if src[0] == 'dict' and annot[0] == 'dict':
        return agree(repo, src[1], annot[1]) and agree(repo, src[2], annot[2])
    if src[0] == 'record' and annot[0] == 'leaf' and repo.has_cls(annot[1]):
        ci = repo.cls(annot[1])
        return set(src[1]) == {n for n in ci.order if n in ci.annots} and \
            all(agree(repo, t, parse_annotation(ci.annots[k])) for k, t in src[1].items())
    if src[0] == 'leaf' and annot[0] == 'leaf':
        if src[1] == 'PlayingHistory' or annot[1] in ('Unknown',):
            return True
        return src[1] == annot[1] or {src[1], annot[1]} <= {'str', 'int', 'Raw', 'Unknown'} and src[1] == annot[1]
    return False


def envelope(chk, rule, repo, cls):
    """Abstract run of the two-state streaming writer assembled from its path summaries."""
    S = Summarizer(repo, rule)
    f = Folder(repo)
    ci = repo.cls(cls, rule)
    tag = None
    for c in repo.mro(ci):
        if 'TAG' in c.assigns and isinstance(c.assigns['TAG'], ast.Constant):
            tag = c.assigns['TAG'].value
            break
    if not tag:
        raise AnalysisError(rule, cls, 'TAG constant not found')

    def run_method(meth, state, arg=None):
        out = []
        res = []
        for p in S.paths(cls, meth, dyn=cls):
            def m(node):
                t = ast.unparse(node)
                if t == 'self._first_line':
                    return state['first']
                if t == 'self._open':
                    return state['open']
                if t == 'self.TAG':
                    return tag
                if isinstance(node, ast.Call) and ast.unparse(node.func) == 'json.dumps':
                    return '{}'
                return NOVALUE
            pe = PartialEvaluator(f, ci.module, [m])
            from .playing import Playing
            if not Playing.consistent(p, pe):
                continue
            new = dict(state)
            text = ''
            for e in p.events:
                if e.kind == 'call' and e.method == 'write' and e.recv == 'self._writer':
                    v = pe.eval(e.args[0])
                    if not isinstance(v, str):
                        raise AnalysisError(rule, f'{cls}.{meth}', f'written text `{ast.unparse(e.args[0])}` is not constant')
                    text += v
                if e.kind == 'assign' and e.target in ('self._first_line', 'self._open'):
                    v = pe.eval(e.value)
                    new['first' if e.target == 'self._first_line' else 'open'] = v
            res.append((new, text))
        if len(res) != 1:
            raise AnalysisError(rule, f'{cls}.{meth}', f'{len(res)} consistent paths in state {state}')
        return res[0]
    w, q = loc(repo, 'JsonWriter', 'open', rule)
    for k in (0, 1, 2, 3):
        chk.evals()
        st, text = run_method('open', {'first': False, 'open': False})
        for _ in range(k):
            st, t = run_method('_write_content', st)
            text += t
        st, t = run_method('close', st)
        text += t
        try:
            doc = json.loads(text)
            good = doc == {tag: [{} for _ in range(k)]}
        except ValueError:
            doc, good = None, False
        chk.require(good, rule, w, f'{cls} open/_write_content/close', f'envelope with {k} record(s)',
                    f'open + {k} record(s) + close is one valid JSON document {{"{tag}": [...]}}',
                    f'{cls}: the literals written around {k} record(s) give {text!r}, which is not the JSON document {{"{tag}": [{k} records]}}')
    return tag


def run(chk):
    repo = chk.repo
    chk.explanation = (
        'R1 writer<->schema: every expression of the record dict of JsonLogWriter.write is given a JSON type (str() -> string, '
        'annotations, enum value types, comprehensions, conditional None) and compared with log_format.schema.json ($ref '
        'resolved); required keys must be written unconditionally. R2 writer<->reader: the value each key serialises has the '
        'type the reader\'s record field declares; each reader field is computed from exactly its key(s); keys required by the '
        'reader are written unconditionally. R3 typed-field flow: in convert_board_log / convert_board_setting no raw JSON value '
        'reaches a field or converter slot declared with a library value type (Player, Pair, Suit, Vul, Bid, Card, Contract, '
        'Hands). R4 envelope: the literals of open/_write_content/close form valid JSON around 0..3 records; TAG constants are the '
        'keys the parser reads. The inverse tables of the individual converters are C15.')
    # whole-document evaluation first: what it finds is definite whatever shape the per-expression rules below expect
    from .jsonfile import log_rule
    log_rule(chk, 'C12.R6')
    try:
        per_expression(chk, repo)
    except AnalysisError as e:
        if chk.findings:
            raise
        chk.note(f'per-expression rules not evaluated completely ({e.rule} at {e.anchor}: {e.why[:200]}); the verdict rests on the whole-document rule C12.R6 '
                 f'(writer -> JSON document -> reader on board sequences) and the rules evaluated before')


def per_expression(chk, repo):
    schemas = load_schemas(repo, 'C12.R1')
    # ---- R1 -----------------------------------------------------------------------------------------------------
    rec = WriterRecord(repo, 'JsonLogWriter', 'C12.R1', chk=chk)
    check_writer_schema(chk, 'C12.R1', rec, 'log_format.schema.json', ['properties', 'logs', 'items'], schemas)
    chk.floor('C12.R1', 'keys written by JsonLogWriter.write', len(rec.keys), 12)
    w_dumps, q_dumps = loc(repo, 'JsonWriter', '_write_content', 'C12.R1')
    _, wc = repo.method('JsonWriter', '_write_content', 'C12.R1')
    dumps = [n for n in ast.walk(wc) if isinstance(n, ast.Call) and ast.unparse(n.func) == 'json.dumps']
    good = len(dumps) == 1 and all(k.arg in ('indent', 'ensure_ascii', 'sort_keys', 'separators') for k in dumps[0].keywords) and \
        not any(k.arg == 'indent' and not (isinstance(k.value, ast.Constant) and k.value.value is None) for k in dumps[0].keywords)
    chk.require(good, 'C12.R1', w_dumps, q_dumps, ast.unparse(dumps[0]) if dumps else 'json.dumps',
                'records are serialised by json.dumps on one line (escaping of arbitrary text is delegated to the stdlib)',
                'records are not serialised by a plain single-line json.dumps call')
    if dumps:
        raw = [k for k in dumps[0].keywords if k.arg == 'ensure_ascii' and not (isinstance(k.value, ast.Constant) and k.value.value is True)]
        chk.require(not raw, 'C12.R1', w_dumps, q_dumps, 'json.dumps(ensure_ascii=...)',
                    'the document is pure ASCII (every non-ASCII character of a name or id is \\u-escaped), so it survives whatever encoding the stream has',
                    f'`{ast.unparse(dumps[0])}`: with ensure_ascii off, names and ids are written raw; Server.run opens the log with the platform default encoding, so a '
                    f'non-ASCII name raises UnicodeEncodeError in the middle of the file or is read back as different characters')
    # unopened writer refuses
    for cls in ('JsonLogWriter', 'JsonBoardSettingWriter'):
        r = WriterRecord(repo, cls, 'C12.R4', chk=chk) if cls != 'JsonLogWriter' else rec
        chk.require(bool(r.raise_paths), 'C12.R4', r.where, r.qual, 'write on a closed writer', 'write() on an unopened writer raises',
                    'write() does not refuse when the writer is not open')

    # ---- R3 typed-field flow + R2 ---------------------------------------------------------------------------------
    setting = ReaderRecord(repo, 'convert_board_setting', 'BoardSetting', 'C12.R3')
    log = ReaderRecord(repo, 'convert_board_log', 'BoardLog', 'C12.R3', setting=setting)
    n = check_typed_fields(chk, 'C12.R3', setting) + check_typed_fields(chk, 'C12.R3', log)
    chk.floor('C12.R3', 'typed slots checked in the JSON readers', n, 20)
    from .jsonio import check_converters
    check_converters(chk, 'C12.R2', repo, setting.m, setting.qual, setting.fields, setting.annots)
    check_converters(chk, 'C12.R2', repo, log.m, log.qual, log.fields, log.annots, inline=setting)
    for rr, table in ((log, FIELD_KEYS), (setting, SETTING_KEYS)):
        for fld, expr in rr.fields.items():
            want = table.get(fld)
            if want is None:
                raise AnalysisError('C12.R2', rr.qual, f'reader field {fld} has no entry in the writer<->reader table')
            got = rr.deps(expr)
            chk.require(got == want, 'C12.R2', repo.where(rr.m, expr), rr.qual, f'{fld} <- keys {sorted(got)}',
                        f'reader field {fld} is computed from key(s) {sorted(want)}',
                        f'reader field `{fld}` is computed from JSON key(s) {sorted(got)}, the writer stores it under {sorted(want)}')
    written = set(rec.keys) | set(rec.optional)
    read = log.all_keys()
    chk.require(written <= read, 'C12.R2', log.where, log.qual, f'keys written but never read: {sorted(written - read)}',
                'every key the writer stores is read back', f'keys {sorted(written - read)} are written but not read back')
    need = read - log.conditional_keys()
    chk.require(need <= set(rec.keys), 'C12.R2', log.where, log.qual, f'keys the reader needs unconditionally: {sorted(need - set(rec.keys))}',
                'every key the reader needs unconditionally is written unconditionally',
                f'the reader needs {sorted(need - set(rec.keys))} unconditionally but the writer does not always write them')
    # what each key serialises has the type the reader's field declares
    key_field = {'board_id': 'board_id', 'deal': 'hands', 'dealer': 'dealer', 'vulnerability': 'vul', 'declarer': 'declarer',
                 'contract': 'contract', 'taken_trick': 'taken_trick', 'players': 'players', 'bid_history': 'bid_history',
                 'play_history': 'play_history', 'dda': 'dda', 'score_type': 'score_type', 'scores': 'scores'}
    for k in rec.keys + list(rec.optional):
        v = rec.value(k)
        if k not in key_field:
            chk.require(k in read, 'C12.R2', repo.where(rec.mod, v), rec.qual, f"'{k}': {ast.unparse(v)[:60]}",
                        f'written key {k!r} is known to the reader', f'key {k!r} is written but the reader has no field for it')
            continue
        try:
            src = source_type(repo, rec.ti, v)
        except OpaqueHelper as e:
            chk.note(f'key {k!r}: {e.why} - read-back equality of this key is decided by the whole-document rule C12.R6')
            continue
        ann = log.annots[key_field[k]]
        if has_unknown(src):
            chk.note(f'key {k!r}: the type of `{ast.unparse(v)[:60]}` cannot be inferred - read-back equality of this key is decided by the whole-document rule C12.R6')
            continue
        chk.require(agree(repo, src, ann), 'C12.R2', repo.where(rec.mod, v), rec.qual, f"'{k}': {ast.unparse(v)[:60]}",
                    f'key {k!r} serialises {show(src) if src[0] != "record" else "a record"} = what reader field {key_field[k]} declares',
                    f'key {k!r} serialises {src}, the reader field `{key_field[k]}` is declared {show(ann)}')
    # vulnerability written is the board's (contract.vul is tied to the configured one by C03.R3)
    vv = rec.value('vulnerability')
    chk.require(vv is not None and ast.unparse(vv) in ('str(contract.vul)', 'str(vul)'), 'C12.R2', repo.where(rec.mod, vv) if vv is not None else rec.where,
                rec.qual, f"'vulnerability': {ast.unparse(vv) if vv is not None else None}", 'vulnerability is written with str(Vul)',
                'vulnerability is not written as str() of the contract/board vulnerability')

    # ---- R5 presence tests --------------------------------------------------------------------------------------------------
    check_truthiness(chk, 'C12.R5', repo)
    # a record is serialised completely before anything of it (or its separator) reaches the stream
    writes = [n for n in ast.walk(wc) if isinstance(n, ast.Call) and ast.unparse(n.func) == 'self._writer.write']
    if dumps and writes:
        first = all((d.lineno, d.col_offset) < (x.lineno, x.col_offset) for d in dumps for x in writes)
        chk.require(first, 'C12.R4', repo.where(repo.cls('JsonWriter').module, writes[0]), q_dumps, 'stream written before json.dumps',
                    'json.dumps precedes every stream write of _write_content (a record that cannot be serialised leaves no separator behind)',
                    'the separator / first-line state is written before json.dumps has produced the record: one unserialisable record leaves `,\\n,\\n` '
                    'in the stream and the whole document no longer parses')
    # ---- R4 envelope + tags --------------------------------------------------------------------------------------
    tag_log = envelope(chk, 'C12.R4', repo, 'JsonLogWriter')
    tag_set = envelope(chk, 'C12.R4', repo, 'JsonBoardSettingWriter')
    for meth, tags in (('parse_board_logs', {tag_log}), ('parse_board_settings', {tag_log, tag_set})):
        w, q = loc(repo, 'JsonParser', meth, 'C12.R4')
        _, fn = repo.method('JsonParser', meth, 'C12.R4')
        keys = {n.slice.value for n in ast.walk(fn) if isinstance(n, ast.Subscript) and isinstance(n.slice, ast.Constant)
                and isinstance(n.slice.value, str)}
        chk.require(tags <= keys, 'C12.R4', w, q, f'{meth} reads {sorted(keys)}', f'{meth} reads the document under {sorted(tags)}',
                    f'{meth} reads keys {sorted(keys)}; the writers store the records under {sorted(tags)}')
        # (that every record is converted, in list order, is decided by the whole-document rule R6)
    schema_tag = set(schemas['log_format.schema.json'].get('properties', {}))
    chk.require(tag_log in schema_tag, 'C12.R4', rec.where, rec.qual, f'schema top-level keys {sorted(schema_tag)}',
                'the schema describes the document under the tag the writer uses', f'schema describes {sorted(schema_tag)}, writer uses {tag_log!r}')
