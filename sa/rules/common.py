"""Helpers shared by the per-property rule modules."""
from __future__ import annotations

import ast
from typing import Optional

from ..fold import DV, EV, Folder, FoldRaise, Unsupported
from ..index import AnalysisError, Repo


def loc(repo: Repo, cls: str, meth: Optional[str] = None, rule: str = 'anchor'):
    """(where, qualname) of a class or method anchor; vanished anchor = analysis error."""
    ci = repo.cls(cls, rule)
    if meth is None:
        return repo.where(ci.module, ci.node), cls
    c, fn = repo.method(cls, meth, rule)
    return repo.where(c.module, fn), f'{c.name}.{meth}'


def floc(repo: Repo, module: str, func: str, rule: str = 'anchor'):
    m, fn = repo.function(module, func, rule)
    return repo.where(m, fn), f'{m.name.split(".")[-1]}:{func}'


def fold_or_error(rule: str, anchor: str, thunk):
    """Run a fold; an unsupported construct inside the folded function is an analysis error."""
    try:
        return thunk()
    except Unsupported as e:
        raise AnalysisError(rule, anchor, f'function left the pure subset the table extractor supports: {e}')


def try_fold(rule: str, anchor: str, thunk):
    """Fold returning ('ok', value) or ('raise', kind)."""
    try:
        return ('ok', fold_or_error(rule, anchor, thunk))
    except FoldRaise as r:
        return ('raise', r.kind)
