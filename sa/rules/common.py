"""Helpers shared by the per-property rule modules."""
from __future__ import annotations

import ast
from typing import Optional

from ..fold import DV, EV, Folder, FoldRaise, Unsupported
from ..index import AnalysisError, Repo


def loc(repo: Repo, cls: str, meth: Optional[str] = None, rule: str = 'anchor'):
    """(where, qualname) of a class or method anchor; vanished anchor = analysis error."""
    ci = repo.cls(cls, rule)
    if meth is None:
        return repo.where(ci.module, ci.node), cls
    c, fn = repo.method(cls, meth, rule)
    return repo.where(c.module, fn), f'{c.name}.{meth}'


def floc(repo: Repo, module: str, func: str, rule: str = 'anchor'):
    m, fn = repo.function(module, func, rule)
    return repo.where(m, fn), f'{m.name.split(".")[-1]}:{func}'


def fold_or_error(rule: str, anchor: str, thunk):
    """Run a fold; an unsupported construct inside the folded function is an analysis error."""
    try:
        return thunk()
    except Unsupported as e:
        raise AnalysisError(rule, anchor, f'function left the pure subset the table extractor supports: {e}')


def try_fold(rule: str, anchor: str, thunk):
    """Fold returning ('ok', value) or ('raise', kind)."""
    try:
        return ('ok', fold_or_error(rule, anchor, thunk))
    except FoldRaise as r:
        return ('raise', r.kind)


MUTATOR_METHODS = {'append', 'add', 'remove', 'pop', 'clear', 'update', 'extend', 'insert', 'discard', 'sort',
                   'reverse', 'popitem', 'setdefault', 'fill', 'put'}


def _root_attr(n: ast.AST, owner: str = 'self'):
    """For self.a / self.a[..][..] returns 'a'; else None."""
    while isinstance(n, ast.Subscript):
        n = n.value
    if isinstance(n, ast.Attribute) and isinstance(n.value, ast.Name) and n.value.id == owner:
        return n.attr
    return None


def writers_of(fn: ast.FunctionDef, attrs: set, owner: str = 'self'):
    """(attr, stmt) for every statement of `fn` that writes self.<attr> (assignment, augmented
    assignment, item/slice store, del, mutator call on it or on one of its items)."""
    out = []
    for node in ast.walk(fn):
        targets = []
        if isinstance(node, ast.Assign):
            for t in node.targets:
                targets += list(t.elts) if isinstance(t, (ast.Tuple, ast.List)) else [t]
        elif isinstance(node, (ast.AugAssign, ast.AnnAssign)):
            if not (isinstance(node, ast.AnnAssign) and node.value is None):
                targets = [node.target]
        elif isinstance(node, ast.Delete):
            targets = node.targets
        elif isinstance(node, ast.Call) and isinstance(node.func, ast.Attribute) and node.func.attr in MUTATOR_METHODS:
            a = _root_attr(node.func.value, owner)
            if a in attrs:
                out.append((a, node))
        for t in targets:
            a = _root_attr(t, owner)
            if a in attrs:
                out.append((a, node))
    return out


def external_mutations(repo: Repo, props: set, exclude_class: str = None, exclude_classes=()):
    """Stores / mutator calls on `<anything>.<prop>` (or an item of it) anywhere in the package."""
    excl = set(exclude_classes) | ({exclude_class} if exclude_class else set())
    out = []

    def root_prop(n):
        while isinstance(n, ast.Subscript):
            n = n.value
        if isinstance(n, ast.Attribute) and n.attr in props:
            return n.attr
        return None
    for m, c, fn in repo.all_functions():
        if c is not None and c.name in excl:
            continue
        qual = f'{c.name}.{fn.name}' if c is not None else f'{m.name.split(".")[-1]}:{fn.name}'
        for node in ast.walk(fn):
            targets = []
            if isinstance(node, ast.Assign):
                for t in node.targets:
                    targets += list(t.elts) if isinstance(t, (ast.Tuple, ast.List)) else [t]
            elif isinstance(node, ast.AugAssign):
                targets = [node.target]
            elif isinstance(node, ast.Delete):
                targets = node.targets
            elif isinstance(node, ast.Call) and isinstance(node.func, ast.Attribute) and node.func.attr in MUTATOR_METHODS:
                if root_prop(node.func.value):
                    out.append((m, qual, node))
            for t in targets:
                if isinstance(t, ast.Subscript) and root_prop(t):
                    out.append((m, qual, node))
                elif isinstance(t, ast.Attribute) and t.attr in props and not (
                        isinstance(t.value, ast.Name) and t.value.id == 'self'):
                    out.append((m, qual, node))
    return out
