"""Helpers shared by the per-property rule modules."""
from __future__ import annotations

import ast
from typing import Optional

from ..fold import DV, EV, Folder, FoldRaise, Unsupported
from ..index import AnalysisError, Repo


def loc(repo: Repo, cls: str, meth: Optional[str] = None, rule: str = 'anchor'):
    """(where, qualname) of a class or method anchor; vanished anchor = analysis error."""
    ci = repo.cls(cls, rule)
    if meth is None:
        return repo.where(ci.module, ci.node), cls
    c, fn = repo.method(cls, meth, rule)
    return repo.where(c.module, fn), f'{c.name}.{meth}'


def floc(repo: Repo, module: str, func: str, rule: str = 'anchor'):
    m, fn = repo.function(module, func, rule)
    return repo.where(m, fn), f'{m.name.split(".")[-1]}:{func}'


def fold_or_error(rule: str, anchor: str, thunk):
    """Run a fold; an unsupported construct inside the folded function is an analysis error."""
    try:
        return thunk()
    except Unsupported as e:
        raise AnalysisError(rule, anchor, f'function left the pure subset the table extractor supports: {e}')


def try_fold(rule: str, anchor: str, thunk):
    """Fold returning ('ok', value) or ('raise', kind)."""
    try:
        return ('ok', fold_or_error(rule, anchor, thunk))
    except FoldRaise as r:
        return ('raise', r.kind)


MUTATOR_METHODS = {'append', 'add', 'remove', 'pop', 'clear', 'update', 'extend', 'insert', 'discard', 'sort',
                   'reverse', 'popitem', 'setdefault', 'fill', 'put'}


def _root_attr(n: ast.AST, owner: str = 'self'):
    """For self.a / self.a[..][..] returns 'a'; else None."""
    while isinstance(n, ast.Subscript):
        n = n.value
    if isinstance(n, ast.Attribute) and isinstance(n.value, ast.Name) and n.value.id == owner:
        return n.attr
    return None


def writers_of(fn: ast.FunctionDef, attrs: set, owner: str = 'self'):
    """(attr, stmt) for every statement of `fn` that writes self.<attr> (assignment, augmented
    assignment, item/slice store, del, mutator call on it or on one of its items)."""
    out = []
    for node in ast.walk(fn):
        targets = []
        if isinstance(node, ast.Assign):
            for t in node.targets:
                targets += list(t.elts) if isinstance(t, (ast.Tuple, ast.List)) else [t]
        elif isinstance(node, (ast.AugAssign, ast.AnnAssign)):
            if not (isinstance(node, ast.AnnAssign) and node.value is None):
                targets = [node.target]
        elif isinstance(node, ast.Delete):
            targets = node.targets
        elif isinstance(node, ast.Call) and isinstance(node.func, ast.Attribute) and node.func.attr in MUTATOR_METHODS:
            a = _root_attr(node.func.value, owner)
            if a in attrs:
                out.append((a, node))
        for t in targets:
            a = _root_attr(t, owner)
            if a in attrs:
                out.append((a, node))
    return out


def external_mutations(repo: Repo, props: set, exclude_class: str = None, exclude_classes=()):
    """Stores / mutator calls on `<anything>.<prop>` (or an item of it) anywhere in the package."""
    excl = set(exclude_classes) | ({exclude_class} if exclude_class else set())
    out = []

    def root_prop(n):
        while isinstance(n, ast.Subscript):
            n = n.value
        if isinstance(n, ast.Attribute) and n.attr in props:
            return n.attr
        return None
    for m, c, fn in repo.all_functions():
        if c is not None and c.name in excl:
            continue
        qual = f'{c.name}.{fn.name}' if c is not None else f'{m.name.split(".")[-1]}:{fn.name}'
        for node in ast.walk(fn):
            targets = []
            if isinstance(node, ast.Assign):
                for t in node.targets:
                    targets += list(t.elts) if isinstance(t, (ast.Tuple, ast.List)) else [t]
            elif isinstance(node, ast.AugAssign):
                targets = [node.target]
            elif isinstance(node, ast.Delete):
                targets = node.targets
            elif isinstance(node, ast.Call) and isinstance(node.func, ast.Attribute) and node.func.attr in MUTATOR_METHODS:
                if root_prop(node.func.value):
                    out.append((m, qual, node))
            for t in targets:
                if isinstance(t, ast.Subscript) and root_prop(t):
                    out.append((m, qual, node))
                elif isinstance(t, ast.Attribute) and t.attr in props and not (
                        isinstance(t.value, ast.Name) and t.value.id == 'self') and isinstance(node, (ast.AugAssign, ast.Delete)):
                    # (a plain `other.<prop> = value` binds an attribute of ANOTHER object that happens to carry the same name - a result record, a
                    # context object; it does not touch the vector the engine handed out.  `+=` / `del` do.)
                    out.append((m, qual, node))
    return out


def writer_closure(repo: Repo, cls_names, roots) -> set:
    """Methods allowed to write a class's state: the given roots plus every private helper (name starts with `_`) of the
    class(es) whose call sites ALL lie inside allowed methods of these classes - an extracted helper such as
    `__record_bid`, called only from take_bid, writes on take_bid's behalf.  Returns {(class, method)}."""
    cls_names = [cls_names] if isinstance(cls_names, str) else list(cls_names)
    allowed = {(c, m) for c in cls_names for m in roots}
    sites = {}      # helper name -> [(class, method)] of call sites anywhere in the package
    for m, c, fn in repo.all_functions():
        for n in ast.walk(fn):
            if isinstance(n, ast.Call) and isinstance(n.func, ast.Attribute):
                sites.setdefault(n.func.attr, []).append((c.name if c is not None else None, fn.name))
            elif isinstance(n, ast.Attribute) and isinstance(n.ctx, ast.Load):
                # a bound method taken as a value (callback) counts as a call site of unknown caller
                pass
    changed = True
    while changed:
        changed = False
        for cn in cls_names:
            ci = repo.cls(cn)
            for mname in ci.methods:
                if (cn, mname) in allowed or not mname.startswith('_') or (mname.startswith('__') and mname.endswith('__')):
                    continue
                callers = sites.get(mname, []) + sites.get(f'_{cn}{mname}', [])
                if callers and all((cc, cm) in allowed or (cc in cls_names and ((cn, cm) in allowed or any((c3, cm) in allowed for c3 in cls_names))) for cc, cm in callers):
                    allowed.add((cn, mname))
                    changed = True
    return allowed


def flatten_self_calls(repo: Repo, cls_name: str, stmts, depth: int = 2):
    """The statement list with every statement-level `self.m()` / `super().m()` call (no arguments) replaced by the body of the
    method it resolves to (bounded depth): syntactic rules then see through an extracted helper."""
    out = []
    ci = repo.cls(cls_name)
    for s in stmts:
        if depth > 0 and isinstance(s, ast.Expr) and isinstance(s.value, ast.Call) and isinstance(s.value.func, ast.Attribute) \
                and not s.value.args and not s.value.keywords:
            f = s.value.func
            owner_ok = (isinstance(f.value, ast.Name) and f.value.id == 'self') or \
                (isinstance(f.value, ast.Call) and isinstance(f.value.func, ast.Name) and f.value.func.id == 'super')
            target = None
            if owner_ok:
                for c in repo.mro(ci):
                    if f.attr in c.methods:
                        target = c.methods[f.attr]
                        break
            if target is not None and not any(isinstance(x, (ast.Return, ast.Yield)) and getattr(x, 'value', None) is not None for x in ast.walk(target)):
                body = [b for b in target.body if not (isinstance(b, ast.Expr) and isinstance(b.value, ast.Constant))]
                out += flatten_self_calls(repo, cls_name, body, depth - 1)
                continue
        out.append(s)
    return out


def pool_size(n: int, cap: int = 16) -> int:
    """Workers for a pool of n tasks: at most `cap`, and at most SA_JOBS when set (the self-test runs many checks side by side and
    sets it so that the pools do not oversubscribe the machine)."""
    import os
    lim = int(os.environ.get('SA_JOBS', cap))
    return max(1, min(n, cap, lim))
