"""C17 - board-settings files are read back as the boards that were written, in order."""
from __future__ import annotations

import ast
import itertools
import re

from ..index import AnalysisError, parent
from ..paths import Summarizer
from ..typeflow import RAW, TypeInfer, mismatch, parse_annotation, show
from .c12 import has_unknown, SETTING_KEYS, OpaqueHelper, agree, source_type
from .c13 import ancestors, stmt_of
from .common import loc
from .jsonio import ReaderRecord, WriterRecord, check_converters, check_typed_fields, check_writer_schema, load_schemas
from .pbnio import VALUE_ALPHABET_SAMPLES, check_line_source, fold_parse_board, parser_constants, separator_pattern


def run(chk):
    repo = chk.repo
    chk.explanation = (
        'R1 JSON settings: writer record <-> board_setting_format.schema.json (JSON types), writer <-> reader key and type agreement, '
        'typed-field flow in convert_board_setting, list order. R2-R4 PBN game splitting (syntax-directed rules on parse_stream): every '
        'yield is guarded by a non-emptiness test of the parsed game / the tag buffer (no empty game for runs of blank lines); the '
        'separator pattern fullmatches LF, CRLF and whitespace-only lines and no tag/header line; the buffers are reset unconditionally '
        'in the separator branch; %-lines `continue` before content extraction. R5: parse_board (a pure function of the tag buffer) is '
        'folded on buffers with tags in every order of the four relevant tags, extra tags, table rows, CRLF, duplicated tags and values '
        'over the property\'s alphabet incl. runs of spaces: result must map each tag name to its first value, verbatim; '
        'parse_board_settings reads exactly Deal/Dealer/Vulnerable/Board through converters with library types (typed-field flow).')
    schemas = load_schemas(repo, 'C17.R1')
    # ---- R1 JSON ---------------------------------------------------------------------------------------------------------
    from .jsonfile import settings_rule
    settings_rule(chk, 'C17.R7')
    from .jsonfile import envelope_rule
    envelope_rule(chk, 'C17.R8')        # the streaming envelope of the JSON writers (0..3 boards, a board that cannot be serialised at every position)
    def json_per_expression():
        rec = WriterRecord(repo, 'JsonBoardSettingWriter', 'C17.R1', chk=chk)
        check_writer_schema(chk, 'C17.R1', rec, 'board_setting_format.schema.json', ['properties', 'board_settings', 'items'], schemas)
        setting = ReaderRecord(repo, 'convert_board_setting', 'BoardSetting', 'C17.R1')
        check_typed_fields(chk, 'C17.R1', setting)
        from .jsonio import check_truthiness
        check_truthiness(chk, 'C17.R1', repo)
        from .jsonio import check_converters
        check_converters(chk, 'C17.R1', repo, setting.m, setting.qual, setting.fields, setting.annots)
        for fld, expr in setting.fields.items():
            got, want = setting.deps(expr), SETTING_KEYS.get(fld)
            chk.require(got == want, 'C17.R1', repo.where(setting.m, expr), setting.qual, f'{fld} <- keys {sorted(got)}',
                        f'setting field {fld} is computed from {sorted(want or [])}', f'setting field `{fld}` is computed from {sorted(got)}, written under {sorted(want or [])}')
        written = set(rec.keys) | set(rec.optional)
        chk.require(written == setting.all_keys(), 'C17.R1', setting.where, setting.qual, f'keys written {sorted(written)} / read {sorted(setting.all_keys())}',
                    'the settings writer and reader use the same keys', f'writer keys {sorted(written)} != reader keys {sorted(setting.all_keys())}')
        need = setting.all_keys() - setting.conditional_keys()
        chk.require(need <= set(rec.keys), 'C17.R1', setting.where, setting.qual, f'unconditional reader keys {sorted(need)}',
                    'keys the reader needs are always written', f'reader needs {sorted(need - set(rec.keys))} which are not always written')
        key_field = {'board_id': 'board_id', 'deal': 'hands', 'dealer': 'dealer', 'vulnerability': 'vul', 'dda': 'dda'}
        for k in rec.keys + list(rec.optional):
            v = rec.value(k)
            if k not in key_field:
                chk.fail('C17.R1', repo.where(rec.mod, v), rec.qual, f"'{k}'", f'key {k!r} is written but the settings reader has no field for it')
                continue
            try:
                src = source_type(repo, rec.ti, v)
            except OpaqueHelper as e:
                chk.note(f'key {k!r}: {e.why} - read-back equality of this key is decided by the whole-document rule C17.R7')
                continue
            ann = setting.annots[key_field[k]]
            if has_unknown(src):
                chk.note(f'key {k!r}: the type of `{ast.unparse(v)[:60]}` cannot be inferred - read-back equality of this key is decided by the whole-document rule C17.R7')
                continue
            chk.require(agree(repo, src, ann), 'C17.R1', repo.where(rec.mod, v), rec.qual, f"'{k}': {ast.unparse(v)[:60]}",
                        f'key {k!r} serialises what field {key_field[k]} declares', f'key {k!r} serialises {src}, field `{key_field[k]}` is {show(ann)}')


    try:
        json_per_expression()
    except AnalysisError as e_json:
        if chk.findings:
            raise
        chk.note(f'C17.R1 per-expression rules of the JSON settings pair not evaluated completely ({e_json.why[:160]}); read-back of every field is decided by the '
                 f'whole-document rule C17.R7')

    # ---- R2..R4 parse_stream ------------------------------------------------------------------------------------------------
    from .pbnfile import reader_rule
    reader_rule(chk, 'C17.R6')
    def structural():
        pat, func, call, sep_if, ps_fn, pci = separator_pattern(repo, 'C17.R3')
        w_ps = repo.where(pci.module, ps_fn)
        q_ps = 'PbnParser.parse_stream'
        yields = [n for n in ast.walk(ps_fn) if isinstance(n, ast.Yield)]
        chk.floor('C17.R2', 'yield sites in parse_stream', len(yields), 2)
        for y in yields:
            val = y.value
            guards = [a for a in ancestors(y) if isinstance(a, ast.If) and stmt_of(y) in list(ast.walk(a)) and
                      any(stmt_of(y) is s or stmt_of(y) in list(ast.walk(s)) for s in a.body)]
            nonempty = False
            for g in guards:
                t = g.test
                txt = ast.unparse(t)
                if isinstance(val, ast.Name) and txt in (val.id, f'len({val.id}) != 0', f'len({val.id}) > 0', f'{val.id} != {{}}'):
                    nonempty = True
                if txt in ('self.tag_pair_buffer', 'len(self.tag_pair_buffer) != 0', 'len(self.tag_pair_buffer) > 0'):
                    nonempty = True
            chk.require(nonempty, 'C17.R2', repo.where(pci.module, y), q_ps, f'yield {ast.unparse(val) if val else ""} (line role: '
                        f'{"separator branch" if sep_if in ancestors(y) else "end of file"})',
                        'a game is yielded only if it has content (no empty game for blank-line runs / leading / trailing blank lines)',
                        f'`yield {ast.unparse(val) if val else ""}` is not guarded by a non-emptiness test: a leading blank line or a run of blank '
                        f'lines yields an empty game and parse_board_settings fails on it')
        check_line_source(chk, 'C17.R3', repo)
        # R3 separator class
        fm = re.fullmatch if func == 're.fullmatch' else re.match
        blanks = ['\n', '\r\n', ' \n', '\t\n', '  \t \r\n', ' ']
        non = ['[Board "1"]\n', '% PBN 2.1\n', 'N NT 7\n', '[Deal "N:- - - -"]\r\n']
        for s in blanks:
            chk.evals()
            chk.require(fm(pat, s) is not None, 'C17.R3', repo.where(pci.module, call), q_ps, f'separator pattern {pat!r} on {s!r}',
                        f'the (semi-)empty line {s!r} separates games', f'separator pattern {pat!r} does not recognise the blank line {s!r} (LF/CRLF/whitespace-only)')
        for s in non:
            chk.require(fm(pat, s) is None, 'C17.R3', repo.where(pci.module, call), q_ps, f'separator pattern {pat!r} on {s!r}',
                        f'the content line {s!r} does not separate games', f'separator pattern {pat!r} treats the content line {s!r} as a game separator')
        # buffers re-initialised unconditionally in the separator branch, then `continue`
        from .common import flatten_self_calls
        sep_body = flatten_self_calls(repo, 'PbnParser', sep_if.body)
        resets = [s for s in sep_body if isinstance(s, ast.Assign) and ast.unparse(s.targets[0]) == 'self.tag_pair_buffer'
                  and ast.unparse(s.value) in ('list()', '[]')]
        ends = sep_if.body and isinstance(sep_if.body[-1], ast.Continue)
        if not (len(resets) == 1 and ends):
            # this reading knows one shape (reset, then `continue`); any other arrangement - an if / elif / else chain, a helper - is decided by the
            # whole-file rule R6 on runs of blank lines, not here
            raise AnalysisError('C17.R3', q_ps, 'the separator branch is not of the shape `reset the buffer; continue`: not judged structurally (R6 decides on blank-line layouts)')
        chk.require(len(resets) == 1 and ends, 'C17.R3', repo.where(pci.module, sep_if), q_ps, 'separator branch resets the tag buffer and continues',
                    'after a separator the tag buffer is emptied unconditionally and the line is consumed',
                    'the separator branch does not reset self.tag_pair_buffer unconditionally / does not `continue`: tags of one game leak into the next')
        # the separator test must not depend on anything but the pattern match and the comment state
        names = {ast.unparse(n) for n in ast.walk(sep_if.test) if isinstance(n, (ast.Attribute, ast.Name))}
        chk.require(names <= {'match', 'self._in_comment', 'self', stmt_of(call).targets[0].id}, 'C17.R3', repo.where(pci.module, sep_if), q_ps,
                    f'separator test `{ast.unparse(sep_if.test)}`', 'a blank line outside a comment always separates',
                    f'separator test `{ast.unparse(sep_if.test)}` depends on more than the blank-line match and the comment state')
        # R4 header lines
        loop = [a for a in ancestors(sep_if) if isinstance(a, ast.For)][0]
        pct = [s for s in loop.body if isinstance(s, ast.If) and "'%'" in ast.unparse(s.test)]
        ext = [s for s in loop.body if isinstance(s, ast.Expr) and isinstance(s.value, ast.Call) and ast.unparse(s.value.func) == 'self.extract_content']
        good = len(pct) == 1 and len(ext) == 1 and isinstance(pct[0].body[-1], ast.Continue) and loop.body.index(pct[0]) < loop.body.index(ext[0]) \
            and ast.unparse(ext[0].value.args[0]) == 'line'
        if not good:
            raise AnalysisError('C17.R4', q_ps, 'the %-line handling is not of the shape `if line starts with %: ...; continue` before extract_content: not judged structurally '
                                                '(R6 decides on layouts with header lines and %-lines between games)')
        chk.require(good, 'C17.R4', repo.where(pci.module, pct[0]) if pct else w_ps, q_ps, '%-line branch',
                    'header (%) lines are consumed before content extraction', 'a %-line can reach extract_content (it would pollute the tag buffer)')

        # ---- R5 parse_board folded + parse_board_settings typed flow -----------------------------------------------------------
        consts = parser_constants(repo, 'C17.R5')
        w_pb, q_pb = loc(repo, 'PbnParser', 'parse_board', 'C17.R5')
        deal = 'N:AKQJ.T98.765.432 T98.765.432.AKQJ 765.432.AKQJ.T98 432.AKQJ.T98.765'
        base = {'Deal': deal, 'Dealer': 'N', 'Vulnerable': 'None', 'Board': '1'}
        n = 0
        first_bad = None
        for order in itertools.permutations(base):
            for eol in ('\n', '\r\n'):
                for extra in (False, True):
                    for bid in VALUE_ALPHABET_SAMPLES[:8]:
                        n += 1
                        vals = dict(base, Board=bid)
                        lines = []
                        for i, t in enumerate(order):
                            if extra and i == 1:
                                lines.append(f'[Event "x y"]{eol}')
                                lines.append(f'[OptimumResultTable "Declarer;Denomination\\2R;Result\\2R"]{eol}')
                                lines.append(f'N NT 7{eol}')
                            lines.append(f'[{t} "{vals[t]}"]{eol}')
                        if extra:
                            lines.append(f'[Board "duplicate, ignored"]{eol}')
                        got = fold_parse_board(repo, 'C17.R5', lines)
                        ok = got[0] == 'ok' and isinstance(got[1], dict) and all(got[1].get(k) == v for k, v in vals.items())
                        if not ok and first_bad is None:
                            first_bad = (lines, got)
                    if first_bad:
                        break
        chk.evals(n)
        chk.require(first_bad is None, 'C17.R5', w_pb, q_pb, 'parse_board on tag orders x line ends x extra sections x value alphabet',
                    f'parse_board maps each tag to its first value verbatim on all {n} buffers (any tag order, extra tags/rows, CRLF, duplicates, spaces)',
                    f'buffer {first_bad[0]} -> {first_bad[1]}' if first_bad else '')
        # parse_board_settings: typed flow of the four tags
        pm = pci.module
        _, pbs = repo.method('PbnParser', 'parse_board_settings', 'C17.R5')
        w_s = repo.where(pm, pbs)
        ctor = [c for c in ast.walk(pbs) if isinstance(c, ast.Call) and ast.unparse(c.func) == 'BoardSetting']
        loops = [l for l in ast.walk(pbs) if isinstance(l, ast.For)]
        comps = [g for l in ast.walk(pbs) if isinstance(l, (ast.ListComp, ast.GeneratorExp)) for g in l.generators]
        if len(ctor) == 1 and not loops and len(comps) == 1 and isinstance(comps[0].target, ast.Name):
            # comprehension form: [BoardSetting(...) for game in self.parse_stream(fp)]
            loops = [ast.For(target=comps[0].target, iter=comps[0].iter, body=[], orelse=[])]
            comp_form = True
        else:
            comp_form = False
        if len(ctor) != 1 or len(loops) != 1 or not isinstance(loops[0].target, ast.Name):
            raise AnalysisError('C17.R5', 'PbnParser.parse_board_settings', 'unrecognised shape')
        x = loops[0].target.id
        env = {}
        for st in loops[0].body:
            if isinstance(st, ast.Assign) and isinstance(st.targets[0], ast.Name):
                env[st.targets[0].id] = st.value
        from ..paths import subst
        ti = TypeInfer(repo, pm, {}, raw_names=[x])
        ci = repo.cls('BoardSetting')
        want_tag = {'hands': 'Deal', 'dealer': 'Dealer', 'vul': 'Vulnerable', 'board_id': 'Board'}
        for k in ctor[0].keywords:
            expr = subst(k.value, env)
            ann = parse_annotation(ci.annots[k.arg])
            got = ti.infer(expr)
            bad = mismatch(got, ann)
            chk.require(bad is None, 'C17.R5', repo.where(pm, k.value), 'PbnParser.parse_board_settings', f'{k.arg}={ast.unparse(expr)[:60]}',
                        f'setting field {k.arg}: {show(ann)} receives {show(got)}', f'setting field `{k.arg}` is declared {show(ann)} but receives {bad}')
            tags = {n.slice.value for n in ast.walk(expr) if isinstance(n, ast.Subscript) and isinstance(n.value, ast.Name) and n.value.id == x
                    and isinstance(n.slice, ast.Constant)}
            if k.arg in want_tag:
                chk.require(tags == {want_tag[k.arg]}, 'C17.R5', repo.where(pm, k.value), 'PbnParser.parse_board_settings', f'{k.arg} <- tags {sorted(tags)}',
                            f'setting field {k.arg} is read from tag {want_tag[k.arg]}', f'setting field `{k.arg}` is read from tags {sorted(tags)}, expected {want_tag[k.arg]}')
        check_converters(chk, 'C17.R5', repo, pm, 'PbnParser.parse_board_settings',
                         {k.arg: subst(k.value, env) for k in ctor[0].keywords},
                         {k.arg: parse_annotation(ci.annots[k.arg]) for k in ctor[0].keywords if k.arg in ci.annots})
        app = [c for c in ast.walk(loops[0]) if isinstance(c, ast.Call) and isinstance(c.func, ast.Attribute) and c.func.attr == 'append']
        chk.require((len(app) == 1 or comp_form) and ast.unparse(loops[0].iter).startswith('self.parse_stream('), 'C17.R5', w_s, 'PbnParser.parse_board_settings',
                    'append per game in stream order', 'boards are appended in the order the games are read', 'boards are not appended once per game in stream order')

    try:
        structural()
    except AnalysisError as e_s:
        if chk.findings:
            raise
        chk.note(f'C17: structural rules not evaluated completely ({e_s.rule} at {e_s.anchor}: {e_s.why[:160]}); the verdict rests on the whole-file rule C17.R6 '
                 f'(complete reader / writer folded on file layouts and board sequences) and the rules evaluated before')
