"""C03 - final contract = last bid, its doubling state, its true declarer."""
from __future__ import annotations

import ast

from ..fold import DV, EV, NOVALUE
from ..index import AnalysisError
from .bidding import Bidding
from .c01 import SIDE
from .common import loc


def run(chk):
    """Two deciders: the explicit-state exploration of the folded engine against the Laws (bidfold: public interface only, bounded
    depth + scripted long auctions) and the symbolic path summaries below (all histories, but tied to the shapes the summariser
    recognises).  A representation of the engine state the summaries cannot bind is not an analysis error as long as the
    exploration decides the behaviour; it is recorded in the evidence."""
    from . import bidfold
    bidfold.run(chk, 'C03')
    try:
        symbolic(chk)
    except AnalysisError as e:
        if chk.findings:
            raise
        chk.explanation = ''
        chk.note(f'symbolic rules not evaluated ({e.rule} at {e.anchor}: {e.why[:200]}); the verdict rests on the bounded exploration only')
    chk.explanation = ('Explicit-state exploration of the folded BiddingPhase (numpy vector on a 1-d array model) against an oracle of the Laws: every '
                       'call sequence over an alphabet of all call kinds (pass, double, redouble, cheapest / denomination-changing / same-denomination / '
                       'top bids, insufficient bids) to depth 6 (7 thorough) from dealer N, depth 4-5 from the other dealers and vulnerabilities, plus '
                       'scripted long auctions (the 319-call maximum); at every prefix turn, vector of the 38 calls, histories, end, contract and declarer '
                       'are compared, refused calls and calls after the end must change nothing.  ' + (chk.explanation or
                       'The symbolic path-summary rules could not bind the state representation of this tree and were not evaluated.'))


def symbolic(chk):
    # a failure is reported only for a path whose guards ALL evaluate under the valuation: a guard over state the valuation does not
    # know (another representation of the engine state) makes the path indefinite -> no verdict from this rule (bidfold decides)
    chk.strict_guards = True
    B = Bidding(chk, 'C03')
    f, r = B.f, B.roles
    chk.explanation = (
        'Path-sensitive effect summary of BiddingPhase.take_bid and contract(): the first-to-name table (side x '
        'denomination) is written only on accepting paths of a real bid, under the emptiness test of exactly the slot it '
        'writes, with the seat that made the bid (evaluated for every bid x seat x slot empty/occupied); both doubling '
        'flags are reset by every bid; contract() is evaluated under every valuation (ended or not, no bid / bids, '
        'flags, vulnerability, last bidder, recorded first-namer) and its result compared field by field.')
    chk.note(f'roles: {r.__dict__}')
    nb = len(B.bids)
    suits = {s.name: s for s in f.members('Suit')}
    pairs = {p.name: p for p in f.members('Pair')}

    # ---- R1 first-to-name table ------------------------------------------------------------------------------
    n_store = 0
    for b in B.bids:
        regular = b.value <= nb - 3
        bsuit = f.call_method(b, 'suit') if regular else None
        for a in B.players:
            apair = pairs[SIDE[a.name]]
            for occupied in (False, True):
                chk.evals()
                other = [p for p in B.players if SIDE[p.name] == SIDE[a.name] and p != a][0]
                slot = {}
                for pr in pairs.values():
                    for s in suits.values():
                        slot[(pr, s)] = None
                if regular and occupied:
                    slot[(apair, bsuit)] = other
                pe = B.evaluator({'bid': b, 'slot': 1, 'active': a, 'table_slot': slot})
                for p in B.accept:
                    if not B.consistent(p, pe, b):
                        continue
                    chk.focus(p, pe)
                    stores = [e for e in p.events if e.kind in ('store', 'aug', 'assign') and e.target == r.table]
                    if regular:
                        # flags reset (R2)
                        xp, xxp = B.post(p, r.x, B.evaluator({'bid': b, 'x': True, 'xx': True})), \
                            B.post(p, r.xx, B.evaluator({'bid': b, 'x': True, 'xx': True}))
                        chk.require(xp is False and xxp is False, 'C03.R2', B.where, B.qual, f'flags after bid {b}',
                                    f'a new bid {b} clears doubled and redoubled', f'after a new bid {b} the flags are ({xp},{xxp})')
                        lb, lbd = B.post(p, r.last_bid, pe), B.post(p, r.last_bidder, pe)
                        chk.require(lb == b and lbd == a, 'C03.R2', B.where, B.qual, f'last bid/bidder after {b} by {a.name}',
                                    f'{b} by {a.name} becomes the last bid / last bidder',
                                    f'after {b} by {a.name} last bid = {lb}, last bidder = {lbd}')
                    if not regular or occupied:
                        chk.require(not stores, 'C03.R1', B.repo.where(B.mod, stores[0].node) if stores else B.where, B.qual,
                                    ast.unparse(stores[0].node) if stores else f'no table write for {b}',
                                    f'{b} by {a.name} ({"slot already taken" if occupied else "not a bid"}) leaves the first-to-name table alone',
                                    f'{b} by {a.name}: the first-to-name table is overwritten although '
                                    + ('partner named the denomination first' if occupied else 'the call is not a bid')
                                    + f' (`{ast.unparse(stores[0].node) if stores else ""}`)', path=p.describe())
                        continue
                    good = len(stores) == 1 and stores[0].kind == 'store' and len(stores[0].keys) == 2
                    if good:
                        n_store += 1
                        k1, k2, v = pe.eval(stores[0].keys[0]), pe.eval(stores[0].keys[1]), pe.eval(stores[0].value)
                        good = k1 == apair and k2 == bsuit and v == a
                        why = f'slot written is [{k1}][{k2}] = {v}; expected [{apair}][{bsuit}] = {a}'
                    else:
                        why = f'{len(stores)} writes to the table'
                    chk.require(good, 'C03.R1', B.repo.where(B.mod, stores[0].node) if stores else B.where, B.qual,
                                ast.unparse(stores[0].node) if stores else f'table write for {b}',
                                f'first {b} of side {apair} records {a.name} under its side and denomination',
                                f'{b} by {a.name} with the slot empty: {why}', path=p.describe())
    chk.floor('C03.R1', 'first-to-name stores evaluated', n_store, 35 * 4)
    # a refused call (ILLEGAL / raise) names nothing: the table is written on accepting paths only
    chk.focus(None)
    for p in B.illegal + B.raising:
        stores = [e for e in p.events if e.kind in ('store', 'aug', 'assign') and e.target == r.table]
        chk.require(not stores, 'C03.R1', B.repo.where(B.mod, stores[0].node) if stores else B.where, B.qual,
                    (f'`{ast.unparse(stores[0].node)[:60]}` on a refused call' if stores else f'refused path {p.describe()[-40:]}'),
                    'a refused call does not touch the first-to-name table',
                    f'`{ast.unparse(stores[0].node)[:80] if stores else ""}` is executed on a path that ends {B.kinds[id(p)]}: an insufficient or repeated bid that is '
                    f'REFUSED still registers its denomination for the side, so a partner who later names it legally is not the declarer', path=p.describe())
    # non-bids leave last bid / bidder alone
    for b in B.bids[nb - 3:]:
        pe = B.evaluator({'bid': b, 'slot': 1, 'active': B.players[0], 'last_bid': B.bids[3], 'last_bidder': B.players[2]})
        for p in B.accept:
            if B.consistent(p, pe, b):
                chk.focus(p, pe)
                lb, lbd = B.post(p, r.last_bid, pe), B.post(p, r.last_bidder, pe)
                chk.require(lb == B.bids[3] and lbd == B.players[2], 'C03.R2', B.where, B.qual, f'last bid after {b}',
                            f'{b} does not change the last bid / bidder', f'{b} changes last bid/bidder to {lb}/{lbd}')
    # initial table: all empty
    ip = B.init_paths[0]
    w_init, q_init = loc(chk.repo, 'BiddingPhase', '__init__', 'C03.R1')
    v = ip.env.get(r.table)
    good = isinstance(v, ast.DictComp) and isinstance(v.value, ast.DictComp) and isinstance(v.value.value, ast.Constant) \
        and v.value.value.value is None and ast.unparse(v.generators[0].iter) == 'Pair' and \
        ast.unparse(v.value.generators[0].iter) == 'Suit'
    chk.require(good, 'C03.R1', w_init, q_init, f'{r.table} initial', 'the table starts empty for both sides and all denominations',
                f'first-to-name table starts as `{ast.unparse(v) if v is not None else None}`')

    # ---- R3 contract() -----------------------------------------------------------------------------------------
    w_c, q_c = loc(chk.repo, 'BiddingPhase', 'contract', 'C03.R3')
    cpaths = B.summ.paths('BiddingPhase', 'contract')
    vuls = f.members('Vul')
    N = B.players[0]

    def run_contract(st):
        pe = B.evaluator(st)
        res = []
        for p in cpaths:
            if not B.consistent(p, pe):
                continue
            if p.end[0] != 'return':
                res.append(('raise', None))
                continue
            res.append(('ok', None if p.end[1] is None else pe.eval(p.end[1])))
        return res

    # not finished -> None
    for lb in (None, B.bids[7]):
        chk.evals()
        res = run_contract({'active': N, 'last_bid': lb, 'last_bidder': None if lb is None else N, 'x': False, 'xx': False,
                            'vul': vuls[0], 'table_slot': {}})
        chk.require(res and all(x == ('ok', None) for x in res), 'C03.R3', w_c, q_c, f'contract() before the end (last bid {lb})',
                    'no contract is reported before the auction has ended', f'contract() before the end gives {res}')
    # passed out
    for v in vuls:
        chk.evals()
        res = run_contract({'active': None, 'last_bid': None, 'last_bidder': None, 'x': False, 'xx': False, 'vul': v,
                            'table_slot': {}})
        good = bool(res)
        for x in res:
            c = x[1]
            good = good and x[0] == 'ok' and isinstance(c, DV) and c.fields.get('vul') == v and c.fields.get('declarer') is None \
                and f.call_method(c, 'is_passed_out') is True
        chk.require(good, 'C03.R3', w_c, q_c, f'contract() of a passed-out board, vul {v}',
                    f'a passed-out board gives a passed-out contract carrying vulnerability {v} and no declarer',
                    f'passed-out board with vulnerability {v}: contract() gives {res}')
    # played boards
    reps = [B.bids[0], B.bids[17], B.bids[nb - 4]]
    n = 0
    for b in reps:
        bsuit = f.call_method(b, 'suit')
        for (x0, xx0) in ((False, False), (True, False), (True, True)):
            for v in vuls:
                for bidder in B.players:
                    for decl in [p for p in B.players if SIDE[p.name] == SIDE[bidder.name]]:
                        n += 1
                        slot = {}
                        for pr in pairs.values():
                            for s in suits.values():
                                # every other slot holds a decoy from the wrong side
                                slot[(pr, s)] = [p for p in B.players if SIDE[p.name] != SIDE[bidder.name]][0]
                        slot[(pairs[SIDE[bidder.name]], bsuit)] = decl
                        res = run_contract({'active': None, 'last_bid': b, 'last_bidder': bidder, 'x': x0, 'xx': xx0, 'vul': v,
                                            'table_slot': slot})
                        want = {'final_bid': b, 'x': x0, 'xx': xx0, 'vul': v, 'declarer': decl}
                        good = bool(res) and all(x[0] == 'ok' and isinstance(x[1], DV) and x[1].fields == want for x in res)
                        chk.require(good, 'C03.R3', w_c, q_c,
                                    f'contract() for {b} x={x0} xx={xx0} vul={v.name} last bidder {bidder.name} first namer {decl.name}',
                                    f'contract is {b} (x={x0}, xx={xx0}, {v.name}) declared by the first namer {decl.name}',
                                    f'last bid {b} by {bidder.name}, doubled={x0}, redoubled={xx0}, vul {v.name}, first namer {decl.name}: '
                                    f'contract() gives {[str(x[1]) for x in res]}; expected {want}')
    chk.evals(n)
