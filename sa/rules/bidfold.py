"""Explicit-state exploration of the auction engine (C01, C02, C03).

The real `BiddingPhase` (constructor, take_bid, has_done, contract and the read-only properties) is evaluated by the folder -
its numpy vector on the one-dimensional array model (sa.npstub), nothing of the package is imported or run - from the empty
auction along EVERY call sequence over a call alphabet that contains, at each point, every kind of call the Laws distinguish
(pass, double, redouble, the cheapest sufficient bid, bids that change / keep the denomination, the top bid, and insufficient
bids), to a depth bound; engine snapshots are cloned so the tree is walked without re-running prefixes.  At every node the
observable state of the engine is compared with an oracle of the Laws written here (who is on turn, the advertised vector of
the 38 calls, common and per-seat history, end of the auction, the contract and its declarer), every refused call must leave the
observable state unchanged, and calls after the end must raise and change nothing.  A few scripted long auctions (the longest
possible one, 319 calls, among them) extend the depth.

Unlike the path summaries of c01-c03 this does not depend on how the engine represents its state (look-back at the history, pass
counter, declarer table per side or per denomination ...): only on its public interface.
"""
from __future__ import annotations

import ast
import itertools
from typing import Dict, List, Optional, Tuple

from .. import npstub
from ..fold import DV, EV, FoldRaise, Folder, Unsupported
from ..index import AnalysisError

SEATS = 'NESW'
PASS, X, XX = 35, 36, 37
STRAINS = 'CDHSN'


def strain(i: int) -> int:
    return i % 5


class Laws:
    """The oracle: an auction as a list of call indices (0-34 bids 1C..7NT, 35 pass, 36 double, 37 redouble)."""

    def __init__(self, dealer: str, calls=()):
        self.dealer = dealer
        self.calls: List[int] = list(calls)

    def seat_at(self, i: int) -> str:
        return SEATS[(SEATS.index(self.dealer) + i) % 4]

    @property
    def turn(self) -> Optional[str]:
        return None if self.ended() else self.seat_at(len(self.calls))

    def last_bid(self) -> Optional[Tuple[int, int]]:
        for i in range(len(self.calls) - 1, -1, -1):
            if self.calls[i] < 35:
                return i, self.calls[i]
        return None

    def doubling(self) -> Tuple[bool, bool]:
        lb = self.last_bid()
        after = self.calls[lb[0] + 1:] if lb else []
        return X in after, XX in after

    def ended(self) -> bool:
        c = self.calls
        if len(c) >= 4 and all(x == PASS for x in c[:4]) and len(c) == 4:
            return True
        return len(c) >= 4 and any(x != PASS for x in c) and c[-3:] == [PASS] * 3

    def legal(self, call: int) -> bool:
        if self.ended():
            return False
        if call == PASS:
            return True
        lb = self.last_bid()
        if call < 35:
            return lb is None or call > lb[1]
        if lb is None:
            return False
        me = len(self.calls)
        opp = (me - lb[0]) % 2 == 1          # the last bid was made by an opponent of the seat on turn
        dbl, rdbl = self.doubling()
        if call == X:
            return opp and not dbl and not rdbl
        return (not opp) and dbl and not rdbl

    def mask(self) -> List[int]:
        return [1 if self.legal(c) else 0 for c in range(38)]

    def contract(self):
        """None while the auction runs; ('passed out',) or (bid, doubled, redoubled, declarer seat)."""
        if not self.ended():
            return None
        lb = self.last_bid()
        if lb is None:
            return ('passed out',)
        dbl, rdbl = self.doubling()
        side = lb[0] % 2
        first = next(i for i, c in enumerate(self.calls) if c < 35 and i % 2 == side and strain(c) == strain(lb[1]))
        return (lb[1], dbl and not rdbl, rdbl, self.seat_at(first))

    def share(self, seat: str) -> List[int]:
        return [c for i, c in enumerate(self.calls) if self.seat_at(i) == seat]


def call_name(i: int) -> str:
    return 'Pass' if i == PASS else 'X' if i == X else 'XX' if i == XX else f'{i // 5 + 1}{"CDHSN"[i % 5]}' + ('T' if i % 5 == 4 else '')


def show(calls) -> str:
    return ' '.join(call_name(c) for c in calls) or '(empty auction)'


class Engine:
    """The subject's BiddingPhase under the folder."""

    def __init__(self, repo, steps=40_000_000):
        self.repo = repo
        self.f = Folder(repo, allow_loops=True, max_steps=steps)
        self.f.numpy = npstub
        f = self.f
        bids = f.members('Bid')
        self.bid_by_idx: Dict[int, EV] = {}
        for b in bids:
            try:
                i = f.call_method(b, 'idx')
            except (FoldRaise, Unsupported) as e:
                raise AnalysisError('bidfold', 'Bid.idx', f'cannot evaluate the index of {b.name}: {e}')
            self.bid_by_idx[i] = b
        if sorted(self.bid_by_idx) != list(range(38)):
            raise AnalysisError('bidfold', 'Bid.idx', f'the calls do not have the indices 0..37 ({sorted(self.bid_by_idx)[:5]}...)')
        names = {i: b.name for i, b in self.bid_by_idx.items()}
        if names[PASS] != 'Pass' or names[X] != 'X' or names[XX] != 'XX':
            raise AnalysisError('bidfold', 'Bid.idx', f'Pass/X/XX are not at indices 35/36/37: {names[35]}, {names[36]}, {names[37]}')
        self.idx_of = {b.name: i for i, b in self.bid_by_idx.items()}
        self.players = {p.name: p for p in f.members('Player')}
        self.vuls = {v.name: v for v in f.members('Vul')}
        self.states = {s.name: s for s in f.members('BiddingPhaseState')}

    def new(self, dealer: str, vul: str):
        return self.f._construct(self.repo.cls('BiddingPhase'), [], {'dealer': self.players[dealer], 'vul': self.vuls[vul]})

    def observe(self, e) -> dict:
        f = self.f
        f.steps = 0
        def get(name):
            try:
                return f.call_method(e, name)
            except FoldRaise as r:
                return ('raises', r.kind)
        ap, hist, ph, av, done, con = (get(n) for n in ('active_player', 'bid_history', 'players_bid_history', 'available_bid', 'has_done', 'contract'))
        def bad(x):
            return isinstance(x, tuple) and len(x) == 2 and x[0] == 'raises'
        if any(bad(x) for x in (ap, hist, ph, av, done, con)):
            return {'turn': getattr(ap, 'name', ap), 'history': repr(hist), 'shares': {'?': repr(ph)}, 'mask': repr(av), 'done': repr(done),
                    'contract': con if bad(con) else self.contract_of(con)}
        if not isinstance(av, npstub.Arr):
            raise Unsupported(f'available_bid is {type(av).__name__}, not the modelled array')
        if not isinstance(hist, list) or not isinstance(ph, dict):
            raise Unsupported('bid_history / players_bid_history are not a list / dict')
        return {'turn': getattr(ap, 'name', ap), 'history': [self.idx_of.get(getattr(b, 'name', None), repr(b)) for b in hist],
                'shares': {getattr(k, 'name', repr(k)): [self.idx_of.get(getattr(b, 'name', None), repr(b)) for b in v] for k, v in ph.items()},
                'mask': [1 if x == 1 else 0 if x == 0 else repr(x) for x in av.data], 'done': done, 'contract': self.contract_of(con)}

    def contract_of(self, con):
        if con is None:
            return None
        if not isinstance(con, DV) or con.cls.name != 'Contract':
            return ('?', repr(con))
        fb = con.fields.get('final_bid')
        if fb is None or getattr(fb, 'name', None) == 'Pass':
            return ('passed out', getattr(con.fields.get('vul'), 'name', None), getattr(con.fields.get('declarer'), 'name', None))
        return (self.idx_of.get(getattr(fb, 'name', None), repr(fb)), con.fields.get('x'), con.fields.get('xx'),
                getattr(con.fields.get('declarer'), 'name', None), getattr(con.fields.get('vul'), 'name', None))

    def take(self, e, call: int):
        self.f.steps = 0
        try:
            r = self.f.call_method(e, 'take_bid', self.bid_by_idx[call])
            return ('ok', getattr(r, 'name', repr(r)))
        except FoldRaise as r:
            return ('raise', r.kind)


def alphabet(law: Laws, wide: bool) -> List[int]:
    """Calls offered at a node: every kind the Laws distinguish, legal or not."""
    lb = law.last_bid()
    top = lb[1] if lb else -1
    out = [PASS, X, XX]
    cand = [top + 1, top + 5]
    if wide:
        cand += [top + 2, top + 3, top + 4, top + 6, 34]
    out += [c for c in dict.fromkeys(cand) if 0 <= c <= 34 and c > top]
    if lb:
        out += [c for c in dict.fromkeys([top, top - 1, 0]) if 0 <= c <= top]      # insufficient bids
    return list(dict.fromkeys(out))


class Explorer:
    def __init__(self, chk, eng: Engine, where: Dict[str, Tuple[str, str]]):
        self.chk, self.eng, self.where = chk, eng, where
        self.nodes = self.refusals = self.accepted = self.ends = 0
        self.reported = set()

    def fail(self, rule: str, anchor: str, construct: str, reason: str):
        key = (rule, construct)
        if key in self.reported:
            return
        self.reported.add(key)
        w, q = self.where[anchor]
        self.chk.fail(rule, w, q, construct, reason)

    def compare(self, obs: dict, law: Laws, vul: str, ctx: str):
        """Observable state of the engine against the oracle after the calls of `law`."""
        turn = law.turn
        if obs['turn'] != turn:
            self.fail('C02.R5', 'take_bid', 'seat on turn after an accepted call',
                      f'after {ctx} the engine has {obs["turn"]} on turn; clockwise rotation from the dealer gives {turn}')
        if bool(obs['done']) != law.ended():
            self.fail('C02.R5', 'has_done', 'end of the auction',
                      f'after {ctx} has_done() is {obs["done"]}; by the Laws the auction has {"ended" if law.ended() else "not ended"} '
                      f'(four opening passes, or three passes after a bid, double or redouble)')
        if obs['history'] != law.calls:
            self.fail('C02.R5', 'take_bid', 'common call history', f'after {ctx} the history is {show(obs["history"]) if all(isinstance(x, int) for x in obs["history"]) else obs["history"]}')
        for s in SEATS:
            if obs['shares'].get(s) != law.share(s):
                self.fail('C02.R5', 'take_bid', 'per-seat call lists',
                          f'after {ctx} the call list of {s} is {obs["shares"].get(s)}, its share of the history is {law.share(s)} (= {show(law.share(s))})')
                break
        if not law.ended():
            want = law.mask()
            if obs['mask'] != want:
                diff = [i for i in range(38) if i >= len(obs['mask']) or obs['mask'][i] != want[i]]
                i = diff[0]
                self.fail('C01.R9', 'take_bid', f'advertised vector: {call_name(i)} {"offered though illegal" if not want[i] else "not offered though legal"}',
                          f'after {ctx} the vector of available calls has {obs["mask"][i] if i < len(obs["mask"]) else "no entry"} for {call_name(i)}; '
                          f'by the Laws that call is {"legal" if want[i] else "illegal"} for {law.turn} here (differences at {[call_name(j) for j in diff[:6]]})')
        want_c = law.contract()
        got = obs['contract']
        if want_c is None:
            if got is not None:
                self.fail('C03.R4', 'contract', 'contract reported before the auction has ended', f'after {ctx} (auction not ended) contract() reports {got}')
        elif want_c == ('passed out',):
            if not (got and got[0] == 'passed out' and got[1] == vul and got[2] is None):
                self.fail('C03.R4', 'contract', 'passed-out board', f'after {ctx} contract() is {got}; the board is passed out (no declarer, vulnerability {vul})')
        else:
            exp = (want_c[0], want_c[1], want_c[2], want_c[3], vul)
            # a redoubled contract may carry the superseded double flag as well (the package's own convention: XX is looked at first)
            g2 = (got[0], bool(got[1]) and not bool(got[2]), bool(got[2]), got[3], got[4]) if got and len(got) == 5 else got
            if g2 != exp:
                what = 'declarer' if got and len(got) == 5 and (g2[0], g2[1], g2[2], g2[4]) == (exp[0], exp[1], exp[2], exp[4]) else 'contract'
                self.fail('C03.R4', 'contract', f'final {what}',
                          f'after {ctx} contract() is {call_name(got[0]) if got and isinstance(got[0], int) else got}'
                          f'{"XX" if got and len(got) == 5 and got[2] else "X" if got and len(got) == 5 and got[1] else ""} by {got[3] if got and len(got) == 5 else "?"} '
                          f'(vul {got[4] if got and len(got) == 5 else "?"}); by the Laws it is {call_name(exp[0])}{"XX" if exp[2] else "X" if exp[1] else ""} by {exp[3]} (vul {vul}): '
                          f'declarer is the first of the side of the last bid to have named its denomination')

    def step(self, e, law: Laws, call: int, vul: str, before: dict):
        """Offer `call` at the node (e, law): returns the engine after the call if it was accepted by both, else None."""
        ctx0 = show(law.calls)
        legal = law.legal(call)
        e2 = self.eng.f.clone(e)
        res = self.eng.take(e2, call)
        if legal:
            law2 = Laws(law.dealer, law.calls + [call])
            want = 'FINISHED' if law2.ended() else 'ONGOING'
            if res == ('ok', 'ILLEGAL') or res[0] == 'raise':
                self.fail('C01.R9', 'take_bid', f'legal {call_name(call) if call >= 35 else "bid"} refused',
                          f'after {ctx0} the call {call_name(call)} by {law.turn} is legal but the engine answers {res[1]}')
                return None
            if res != ('ok', want):
                self.fail('C02.R5', 'take_bid', f'state returned: {res[1]} where the auction is {want}',
                          f'after {ctx0} the call {call_name(call)} returns {res[1]}; by the Laws the auction is then {want} '
                          f'(it ends exactly on four opening passes or three passes after a bid, double or redouble)')
            self.accepted += 1
            obs = self.eng.observe(e2)
            self.compare(obs, law2, vul, show(law2.calls))
            return e2, law2, obs
        self.refusals += 1
        if res != ('ok', 'ILLEGAL'):
            kind = 'double' if call == X else 'redouble' if call == XX else 'insufficient bid'
            self.fail('C01.R9', 'take_bid', f'illegal {kind} accepted' if res[0] == 'ok' else f'illegal {kind} raises instead of being reported',
                      f'after {ctx0} the call {call_name(call)} by {law.turn} is illegal but take_bid answers {res[1]} (it must report ILLEGAL)')
        obs = self.eng.observe(e2)
        if obs != before:
            ch = [k for k in before if obs[k] != before[k]]
            self.fail('C01.R9', 'take_bid', f'refused call changes the auction ({", ".join(ch)})',
                      f'after {ctx0} the illegal call {call_name(call)} is answered {res[1]} but changes {ch}: e.g. {ch[0]} {before[ch[0]]} -> {obs[ch[0]]}')
        return None

    def after_end(self, e, law: Laws, before: dict):
        for call in (PASS, 34, X):
            e2 = self.eng.f.clone(e)
            res = self.eng.take(e2, call)
            if res[0] != 'raise':
                self.fail('C02.R5', 'take_bid', 'call after the end of the auction is not refused with an error',
                          f'after {show(law.calls)} (auction ended) take_bid({call_name(call)}) returns {res[1]}; it must raise')
            obs = self.eng.observe(e2)
            if obs != before:
                ch = [k for k in before if obs[k] != before[k]]
                self.fail('C02.R5', 'take_bid', f'call after the end changes the auction ({", ".join(ch)})',
                          f'after {show(law.calls)} (auction ended) take_bid({call_name(call)}) changes {ch}')

    def explore(self, dealer: str, vul: str, depth: int, wide_to: int, prefix=()):
        eng = self.eng
        e0 = eng.new(dealer, vul)
        law0 = Laws(dealer)
        obs0 = eng.observe(e0)
        if not prefix:
            self.compare(obs0, law0, vul, 'the empty auction')
        for c in prefix:        # the prefix itself is walked (and compared) by the task that owns the shorter prefix
            if eng.take(e0, c)[0] != 'ok':
                return
            law0 = Laws(dealer, law0.calls + [c])
        if prefix:
            obs0 = eng.observe(e0)
        stack = [(e0, law0, obs0)]
        while stack:
            e, law, obs = stack.pop()
            self.nodes += 1
            self.chk.evals()
            if law.ended():
                self.ends += 1
                self.after_end(e, law, obs)
                continue
            if len(law.calls) >= depth:
                continue
            for call in alphabet(law, len(law.calls) < wide_to):
                nxt = self.step(e, law, call, vul, obs)
                if nxt is not None:
                    stack.append(nxt)

    def scripted(self, dealer: str, vul: str, calls: List[int], full_probe_every: int = 0, sticky: bool = False):
        """One long auction, every prefix compared; optionally all 38 calls are offered at every k-th prefix.  `sticky`: every illegal call
        is first offered to the SAME engine at every prefix (a table manager may go on after a refused call): the refusals must leave no
        trace in anything the engine answers later - the turn, the histories, the end, the contract and its declarer."""
        eng = self.eng
        e = eng.new(dealer, vul)
        law = Laws(dealer)
        obs = eng.observe(e)
        for n, call in enumerate(calls):
            if law.ended():
                break
            if sticky:
                for c in range(38):
                    if not law.legal(c):
                        self.refusals += 1
                        res = eng.take(e, c)
                        if res != ('ok', 'ILLEGAL'):
                            self.fail('C01.R9', 'take_bid', 'illegal call accepted' if res[0] == 'ok' else 'illegal call raises instead of being reported',
                                      f'after {show(law.calls)} the call {call_name(c)} by {law.turn} is illegal but take_bid answers {res[1]} (it must report ILLEGAL)')
                            return
                now = eng.observe(e)
                if now != obs:
                    ch = [k for k in obs if now[k] != obs[k]]
                    self.fail('C01.R9', 'take_bid', f'refused calls change the auction ({", ".join(ch)})',
                              f'after {show(law.calls)} the illegal calls offered to the same engine change {ch}')
                    return
            if full_probe_every and n % full_probe_every == 0:
                for c in range(38):
                    if c != call:
                        self.step(e, law, c, vul, obs)
            nxt = self.step(e, law, call, vul, obs)
            self.nodes += 1
            self.chk.evals()
            if nxt is None:
                return
            e, law, obs = nxt
        if law.ended():
            self.ends += 1
            self.after_end(e, law, obs)


def longest_auction() -> List[int]:
    out = [PASS, PASS, PASS]
    for b in range(35):
        out += [b, PASS, PASS, X, PASS, PASS, XX, PASS, PASS]
    return out + [PASS]


SCRIPTS = [
    ('the longest possible auction (319 calls)', 'N', 'NONE', longest_auction(), 40),
    ('every bid in turn, no passes', 'E', 'BOTH', list(range(35)) + [PASS, PASS, PASS], 7),
    ('three opening passes then a bid', 'S', 'NS', [PASS, PASS, PASS, 0, PASS, PASS, PASS], 1),
    ('passes separated by doubles', 'W', 'EW', [0, PASS, PASS, X, PASS, PASS, XX, PASS, PASS, PASS], 1),
    ('double superseded by a higher bid', 'N', 'NS', [5, X, 7, PASS, PASS, X, PASS, PASS, 12, PASS, PASS, PASS], 1),
    ('both partners and both sides name the final denomination', 'E', 'EW', [3, 8, 13, PASS, 18, PASS, PASS, 23, PASS, PASS, X, PASS, PASS, PASS], 1),
    ('opponent names the denomination between the partners', 'S', 'NONE', [3, 8, 13, PASS, PASS, PASS], 1),
    ('fourth seat re-opens', 'W', 'BOTH', [0, PASS, PASS, 1, PASS, PASS, X, PASS, PASS, PASS], 1),
]


# auctions in which a refused (insufficient) bid names a denomination before the side really names it
STICKY = [
    ('partner names the denomination a refused bid named first', 'N', 'NONE', [2, PASS, 6, PASS, 10, PASS, PASS, PASS], 0),        # 1H P 2D P 3C P P P
    ('an opponent\'s refused bid names the final denomination', 'E', 'NS', [4, 8, PASS, 14, PASS, PASS, PASS], 0),
    ('refused doubles and redoubles around a double', 'S', 'BOTH', [7, PASS, PASS, X, PASS, 13, X, XX, PASS, PASS, PASS], 0),
    ('every denomination named upwards by alternating partners', 'W', 'EW', [0, PASS, 6, PASS, 12, PASS, 18, PASS, 24, PASS, PASS, PASS], 0),
]


class _Sink:
    def __init__(self):
        self.items = []

    def fail(self, rule, w, q, construct, reason):
        self.items.append((rule, w, q, construct, reason))

    def evals(self, n=1):
        pass


_ENGINES: dict = {}


def _task(arg):
    root, t = arg
    from ..index import Repo
    try:
        if root not in _ENGINES:
            repo = Repo(root)
            eng = Engine(repo)
            where = {}
            for m in ('take_bid', 'has_done', 'contract'):
                c, fn = repo.method('BiddingPhase', m, 'bidfold')
                where[m] = (repo.where(c.module, fn), f'BiddingPhase.{m}')
            _ENGINES[root] = (eng, where)
        eng, where = _ENGINES[root]
        sink = _Sink()
        ex = Explorer(sink, eng, where)
        eng.f.optimize = bool(t[-1])
        try:
            if t[0] == 'tree':
                ex.explore(t[1], t[2], t[3], t[4], t[5])
            elif t[0] == 'sticky':
                ex.scripted(t[1], t[2], t[3], 0, sticky=True)
            else:
                ex.scripted(t[1], t[2], t[3], t[4])
        finally:
            eng.f.optimize = False
        if t[-1]:
            sink.items = [(r, w, q, c + ' [python -O]', why + ' - with assert statements disabled (python -O / PYTHONOPTIMIZE), which the property does not exclude')
                          for r, w, q, c, why in sink.items]
        return {'items': sink.items, 'nodes': ex.nodes, 'accepted': ex.accepted, 'refusals': ex.refusals, 'ends': ex.ends}
    except (Unsupported, AnalysisError) as e:
        return {'error': str(e)[:300], 'items': [], 'nodes': 0, 'accepted': 0, 'refusals': 0, 'ends': 0}


_RESULTS: dict = {}


def _explore(repo, tier: str, pid: str):
    """One exploration per process, repository and tier (the three properties and the checks that rest on them share it)."""
    quick = tier == 'quick'
    tasks = []
    d0, w0 = (6, 2) if quick else (7, 3)
    # the tree from the empty auction is split at depth 2 into independent subtrees (one worker each)
    root = Laws('N')
    tasks.append(('tree', 'N', 'NONE', 2, w0, (), False))
    for c1 in alphabet(root, True):
        if not root.legal(c1):
            continue
        l1 = Laws('N', [c1])
        for c2 in alphabet(l1, 1 < w0):
            if l1.legal(c2):
                tasks.append(('tree', 'N', 'NONE', d0, w0, (c1, c2), False))
    for d, v, dep in (('E', 'NS', 4), ('S', 'EW', 4), ('W', 'BOTH', 4)):
        tasks.append(('tree', d, v, dep if quick else dep + 1, 1, (), False))
    for name, d, v, calls, probe in SCRIPTS:
        tasks.append(('script', d, v, calls, probe if not quick else probe * 4, False))
    # refused calls offered to the same engine all along the auction (exception safety of take_bid towards everything answered later)
    for name, d, v, calls, probe in SCRIPTS[1:] + STICKY:
        tasks.append(('sticky', d, v, calls, 0, False))
    # the same engine as compiled by `python -O` (assert statements removed): a guard written as an assert is no guard there
    tasks.append(('tree', 'N', 'NONE', 4 if quick else 5, 1, (), True))
    for name, d, v, calls, probe in SCRIPTS[1:]:
        tasks.append(('script', d, v, calls, probe * 4, True))
    work = [(repo.root, t) for t in tasks]
    import os
    from concurrent.futures import ProcessPoolExecutor
    if os.environ.get('SA_SERIAL') == '1':
        res = [_task(x) for x in work]
    else:
        with ProcessPoolExecutor(max_workers=__import__('sa.rules.common', fromlist=['pool_size']).pool_size(len(work))) as pool:
            res = list(pool.map(_task, work, chunksize=1))
    items, seen = [], set()
    tot = {'nodes': 0, 'accepted': 0, 'refusals': 0, 'ends': 0}
    for r in res:
        if r.get('error'):
            raise AnalysisError(f'{pid}.fold', 'BiddingPhase', f'the auction engine left the foldable subset: {r["error"]}')
        for it in r['items']:
            if (it[0], it[3]) not in seen:
                seen.add((it[0], it[3]))
                items.append(it)
        for k in tot:
            tot[k] += r[k]
    return items, tot


def run(chk, pid: str):
    """Adds the findings of the exploration that belong to property `pid` (C01 / C02 / C03) to the check."""
    key = (chk.repo.root, chk.tier)
    if key not in _RESULTS:
        _RESULTS[key] = _explore(chk.repo, chk.tier, pid)
    items, tot = _RESULTS[key]
    chk.evals(tot['nodes'])

    class ex:       # totals, for the evidence text
        nodes, accepted, refusals, ends = tot['nodes'], tot['accepted'], tot['refusals'], tot['ends']

    class sink:
        pass
    sink.items = items
    quick = chk.tier == 'quick'
    rules = {'C01': 'C01.R9', 'C02': 'C02.R5', 'C03': 'C03.R4'}
    mine = rules[pid]
    n = 0
    for rule, w, q, construct, reason in sink.items:
        if rule == mine:
            n += 1
            chk.fail(rule, w, q, construct, reason)
    what = {'C01': 'every offered call is accepted iff legal, the advertised vector is the legal set, refused calls change nothing',
            'C02': 'clockwise turn, per-seat shares, the auction ends exactly when it must, calls after the end raise and change nothing',
            'C03': 'no contract before the end; at the end the last bid, its doubling state, vulnerability and true declarer'}[pid]
    if n == 0:
        chk.ok(mine, 'BiddingPhase (folded engine against the Laws)',
               f'{ex.nodes} auction prefixes explored ({ex.accepted} accepted calls, {ex.refusals} refused calls, {ex.ends} completed auctions; '
               f'longest 319 calls): {what}')
    chk.floor(mine, 'auction prefixes explored', ex.nodes, 1500 if quick else 8000)
    chk.instances(mine, ex.nodes)
    return ex
