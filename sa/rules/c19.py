"""C19 - protocol messages mean the same to both ends; CR LF framing terminates.

Builder/parser agreement is decided by folding, inside the analyser, the *real* builder code of
one end over the complete finite domain (or a covering family) and handing the resulting text to
the *real* parser code of the other end - including the call-site wiring (which name a parser is
given, which normalisation the server applies first).  The socket layer is replaced by scripted
message endpoints; nothing is imported, no socket exists."""
from __future__ import annotations

import ast
import itertools

from ..fold import DV, EV, ClsRef, Folder, FoldRaise, Unsupported
from ..index import AnalysisError, parent
from .c13 import stmt_of
from .common import loc
from .netio import (Endpoint, ScriptSock, TEAM_NAMES, call_in, card, contains_call, reach, eval_in, fresh, hand_family,
                    method_calls, new_folder, seats)


def case_variants(s: str):
    return list(dict.fromkeys([s, s.upper(), s.lower(), s.title(), s.swapcase()]))


def free_names(stmts, mod):
    loaded, stored = [], set()
    for st in stmts:
        for n in ast.walk(st):
            if isinstance(n, ast.Name):
                if isinstance(n.ctx, ast.Store):
                    stored.add(n.id)
                elif n.id not in loaded:
                    loaded.append(n.id)
    return [n for n in loaded if n not in stored and n not in mod.imports and n not in mod.classes
            and n not in mod.functions and n not in mod.constants]


def server_call_fragment(repo, rule):
    """The statements Server.bidding_phase applies to a call message between taking it from the
    acting seat's queue and having the call object: (stmts, message variable, seat variable, result variable)."""
    ci, fn0 = repo.method('Server', 'bidding_phase', rule)
    # the statements may sit in the auction loop itself or in a helper method it calls: every statement block of the methods of Server
    # reachable from bidding_phase through self-calls is a candidate
    seen, todo, fns = set(), [fn0], []
    while todo:
        g = todo.pop()
        if id(g) in seen:
            continue
        seen.add(id(g))
        fns.append(g)
        for n in ast.walk(g):
            if isinstance(n, ast.Call) and isinstance(n.func, ast.Attribute) and isinstance(n.func.value, ast.Name) and n.func.value.id == 'self':
                for c in repo.mro(ci):
                    if n.func.attr in c.methods:
                        todo.append(c.methods[n.func.attr])
                        break
    for fn in fns:
        blocks = [fn.body] + [getattr(n, a) for n in ast.walk(fn) for a in ('body', 'orelse') if isinstance(n, (ast.While, ast.For, ast.If, ast.With)) and getattr(n, a, None)]
        for body in blocks:
            gi = pi = None
            for i, st in enumerate(body):
                if isinstance(st, ast.Assign) and isinstance(st.targets[0], ast.Name):
                    if gi is None and contains_call(st.value, 'get'):
                        gi = i
                    if contains_call(st.value, 'parse_bid'):
                        pi = i
            if gi is not None and pi is not None and gi < pi:
                frag = body[gi + 1:pi + 1]
                msgvar = body[gi].targets[0].id
                res = body[pi].targets[0].id
                fr = [n for n in free_names(frag, ci.module) if n not in (msgvar, 'self', 'logger')]
                if len(fr) != 1:
                    raise AnalysisError(rule, f'Server.{fn.name}', f'call-normalisation fragment depends on {fr}, expected the acting seat only')
                return ci, fn, frag, msgvar, fr[0], res
    raise AnalysisError(rule, 'Server.bidding_phase', 'cannot locate `msg = queue.get()` ... `parse_bid(msg, seat)` in the auction loop')


def run(chk):
    repo = chk.repo
    chk.explanation = (
        'Every builder of one end is folded over its complete domain and the text is given to the other end\'s real parser code, call-site '
        'wiring included: R1 hands (own and dummy; 105-hand covering family x 4 seats: server put-expression -> Client._deal / parse_cards / '
        'parse_hand); R2 calls (38 calls x 4 seats x case variants x alert suffixes: Client.create_bid_message -> the server\'s own '
        'normalisation statements -> parse_bid, and the relayed text -> the other clients\' parse_bid); R3 cards (52 x 4 seats x 2 notations '
        'x case variants -> parse_card); R4 board header (numbers x 4 dealers x 4 vulnerabilities -> Client._deal); R5 connection dialogue '
        '(Client._connect and PlayerThread._connect folded against each other\'s recorded output for 4 seats x team-name family); R6 lead '
        'prompts, start/end literals and the deal-phase ready lines; R7 framing: the terminator appended by send_message is what '
        'receive_message consumes, message sequences are returned intact for every chunking of the byte stream (every composition of a '
        '2-message stream unless every recv asks for 1 byte, in which case chunking cannot matter); R8 end-of-stream at every position '
        '(between messages, inside one, after CR) ends receive_message with an exception within a bounded number of steps.')
    chk.trusted += ['sa.fold partial evaluator (stdlib re / str / bytes semantics are CPython\'s own)']
    chk.assumptions += ['team names contain no double quote and no CR/LF (as the property states)',
                        'calls/cards outside the 38 x 52 domain are not sent by conforming peers']
    f = new_folder(repo)
    P = seats(f)
    srv = repo.cls('Server', 'C19')
    cli = repo.cls('Client', 'C19')
    pth = repo.cls('PlayerThread', 'C19')
    mi = repo.cls('MessageInterface', 'C19')
    sm, cm = srv.module, cli.module

    # ------------------------------------------------------------------------------------------------------------------
    # R1 / R4: Server.deal's two put-expressions -> Client._deal
    # ------------------------------------------------------------------------------------------------------------------
    _, deal_fn = repo.method('Server', 'deal', 'C19.R1')
    w_deal, q_deal = loc(repo, 'Server', 'deal', 'C19.R1')
    w_cdeal, q_cdeal = loc(repo, 'Client', '_deal', 'C19.R1')
    puts = [p for p in method_calls(deal_fn, 'put') if p.args]
    hand_puts = [p for p in puts if contains_call(p.args[0], 'hand_to_str')]
    hdr_puts = [p for p in puts if not contains_call(p.args[0], 'hand_to_str')]
    chk.floor('C19.R1', 'hand message builder in Server.deal', len(hand_puts), 1)
    chk.floor('C19.R4', 'board header builder in Server.deal', len(hdr_puts), 1)
    if len(hand_puts) != 1 or len(hdr_puts) != 1:
        raise AnalysisError('C19.R1', q_deal, f'expected one header and one hand message per seat, found {len(hdr_puts)} + {len(hand_puts)}')
    loopvars = [n.target.id for n in ast.walk(deal_fn) if isinstance(n, ast.For) and isinstance(n.target, ast.Name)
                and hand_puts[0] in list(ast.walk(n))]
    if not loopvars:
        raise AnalysisError('C19.R1', q_deal, 'the hand message is not built inside a loop over the seats')
    seatvar = loopvars[-1]
    params = [a.arg for a in deal_fn.args.args]

    def deal_env(seat, hand, board_number=1, dealer=None, vul=None):
        env = {'self': ClsRef(srv), seatvar: seat}
        for prm in params[1:]:
            ann = next((ast.unparse(a.annotation) for a in deal_fn.args.args if a.arg == prm and a.annotation is not None), '')
            if ann == 'int':
                env[prm] = board_number
            elif ann == 'Player':
                env[prm] = dealer or P[0]
            elif ann == 'Vul':
                env[prm] = vul or f.member('Vul', 'NONE')
            elif ann == 'Hands':
                env[prm] = {seat: set(hand)}
        return env

    def client_deal(seat, header, handmsg):
        ep = Endpoint([header, handmsg])
        ep.install(f)
        c = fresh(f, 'Client', player=seat)
        r = call_in('C19.R1', q_cdeal, lambda: f.call_method(c, '_deal'))
        return r, c, ep

    fam = hand_family(f)
    n_h = 0
    default_hdr = None
    for seat in P:
        for name, hand in fam:
            env = deal_env(seat, hand)
            hm = eval_in(f, hand_puts[0].args[0], env, sm, srv, 'C19.R1', q_deal)
            hd = eval_in(f, hdr_puts[0].args[0], env, sm, srv, 'C19.R4', q_deal)
            chk.evals(1)
            if hm[0] != 'ok' or hd[0] != 'ok' or not isinstance(hm[1], str):
                chk.fail('C19.R1', w_deal, q_deal, f'hand message for {name}', f'building the hand message for seat {seat.name}, hand {name} raises {hm}')
                continue
            default_hdr = hd[1]
            r, c, ep = client_deal(seat, hd[1], hm[1])
            good = r[0] == 'ok' and c.fields.get('hand_set') == set(hand) and \
                isinstance(c.fields.get('hand_binary'), tuple) and len(c.fields['hand_binary']) == 52 and \
                {i for i, b in enumerate(c.fields['hand_binary']) if b} == {f._int(x) for x in hand} and \
                all(b in (0, 1) for b in c.fields['hand_binary'])
            n_h += 1
            chk.require(good, 'C19.R1', w_deal, q_deal, f'hand text {seat.name} {name}',
                        f'hand ({name}) sent to {seat.name} is read back as the same cards',
                        f'hand `{hm[1]}` built for {seat.name} ({name}) is read by Client._deal as '
                        f'{sorted(map(f.str_of, c.fields.get("hand_set", []))) if r[0] == "ok" else r} '
                        f'(expected {sorted(map(f.str_of, hand))})')
    chk.instances('C19.R1', n_h)

    # dummy's hand: Server.playing_phase builder -> Client.playing_phase's parse_hand(parse_cards(.., <name>))
    _, spp = repo.method('Server', 'playing_phase', 'C19.R1')
    w_spp, q_spp = loc(repo, 'Server', 'playing_phase', 'C19.R1')
    spp_all = reach(repo, 'Server', 'playing_phase', 'C19.R1')       # the method and the helper methods it calls
    dh = [n for n in ast.walk(spp_all) if isinstance(n, ast.Call) and isinstance(n.func, ast.Attribute) and n.func.attr == 'hand_to_str']
    chk.floor('C19.R1', 'dummy hand builder in Server.playing_phase', len(dh), 1)
    dexpr = dh[0]
    while isinstance(parent(dexpr), (ast.BinOp, ast.JoinedStr, ast.FormattedValue)):
        dexpr = parent(dexpr)
    harg = dh[0].args[0]
    _, cpp = repo.method('Client', 'playing_phase', 'C19.R1')
    w_cpp, q_cpp = loc(repo, 'Client', 'playing_phase', 'C19.R1')
    cpp_all = reach(repo, 'Client', 'playing_phase', 'C19.R1')
    pcs = [n for n in method_calls(cpp_all, 'parse_cards')]
    chk.floor('C19.R1', 'dummy hand reader in Client.playing_phase', len(pcs), 1)
    pc = pcs[0]
    ph = parent(pc)
    if not (isinstance(ph, ast.Call) and isinstance(ph.func, ast.Attribute) and ph.func.attr == 'parse_hand'):
        raise AnalysisError('C19.R1', q_cpp, 'dummy hand is not read by parse_hand(parse_cards(...))')
    if len(pc.args) < 2:
        raise AnalysisError('C19.R1', q_cpp, 'parse_cards call without a name argument')
    n_d = 0
    for name, hand in fam:
        class _M(ast.NodeTransformer):
            def visit(self, node):
                if node is harg:
                    return ast.Name('__hand', ast.Load())
                return super().visit(node)
        from ..index import clone
        # evaluate the builder with the hand argument bound
        dx = clone(dexpr)
        # locate the clone of harg by text
        htxt = ast.unparse(harg)

        class _R(ast.NodeTransformer):
            def generic_visit(self, node):
                if isinstance(node, ast.expr) and ast.unparse(node) == htxt:
                    return ast.Name('__hand', ast.Load())
                return super().generic_visit(node)
        dx = _R().visit(dx)
        dm = eval_in(f, dx, {'self': ClsRef(srv), '__hand': set(hand)}, sm, srv, 'C19.R1', q_spp)
        chk.evals(1)
        if dm[0] != 'ok':
            chk.fail('C19.R1', w_spp, q_spp, f'dummy hand message {name}', f'building dummy\'s hand message for {name} raises {dm}')
            continue
        for seat in P[:1]:
            c = fresh(f, 'Client', player=seat)
            nm = eval_in(f, pc.args[1], {'self': c}, cm, cli, 'C19.R1', q_cpp)
            r = call_in('C19.R1', q_cpp, lambda: f.call_class('Client', 'parse_hand', f.call_class('Client', 'parse_cards', dm[1], nm[1])))
            n_d += 1
            good = r[0] == 'ok' and r[1][0] == set(hand)
            chk.require(good, 'C19.R1', w_spp, q_spp, f'dummy hand text {name}', f'dummy\'s hand ({name}) is read back as the same cards',
                        f'dummy hand message `{dm[1]}` is read by the client (parse_cards(.., {nm[1]!r}) -> parse_hand) as '
                        f'{sorted(map(f.str_of, r[1][0])) if r[0] == "ok" else r}, expected {sorted(map(f.str_of, hand))}')
    chk.instances('C19.R1', n_d)

    # ---- R4 header ----------------------------------------------------------------------------------------------------
    n_b = 0
    one_hand = fam[-3][1]
    for bn in (1, 2, 9, 10, 16, 100, 4096):
        for dealer in P:
            for vul in f.members('Vul'):
                env = deal_env(P[0], one_hand, bn, dealer, vul)
                hd = eval_in(f, hdr_puts[0].args[0], env, sm, srv, 'C19.R4', q_deal)
                hm = eval_in(f, hand_puts[0].args[0], env, sm, srv, 'C19.R4', q_deal)
                chk.evals(1)
                if hd[0] != 'ok':
                    chk.fail('C19.R4', w_deal, q_deal, f'header {bn} {dealer.name} {vul.name}', f'building the board header raises {hd}')
                    continue
                r, c, ep = client_deal(P[0], hd[1], hm[1])
                got = (c.fields.get('board_num'), c.fields.get('dealer'), c.fields.get('vul')) if r[0] == 'ok' else r
                n_b += 1
                chk.require(got == (bn, dealer, vul), 'C19.R4', w_deal, q_deal, f'header {bn}/{dealer.name}/{vul.name}',
                            f'board header ({bn}, {dealer.name}, {vul.name}) is read back as the same values',
                            f'header `{hd[1]}` is read by Client._deal as {got}, expected ({bn}, {dealer}, {vul})')
    chk.instances('C19.R4', n_b)

    # ------------------------------------------------------------------------------------------------------------------
    # R2 calls
    # ------------------------------------------------------------------------------------------------------------------
    sci, sbp, frag, msgvar, seatv, resv = server_call_fragment(repo, 'C19.R2')
    w_sbp, q_sbp = loc(repo, 'Server', 'bidding_phase', 'C19.R2')
    _, cbp = repo.method('Client', 'bidding_phase', 'C19.R2')
    w_cbp, q_cbp = loc(repo, 'Client', 'bidding_phase', 'C19.R2')
    cbm = [n for n in method_calls(reach(repo, 'Client', 'bidding_phase', 'C19.R2'), 'create_bid_message')]
    chk.floor('C19.R2', 'call message builder call site in Client.bidding_phase', len(cbm), 1)
    bids = f.members('Bid')
    if len(bids) != 38:
        raise AnalysisError('C19.R2', 'Bid', f'{len(bids)} calls found, 38 expected')
    alerts = ['', ' Alert.', ' alert.', '  ALERT. ', ' Alert. ']
    n_c = 0
    for seat in P:
        c = fresh(f, 'Client', player=seat)
        for bid in bids:
            args = []
            for a in cbm[0].args:
                if isinstance(a, ast.Name):
                    args.append(bid)
                else:
                    v = eval_in(f, a, {'self': c}, cm, cli, 'C19.R2', q_cbp)
                    args.append(v[1])
            built = call_in('C19.R2', q_cbp, lambda: f.call_class('Client', 'create_bid_message', *args))
            if built[0] != 'ok' or not isinstance(built[1], str):
                chk.fail('C19.R2', w_cbp, q_cbp, f'create_bid_message {bid.name}', f'building the message for {bid.name} by {seat.name}: {built}')
                continue
            for text in case_variants(built[1]):
                for al in alerts:
                    msg = text + al
                    env = {'self': ClsRef(srv), msgvar: msg, seatv: seat}
                    chk.evals(1)
                    try:
                        f.steps = 0
                        f._block(frag, env, sm, srv)
                        got = env.get(resv)
                        relayed = env.get(msgvar)
                    except FoldRaise as r:
                        got, relayed = ('raise', r.kind), None
                    except Unsupported as e:
                        raise AnalysisError('C19.R2', q_sbp, f'call normalisation left the foldable subset: {e}')
                    n_c += 1
                    ok = got == bid
                    chk.require(ok, 'C19.R2', w_sbp, q_sbp, f'call {bid.name} by {seat.name} as {msg!r}',
                                f'{bid.name} sent by {seat.name} is understood by the table manager',
                                f'call message {msg!r} ({bid.name} by {seat.name}) is understood by the server as {got}')
                    if ok and isinstance(relayed, str):
                        r2 = call_in('C19.R2', 'MessageInterface.parse_bid',
                                     lambda: f.call_class('MessageInterface', 'parse_bid', relayed, f._attr(seat, 'formal_name')))
                        chk.require(r2 == ('ok', bid), 'C19.R2', w_sbp, q_sbp, f'relayed call {bid.name} by {seat.name} as {relayed!r}',
                                    f'{bid.name} as relayed is understood by the other seats',
                                    f'relayed call message {relayed!r} ({bid.name} by {seat.name}, originally {msg!r}) is understood by a client as {r2}')
    chk.instances('C19.R2', n_c)

    # ------------------------------------------------------------------------------------------------------------------
    # R3 cards
    # ------------------------------------------------------------------------------------------------------------------
    sends = [n for n in method_calls(cpp_all, 'send_message') if n.args and contains_call(n.args[0], 'card_str')]
    chk.floor('C19.R3', 'card message builders in Client.playing_phase', len(sends), 1)
    cards = [card(f, r, s) for s in 'CDHS' for r in range(2, 15)]
    n_k = 0
    w_pc, q_pc = loc(repo, 'MessageInterface', 'parse_card', 'C19.R3')
    for s_i, snd in enumerate(sends):
        fr = [n for n in free_names([ast.Expr(snd.args[0])], cm) if n not in ('self',)]
        cardvars = [n for n in fr if any(isinstance(x, ast.Call) and isinstance(x.func, ast.Attribute) and x.func.attr == 'card_str'
                                         and x.args and isinstance(x.args[0], ast.Name) and x.args[0].id == n for x in ast.walk(snd.args[0]))]
        others = [n for n in fr if n not in cardvars]
        if len(cardvars) != 1 or len(others) > 1:
            raise AnalysisError('C19.R3', q_cpp, f'card message builder depends on {fr}')
        for seat in P:
            for cd in cards:
                c = fresh(f, 'Client', player=seat)
                env = {'self': c, cardvars[0]: cd}
                named = seat
                if others:
                    env[others[0]] = seat      # the seat whose card is named (dummy, played by declarer)
                b = eval_in(f, snd.args[0], env, cm, cli, 'C19.R3', q_cpp)
                if b[0] != 'ok':
                    chk.fail('C19.R3', w_cpp, q_cpp, f'card message {f.str_of(cd)}', f'building the card message raises {b}')
                    continue
                alt = f'{f._attr(named, "formal_name")} plays {f.str_of(cd)}'
                for text in case_variants(b[1]) + (case_variants(alt) if s_i == 0 else []):
                    chk.evals(1)
                    r = call_in('C19.R3', q_pc, lambda: f.call_class('MessageInterface', 'parse_card', text, named))
                    n_k += 1
                    chk.require(r == ('ok', cd), 'C19.R3', w_pc, q_pc, f'card {f.str_of(cd)} of {named.name} as {text!r}',
                                f'card {f.str_of(cd)} played by {named.name} is understood',
                                f'card message {text!r} ({f.str_of(cd)} by {named.name}) is understood as {f.str_of(r[1]) if r[0] == "ok" and isinstance(r[1], DV) else r}')
    chk.instances('C19.R3', n_k)

    # ------------------------------------------------------------------------------------------------------------------
    # R5 connection dialogue: Client._connect  <->  PlayerThread._connect
    # ------------------------------------------------------------------------------------------------------------------
    w_cc, q_cc = loc(repo, 'Client', '_connect', 'C19.R5')
    w_pc2, q_pc2 = loc(repo, 'PlayerThread', '_connect', 'C19.R5')
    ver = eval_in(f, cli.assigns.get('PROTOCOL_VERSION') or ast.Constant(None), {}, cm, cli, 'C19.R5', 'Client.PROTOCOL_VERSION')[1]

    class Ev(ScriptSock):
        def __init__(self):
            super().__init__()
            self.sets = 0

        def set(self):
            self.sets += 1

        def wait(self, *a):
            return None

    n_t = 0
    for seat in P:
        partner = f._attr(seat, 'partner')
        for team in TEAM_NAMES:
            for opp in (TEAM_NAMES[0], TEAM_NAMES[1]):
                # pass 1: what the client says first (its connect line does not depend on input)
                ep = Endpoint([])
                ep.install(f)
                c = fresh(f, 'Client', player=seat, team_name=team, _socket=ScriptSock(), opponent_team_name=None, ip_address='h', port=1)
                call_in('C19.R5', q_cc, lambda: f.call_method(c, '_connect'))       # stops at the first receive (EndOfScript)
                if not ep.sent:
                    raise AnalysisError('C19.R5', q_cc, 'Client._connect sends nothing before its first receive')
                connect_line = ep.sent[0]
                # pass 2: the seat thread fed with the client's three lines; its output is recorded
                def server_pass(lines):
                    eps = Endpoint(lines)
                    eps.install(f)
                    table = {p: None for p in P}
                    evs = Ev()
                    t = fresh(f, 'PlayerThread', connection=ScriptSock(), event_sync=Ev(), event_thread=evs, team_names=table,
                              _sent_message_queues={}, _received_message_queues={}, players_event={}, name='Thread-1')
                    # the other pair is seated under `opp`, the partner not yet
                    for p in P:
                        if p is not seat and p != partner:
                            table[p] = opp
                    table[seat] = None
                    table[partner] = team      # the partner is already seated under the same name
                    r = call_in('C19.R5', q_pc2, lambda: f.call_method(t, '_connect'))
                    return r, eps, table, t
                # iterate: client lines known so far -> server output -> client run with that output -> more client lines
                lines = [connect_line]
                for _round in range(4):
                    r_s, eps, table, t = server_pass(list(lines))
                    epc = Endpoint(list(eps.sent))
                    epc.install(f)
                    c = fresh(f, 'Client', player=seat, team_name=team, _socket=ScriptSock(), opponent_team_name=None, ip_address='h', port=1)
                    r_c = call_in('C19.R5', q_cc, lambda: f.call_method(c, '_connect'))
                    if epc.sent == lines:
                        break
                    lines = list(epc.sent)
                chk.evals(1)
                n_t += 1
                pair_is_ns = seat.name in ('N', 'S')
                ok = r_s == ('ok', True) and r_c == ('ok', None) and table[seat] == team and t.fields.get('player') == seat and \
                    c.fields.get('opponent_team_name') == opp and not t.fields['connection'].closed
                chk.require(ok, 'C19.R5', w_pc2, q_pc2, f'connection dialogue {seat.name} team {team!r} vs {opp!r}',
                            f'connect line, seated reply, team announcement and ready lines agree for {seat.name} / {team!r}',
                            f'connection dialogue for {seat.name} team {team!r} (opponents {opp!r}): client lines {lines}, server lines {eps.sent}; '
                            f'seat thread -> {r_s}, client -> {r_c}, seat table {({k.name: v for k, v in table.items()})}, '
                            f'client opponent name {c.fields.get("opponent_team_name")!r}')
                if n_t == 1:
                    sample_dialogue = (lines, list(eps.sent))
                if ok and opp == TEAM_NAMES[0]:
                    for vname, vf in (('upper', str.upper), ('lower', str.lower), ('swapcase', str.swapcase)):
                        lv = [outside_quotes(l, vf) for l in lines]
                        r_v, eps_v, table_v, t_v = server_pass(lv)
                        chk.evals(1)
                        chk.require(r_v == ('ok', True) and table_v[seat] == team and t_v.fields.get('player') == seat, 'C19.R5', w_pc2, q_pc2,
                                    f'connection dialogue {seat.name} team {team!r} in {vname} case',
                                    f'the client lines in {vname} case are understood by the seat thread',
                                    f'client lines {lv} ({vname} case outside the quoted team name) make the seat thread -> {r_v}, '
                                    f'server lines {eps_v.sent}, seat {t_v.fields.get("player")}, table entry {table_v[seat]!r}')
    chk.instances('C19.R5', n_t)
    chk.note(f'sample connection dialogue: client {sample_dialogue[0]} / server {sample_dialogue[1]}; client protocol version {ver}')

    # ------------------------------------------------------------------------------------------------------------------
    # R6 deal-phase ready lines, lead prompts, start / end literals
    # ------------------------------------------------------------------------------------------------------------------
    w_pd, q_pd = loc(repo, 'PlayerThread', '_deal', 'C19.R6')
    n_r = 0
    for seat in P:
        env = deal_env(seat, one_hand)
        hd = eval_in(f, hdr_puts[0].args[0], env, sm, srv, 'C19.R6', q_deal)[1]
        hm = eval_in(f, hand_puts[0].args[0], env, sm, srv, 'C19.R6', q_deal)[1]
        r, c, ep = client_deal(seat, hd, hm)
        eps = Endpoint(list(ep.sent))
        eps.install(f)

        class Q(ScriptSock):
            def __init__(self, items):
                super().__init__()
                self.items = list(items)

            def get(self, *a, **k):
                if not self.items:
                    raise FoldRaise('EndOfScript', 'queue empty')
                return self.items.pop(0)

            def put(self, x):
                self.items.append(x)
        t = fresh(f, 'PlayerThread', connection=ScriptSock(), event_sync=Ev(), event_thread=Ev(), team_names={}, player=seat,
                  _sent_message_queues={seat: Q([])}, _received_message_queues={seat: Q([hd, hm])}, players_event={})
        rs = call_in('C19.R6', q_pd, lambda: f.call_method(t, '_deal'))
        chk.evals(1)
        n_r += 1
        chk.require(rs == ('ok', True) and eps.sent == [hd, hm] and not t.fields['connection'].closed, 'C19.R6', w_pd, q_pd,
                    f'deal dialogue {seat.name}', f'ready-for-deal / ready-for-cards lines of {seat.name} are accepted and header, hand forwarded in order',
                    f'deal dialogue for {seat.name}: client lines {ep.sent}; seat thread -> {rs}, forwarded {eps.sent}')
    chk.instances('C19.R6', n_r)

    def lead_prompts():
        # lead prompts
        _, tpp = repo.method('PlayerThread', '_playing_phase', 'C19.R6')
        w_tpp, q_tpp = loc(repo, 'PlayerThread', '_playing_phase', 'C19.R6')
        def arms(e, defs_):
            # the alternatives of a conditional expression (possibly held in a local) are judged one by one
            if isinstance(e, ast.IfExp):
                return arms(e.body, defs_) + arms(e.orelse, defs_)
            if isinstance(e, ast.Name) and len(defs_.get(e.id, [])) >= 1:
                return [a for d in defs_[e.id] for a in arms(d, defs_)]
            return [e]
        tdefs = {}
        for n_ in ast.walk(tpp):
            if isinstance(n_, ast.Assign) and len(n_.targets) == 1 and isinstance(n_.targets[0], ast.Name):
                tdefs.setdefault(n_.targets[0].id, []).append(n_.value)
        sends = [n for n in method_calls(tpp, 'send_message') if n.args and not contains_call(n.args[0], 'receive_message_from_queue')]
        prompts = []
        for n in sends:
            for a_ in arms(n.args[0], tdefs):
                if not contains_call(a_, 'receive_message_from_queue') and not any(ast.unparse(a_) == ast.unparse(x[1]) for x in prompts):
                    prompts.append((n, a_))
        chk.floor('C19.R6', 'lead prompt builders in PlayerThread._playing_phase', len(prompts), 1)
        n_l = 0
        for pr_call, pr_arg in prompts:
            pr = ast.Call(pr_call.func, [pr_arg], [])
            ast.copy_location(pr, pr_call)
            for seat in P:
                t = fresh(f, 'PlayerThread', player=seat)
                txt = eval_in(f, pr.args[0], {'self': t}, sm, pth, 'C19.R6', q_tpp)
                if txt[0] != 'ok':
                    chk.fail('C19.R6', w_tpp, q_tpp, ast.unparse(pr.args[0]), f'building the lead prompt raises {txt}')
                    continue
                depends_on_seat = any(isinstance(x, ast.Attribute) and x.attr == 'player' for x in ast.walk(pr.args[0]))
                for dummy in P:
                    r = call_in('C19.R6', 'Client.parse_leader_message', lambda: f.call_class('Client', 'parse_leader_message', txt[1], dummy))
                    want = seat if depends_on_seat else dummy
                    n_l += 1
                    chk.evals(1)
                    chk.require(r == ('ok', want), 'C19.R6', repo.where(sm, pr), q_tpp, f'lead prompt {txt[1]!r} (dummy {dummy.name})',
                                f'lead prompt {txt[1]!r} names {want.name} to the client',
                                f'lead prompt {txt[1]!r} is read by Client.parse_leader_message (dummy={dummy.name}) as {r}, expected {want}')
                if not depends_on_seat:
                    break
        chk.instances('C19.R6', n_l)


    try:
        lead_prompts()
    except AnalysisError as e_lp:
        if chk.findings:
            raise
        # the prompt builders could not be extracted from this shape of _playing_phase: that the bundled client understands every lead prompt it
        # is sent is decided on the abstract sessions of R9 (the real Client.parse_leader_message runs there on the real prompt texts)
        chk.note(f'C19.R6 lead prompts by extraction not evaluated ({e_lp.why[:160]}); decided by the abstract sessions C19.R9')

    def start_end_literals():
        # start / end literals
        _, trun = repo.method('PlayerThread', 'run', 'C19.R6')
        _, crun = repo.method('Client', 'run', 'C19.R6')
        w_crun, q_crun = loc(repo, 'Client', 'run', 'C19.R6')
        lits = []
        for n in method_calls(trun, 'send_message'):
            v = eval_in(f, n.args[0], {'self': fresh(f, 'PlayerThread', player=P[0])}, sm, pth, 'C19.R6', 'PlayerThread.run')
            if v[0] == 'ok' and isinstance(v[1], str):
                lits.append((n, v[1]))
        chk.floor('C19.R6', 'start-of-board / end-of-session sends in PlayerThread.run', len(lits), 2)
        tests = [n for n in ast.walk(crun) if isinstance(n, ast.If)]
        start_if = [n for n in tests if n.body and isinstance(n.body[-1], ast.Raise)]
        end_if = [n for n in tests if n.body and isinstance(n.body[-1], ast.Break)]
        if len(start_if) != 1 or len(end_if) != 1:
            raise AnalysisError('C19.R6', q_crun, 'cannot identify the start-of-board test (if ...: raise) and the end-of-session test (if ...: break)')
        msgnames = {x.id for t_ in (start_if[0], end_if[0]) for x in ast.walk(t_.test) if isinstance(x, ast.Name)}
        if len(msgnames) != 1:
            raise AnalysisError('C19.R6', q_crun, f'start/end tests read {msgnames}')
        mv = msgnames.pop()
        start_lit, end_lit = lits[0][1], lits[-1][1]
        for what, lit, node, want_start, want_end in (('start of board', start_lit, lits[0][0], False, False), ('end of session', end_lit, lits[-1][0], None, True)):
            r1 = eval_in(f, start_if[0].test, {mv: lit}, cm, cli, 'C19.R6', q_crun)
            r2 = eval_in(f, end_if[0].test, {mv: lit}, cm, cli, 'C19.R6', q_crun)
            chk.evals(2)
            good = (want_start is None or (r1[0] == 'ok' and bool(r1[1]) == want_start)) and r2[0] == 'ok' and bool(r2[1]) == want_end
            chk.require(good, 'C19.R6', repo.where(sm, node), 'PlayerThread.run', f'{what} literal {lit!r}',
                        f'the {what} line {lit!r} is recognised by Client.run',
                        f'the server\'s {what} line {lit!r} makes Client.run\'s tests `{ast.unparse(start_if[0].test)}` -> {r1}, `{ast.unparse(end_if[0].test)}` -> {r2}')
        chk.instances('C19.R6', 2)


    try:
        start_end_literals()
    except AnalysisError as e_lit:
        if chk.findings:
            raise
        # the shape of Client.run's tests is not recognised: whether the bundled client recognises the server's start-of-board and
        # end-of-session lines is decided by the abstract sessions of R9 below (a client that does not, raises or never finishes there)
        chk.note(f'C19.R6 start/end literals by structure not evaluated ({e_lit.why[:160]}); decided by the abstract sessions C19.R9')

    chk.extra.setdefault('domains', {})['hands'] = len(fam)
    framing(chk)
    # R9: what is actually relayed (per recipient) is understood by the bundled client - whole abstract sessions with alerted calls,
    # including alerted passes and doubles, on the communication skeleton (sa.skeleton)
    from . import session as S
    fam9 = [(dict(boards=[S.board(d, c, ex, wi, 'NONE', alerts=al)]), pol) for d, c, ex, wi, al, pol in (
        ('N', 'E', 1, 1, (0, -1), 'rr'), ('E', 'E', 2, 4, (1, -2), 'fifo'), ('S', 'N', 0, 2, (-3,), 'rand:1'), ('W', 'S', 3, 0, (0, 2, -1), 'lifo'))]
    res9 = S.run_family(chk, ['duality'], fam9)
    S.record(chk, res9, as_rule='C19.R9')
    chk.floor('C19.R9', 'abstract sessions with alerted calls', len(res9), 4)


def framing(chk):
    """R7 / R8: CR LF framing (also evaluated as a dependency of the session properties C08-C11)."""
    repo = chk.repo
    w_rm, q_rm = loc(repo, 'MessageInterface', 'receive_message', 'C19.R7')
    w_sm, q_sm = loc(repo, 'MessageInterface', 'send_message', 'C19.R7')
    _, rm_fn = repo.method('MessageInterface', 'receive_message', 'C19.R7')
    f2 = new_folder(repo, steps=20000)

    def mk_interface(sock):
        # through the real constructor (it may create per-connection state such as a receive buffer)
        try:
            o = f2._construct(repo.cls('MessageInterface', 'C19.R7'), [], {'connection_socket': sock})
            f2._fresh.add(id(o))
            f2._keep.append(o)
            return o
        except (Unsupported, FoldRaise):
            return fresh(f2, 'MessageInterface', connection_socket=sock)

    def send_bytes(msgs):
        sock = ScriptSock()
        o = mk_interface(sock)
        for m in msgs:
            r = call_in('C19.R7', q_sm, lambda: f2.call_method(o, 'send_message', m))
            if r[0] != 'ok':
                raise AnalysisError('C19.R7', q_sm, f'send_message raises {r}')
        return b''.join(sock.sent)

    def receive_all(data, plan, n_expected):
        sock = ScriptSock(data, plan)
        o = mk_interface(sock)
        got = []
        for _ in range(n_expected + 1):
            try:
                f2.steps = 0
                got.append(f2._getattr_call(o, 'receive_message', [], {}))
            except FoldRaise as r:
                return got, ('raise', r.kind), sock
            except Unsupported as e:
                if 'step limit' in str(e):
                    return got, ('spin', str(e)), sock
                raise AnalysisError('C19.R7', q_rm, f'receive_message left the foldable subset: {e}')
        return got, ('more', None), sock

    samples = [['ab', 'c'], ['North ready for deal', '', 'x'], ['é ü', 'S A K. H -. D -. C 2.'], ['a\nb', 'c\rd'[:1] + 'd']]
    stream = send_bytes(samples[0])
    chk.require(stream == b'ab\r\nc\r\n', 'C19.R7', w_sm, q_sm, f'send_message frames {samples[0]} as {stream!r}',
                'each message is sent as its UTF-8 bytes followed by CR LF',
                f'send_message frames {samples[0]} as {stream!r}, the protocol requires b"ab\\r\\nc\\r\\n"')
    # chunking
    # recv call sites of receive_message and of the helper methods it calls (closure over self-calls); when every one asks for exactly one
    # byte the result cannot depend on how the stream is chunked, otherwise (or when none is recognised) every chunking plan is folded
    fns_, todo_, seen_ = [], [rm_fn], set()
    while todo_:
        g_ = todo_.pop()
        if id(g_) in seen_:
            continue
        seen_.add(id(g_))
        fns_.append(g_)
        for n_ in ast.walk(g_):
            if isinstance(n_, ast.Call) and isinstance(n_.func, ast.Attribute) and isinstance(n_.func.value, ast.Name) and n_.func.value.id == 'self':
                for c_ in repo.mro(repo.cls('MessageInterface', 'C19.R7')):
                    if n_.func.attr in c_.methods:
                        todo_.append(c_.methods[n_.func.attr])
                        break
    recv_calls = [n for g_ in fns_ for n in method_calls(g_, 'recv')]
    chk.instances('C19.R7', len(recv_calls))
    one_byte = bool(recv_calls) and all(len(n.args) == 1 and isinstance(n.args[0], ast.Constant) and n.args[0].value == 1 for n in recv_calls)
    n_f = 0
    for msgs in samples:
        data = send_bytes(msgs)
        if one_byte:
            plans = [[]]
        else:
            L = len(data)
            if L > 12:
                plans = [[1] * L, [], [2] * L, [3] * L, [L - 1, 1], [1, L - 1]] + [[k, L] for k in range(1, L)]
            else:
                plans = [list(c) for c in compositions(L)]
        for plan in plans:
            got, end, sock = receive_all(data, plan, len(msgs))
            n_f += 1
            chk.evals(1)
            chk.require(got == msgs and end[0] == 'raise', 'C19.R7', w_rm, q_rm, f'stream {data!r} chunked as {plan[:8] or "1 byte per recv"}',
                        f'messages {msgs} are received intact and in order',
                        f'byte stream {data!r} delivered in chunks {plan[:12] or "of 1 byte"} is received as {got} then {end} (sent: {msgs})')
    chk.instances('C19.R7', n_f)
    if one_byte:
        chk.ok('C19.R7', w_rm, 'every recv in receive_message requests exactly 1 byte: the result is a function of the byte sequence only (chunking-independent)')
    # R8 EOF at every position
    data = send_bytes(['hello', 'wor'])
    n_e = 0
    for cut in range(len(data) + 1):
        for plan in ([[]] if one_byte else [[], [1] * 40, [2] * 40]):
            got, end, sock = receive_all(data[:cut], plan, 3)
            complete = [m for m, e in (('hello', 7), ('wor', 12)) if cut >= e]
            n_e += 1
            chk.evals(1)
            where_ = 'between messages' if cut in (0, 7, 12) else ('after CR' if cut in (6, 11) else 'inside a message')
            chk.require(got == complete and end[0] == 'raise', 'C19.R8', w_rm, q_rm, f'end-of-stream after {cut} bytes ({where_})',
                        f'peer closing {where_} ends receive_message with an exception',
                        f'peer closes after {data[:cut]!r} ({where_}): receive_message returned {got} and then '
                        f'{"never returns (still looping after 20000 interpreter steps: the empty read is not treated as end-of-stream)" if end[0] == "spin" else end}')
    chk.instances('C19.R8', n_e)
    chk.exhaustive = False
    chk.extra.setdefault('domains', {}).update({'seats': 4, 'calls': 38, 'cards': 52, 'team_names': len(TEAM_NAMES),
                                                 'eof_positions': len(data) + 1, 'recv_one_byte': one_byte})


def outside_quotes(line: str, fn):
    parts = line.split('"')
    return '"'.join(fn(x) if i % 2 == 0 else x for i, x in enumerate(parts))


def compositions(n):
    if n == 0:
        yield ()
        return
    for k in range(1, n + 1):
        for rest in compositions(n - k):
            yield (k,) + rest
