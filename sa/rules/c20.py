"""C20 - admission seats one conforming client per seat and turns the others away.

R1  exhaustive abstract transition check of PlayerThread._connect, interpreted alone (sa.skeleton)
    for every seat table in {free, A, B}^4 and every well-formed request in 4 seats x {A, B, C, a, 'A ', AA} x
    {v18, v17, v19}: wrong version / seat taken / partner seated under another name => an ERROR reply,
    connection closed, table unchanged; otherwise table[seat] := team and the `<Seat> <team>
    seated` reply; in every case exactly one verdict signal to the accept loop.  Team names are
    touched only through == / != and None tests, so three names cover every ordering.
R2  path rule on _connect: exactly one event_thread.set() on every path; the seat table has one
    write site in the package.
R3  the accept loop is a one-shot handshake (start(); wait(); clear() per connection - the
    discipline rule of C09.R1 evaluated again).
R4  abstract sessions of the admission phase for fixed orders of arrival of valid and invalid
    requests (all 24 orders of the four valid ones; rejected requests inserted at every stage)
    and for simultaneous arrival under several scheduling policies: every request gets the
    verdict the specification assigns in the order the server accepted them, rejected ones
    disturb nobody, exactly one client per seat, all four are sent `Teams : N/S : "<N's team>"
    E/W : "<E's team>"` and then `Start of board`, and the session that follows completes."""
from __future__ import annotations

import ast
import itertools
import os
from concurrent.futures import ProcessPoolExecutor

from ..index import AnalysisError
from ..paths import Summarizer
from . import session as S
from .c09 import discipline
from .common import external_mutations, loc, writers_of

SRV = 'bridge_env/network_bridge/server.py'
# request names: two seated names, a fresh one, and near-misses of a seated name (letter case, surrounding blank, prefix)
TEAMS = ('A', 'B', 'C', 'a', 'A ', 'AA')


def name_uses(chk, repo):
    """The finite-names argument of R1: team names reach only ==/!=/is-None tests, f-string holes, the seat table and locals."""
    from ..index import parent
    ci, fn = repo.method('PlayerThread', '_connect', 'C20.R1')
    # the methods of the class reachable from _connect through self-calls: the name is taken from parse_connection_info in one of them
    reach, todo = [], [fn]
    while todo:
        g_ = todo.pop()
        if any(g_ is x for x in reach):
            continue
        reach.append(g_)
        for n in ast.walk(g_):
            if isinstance(n, ast.Call) and isinstance(n.func, ast.Attribute) and isinstance(n.func.value, ast.Name) and n.func.value.id in ('self', 'cls'):
                for c in repo.mro(ci):
                    if n.func.attr in c.methods:
                        todo.append(c.methods[n.func.attr])
                        break
    work = []
    tainted = set()
    for g_ in reach:
        t_ = set()
        for n in ast.walk(g_):
            if isinstance(n, ast.Assign) and isinstance(n.targets[0], ast.Tuple) and 'parse_connection_info' in ast.unparse(n.value):
                if n.targets[0].elts and isinstance(n.targets[0].elts[0], ast.Name):
                    t_.add(n.targets[0].elts[0].id)
        if t_:
            work.append((g_, t_))
            tainted |= t_
    if not tainted:
        raise AnalysisError('C20.R1', 'PlayerThread._connect', 'cannot find the team name taken from parse_connection_info')
    fn = work[0][0]
    seen_fns = set()
    all_tainted = set(tainted)
    n_fns = 0
    while work:
        g, tset = work.pop()
        key = (id(g), tuple(sorted(tset)))
        if key in seen_fns:
            continue
        seen_fns.add(key)
        n_fns += 1
        changed = True
        while changed:
            changed = False
            for n in ast.walk(g):
                if isinstance(n, ast.Assign) and len(n.targets) == 1 and isinstance(n.targets[0], ast.Name) and n.targets[0].id not in tset:
                    v = n.value
                    if (isinstance(v, ast.Name) and v.id in tset) or (isinstance(v, ast.Subscript) and ast.unparse(v.value) == 'self.team_names'):
                        tset.add(n.targets[0].id)
                        changed = True
        all_tainted |= tset
        bad = None
        for n in ast.walk(g):
            is_name = (isinstance(n, ast.Name) and n.id in tset and isinstance(n.ctx, ast.Load)) or \
                (isinstance(n, ast.Subscript) and isinstance(n.ctx, ast.Load) and ast.unparse(n.value) == 'self.team_names')
            if not is_name:
                continue
            par = parent(n)
            if isinstance(par, ast.Compare) and all(isinstance(o, (ast.Eq, ast.NotEq, ast.Is, ast.IsNot)) for o in par.ops):
                continue
            if isinstance(par, ast.Return):
                # the helper hands the name back: the variables its callers bind the result to carry it
                for h_ in reach:
                    for x_ in ast.walk(h_):
                        if isinstance(x_, ast.Assign) and len(x_.targets) == 1 and isinstance(x_.targets[0], ast.Name) and isinstance(x_.value, ast.Call) \
                                and isinstance(x_.value.func, ast.Attribute) and isinstance(x_.value.func.value, ast.Name) and x_.value.func.value.id in ('self', 'cls') \
                                and x_.value.func.attr == g.name:
                            work.append((h_, {x_.targets[0].id}))
                continue
            if isinstance(par, ast.FormattedValue) or (isinstance(par, ast.Assign) and par.value is n):
                continue
            if isinstance(par, ast.keyword):
                par2 = parent(par)
            else:
                par2 = par
            # handed to a helper method of the class: the corresponding parameter carries the name there
            if isinstance(par2, ast.Call) and isinstance(par2.func, ast.Attribute) and isinstance(par2.func.value, ast.Name) and par2.func.value.id in ('self', 'cls'):
                callee = None
                for c in repo.mro(ci):
                    if par2.func.attr in c.methods:
                        callee = (c, c.methods[par2.func.attr])
                        break
                if callee is not None:
                    c, cf = callee
                    params = [a.arg for a in (cf.args.args[1:] if c.method_kind(cf.name) in ('method', 'class') else cf.args.args)]
                    prm = None
                    if isinstance(par, ast.keyword):
                        prm = par.arg
                    elif n in par2.args and par2.args.index(n) < len(params):
                        prm = params[par2.args.index(n)]
                    if prm is not None and prm in params + [a.arg for a in cf.args.kwonlyargs]:
                        work.append((cf, {prm}))
                        continue
            bad = bad or (par, n, g)
        if bad:
            raise AnalysisError('C20.R1', f'PlayerThread.{bad[2].name}', f'team name `{ast.unparse(bad[1])}` is used in `{ast.unparse(bad[0])[:70]}` (not an ==/!=/None test, an f-string '
                                                                         f'hole, a plain store or an argument of a helper that uses it so): six representative names do not cover every behaviour')
    tainted = all_tainted
    chk.ok('C20.R1', repo.where(ci.module, fn), f'team names ({sorted(tainted)}, seat-table entries) reach only ==/!=/None tests, f-string holes and stores')


def scenarios(tier: str):
    base = {'N': 'A', 'S': 'A', 'E': 'B', 'W': 'B'}
    out = []
    orders = list(itertools.permutations('NESW'))
    pols = ['rr', 'fifo', 'lifo', 'rand:1', 'rand:2', 'stall:main', 'rush:main', 'stall:req', 'rush:T']
    for i, o in enumerate(orders if tier == 'thorough' else orders[::2]):
        out.append((dict(requests=[(s, base[s], 18) for s in o]), pols[i % len(pols)]))
    # rejected requests inserted at every stage of admission
    inserts = [
        lambda k, o: ('N', 'A', 17),                               # wrong version
        lambda k, o: (o[k - 1], base[o[k - 1]], 18) if k else None,    # seat already taken (same team)
        lambda k, o: (o[k - 1], 'Z', 18) if k else None,               # seat already taken (another team)
        lambda k, o: next(((S.partner(s), 'Z', 18) for s in o[:k] if S.partner(s) not in o[:k]), None),   # partner seated under another name
    ]
    sel = orders if tier == 'thorough' else [orders[0], orders[9], orders[14], orders[23]]
    for oi, o in enumerate(sel):
        for k in range(0, 4):
            for ii, ins in enumerate(inserts):
                r = ins(k, o)
                if r is None:
                    continue
                reqs = [(s, base[s], 18) for s in o[:k]] + [r] + [(s, base[s], 18) for s in o[k:]]
                out.append((dict(requests=reqs), pols[(oi + k + ii) % len(pols)]))
    # several rejected in a row, and a partner first turned away then admitted under the right name
    out.append((dict(requests=[('N', 'A', 17), ('N', 'A', 16), ('N', 'A', 18), ('N', 'A', 18), ('S', 'B', 18), ('S', 'C', 18), ('S', 'A', 18), ('E', 'B', 18), ('W', 'A', 18), ('W', 'B', 18)]), 'rr'))
    out.append((dict(requests=[('W', 'X', 18), ('E', 'Y', 18), ('E', 'X', 19), ('E', 'X', 18), ('S', 'X', 18), ('N', 'Q', 18), ('S', 'Q', 18), ('N', 'X', 18)]), 'rand:5'))
    # same team name on both sides is legal
    out.append((dict(requests=[('N', 'A', 18), ('E', 'A', 18), ('S', 'A', 18), ('W', 'A', 18)]), 'lifo'))
    # simultaneous arrival (order decided by the scheduler), with two candidates for one seat
    for pol in (pols if tier == 'thorough' else pols[:5]):
        out.append((dict(gated=False, requests=[('N', 'A', 18), ('E', 'B', 18), ('S', 'A', 18), ('W', 'B', 18)]), pol))
        out.append((dict(gated=False, requests=[('N', 'A', 18), ('N', 'A', 18), ('E', 'B', 18), ('S', 'A', 18), ('W', 'B', 18), ('W', 'B', 18)]), pol))
    return out


def run(chk):
    repo = chk.repo
    chk.explanation = __doc__
    chk.trusted += ['sa.skeleton interpreter and its socket / event / barrier models', 'admission specification sa.rules.session.admission_spec']
    chk.assumptions += ['requests are well-formed connect lines (the property says so)', 'a seated client answers `ready for teams` / `ready to start`']
    w_c, q_c = loc(repo, 'PlayerThread', '_connect', 'C20.R1')
    jobs = 1 if os.environ.get('SA_SERIAL') == '1' else 16

    # ---- R1 ------------------------------------------------------------------------------------------------------------------
    tables = [dict(zip(S.SEATS, t)) for t in itertools.product([None, 'A', 'B'], repeat=4)]
    cases = [(t, s, team, v) for t in tables for s in S.SEATS for team in TEAMS for v in (18, 17, 19)]
    chunks = [cases[i::jobs * 2] for i in range(jobs * 2)]
    if jobs == 1:
        res = [S.connect_case_worker((repo.root, c)) for c in chunks]
    else:
        with ProcessPoolExecutor(max_workers=__import__('sa.rules.common', fromlist=['pool_size']).pool_size(jobs, jobs)) as ex:
            res = list(ex.map(S.connect_case_worker, [(repo.root, c) for c in chunks]))
    rows = [r for rs in res for r in rs]
    errs = [f'table {r["table"]} request {r["seat"]}/{r["team"]}/v{r["version"]}: {e}' for r in rows for e in r['errors']]
    if errs:
        raise AnalysisError('C20.R1', q_c, f'{len(errs)} transition case(s) left the supported subset: ' + ' || '.join(errs[:2]))
    chk.floor('C20.R1', 'transition cases', len(rows), 81 * 4 * len(TEAMS) * 3)
    for r in rows:
        chk.evals()
        verdict, why, after = S.admission_spec(r['table'], r['seat'], r['team'], r['version'])
        cls = {'version': 'wrong protocol version', 'seat taken': 'seat already taken', 'partner team': "partner seated under another team name", '': 'acceptable request'}[why]
        sit = f'table {({k: v for k, v in r["table"].items() if v})}, request {r["seat"]} "{r["team"]}" v{r["version"]}'
        if r['state'] != 'done' or r['deadlock']:
            chk.fail('C20.R1', r['where'], q_c, f'{cls}: _connect does not return', f'{sit}: _connect ends {r["state"]} ({r["err"] or r["deadlock"]})')
            continue
        reply = r['reply']
        if verdict == 'rejected':
            ok = isinstance(reply, str) and reply.upper().startswith('ERROR')
            chk.require(ok, 'C20.R1', w_c, q_c, f'{cls}: reply', f'{cls} is answered with an error', f'{sit}: reply is {reply!r}, an ERROR line is required')
            chk.require(r['closed'], 'C20.R1', w_c, q_c, f'{cls}: connection left open', f'{cls}: the connection is closed', f'{sit}: the connection is not closed after the rejection')
            chk.require(r['after'] == r['table'], 'C20.R1', w_c, q_c, f'{cls}: seat table modified', f'{cls}: the seat table is unchanged',
                        f'{sit}: the seat table becomes {r["after"]} although the request is rejected')
            chk.require(r['ret'] is False and r['n_server_msgs'] == 1, 'C20.R1', w_c, q_c, f'{cls}: thread goes on', f'{cls}: the connection thread stops',
                        f'{sit}: _connect returned {r["ret"]} after sending {r["n_server_msgs"]} message(s)')
        else:
            want = f'{S.FORMAL[r["seat"]]} {r["team"]} seated'
            chk.require(isinstance(reply, str) and reply.lower() == want.lower(), 'C20.R1', w_c, q_c, 'acceptable request: reply', 'an acceptable request is answered `<Seat> <team> seated`',
                        f'{sit}: reply is {reply!r}, expected {want!r}')
            chk.require(r['after'] == after, 'C20.R1', w_c, q_c, 'acceptable request: seat table', 'the seat is recorded under the team name, nothing else changes',
                        f'{sit}: the seat table becomes {r["after"]}, expected {after}')
            chk.require(not r['closed'] and r['ret'] is True, 'C20.R1', w_c, q_c, 'acceptable request: connection kept', 'the connection stays open and the thread goes on',
                        f'{sit}: closed={r["closed"]}, _connect returned {r["ret"]}')
            tn = r['after']
            wantt = f'Teams : N/S : "{tn["N"]}" E/W : "{tn["E"]}"'
            chk.require(r['teams'] == wantt, 'C20.R1', w_c, q_c, 'Teams message', 'the Teams line names table[N] for N/S and table[E] for E/W',
                        f'{sit}: Teams line is {r["teams"]!r}, expected {wantt!r}')
        chk.require(r['sets'] == 1, 'C20.R1', w_c, q_c, f'{cls}: verdict signals', f'{cls}: exactly one verdict signal to the accept loop',
                    f'{sit}: event_thread.set() executed {r["sets"]} times (the accept loop waits for exactly one)')

    if not chk.findings:
        name_uses(chk, repo)

    # ---- R2 ------------------------------------------------------------------------------------------------------------------
    Sm = Summarizer(repo, 'C20.R2')
    paths = Sm.paths('PlayerThread', '_connect', dyn='PlayerThread')
    chk.floor('C20.R2', 'paths of _connect', len(paths), 2)
    for p in paths:
        sets = [e for e in p.events if e.kind == 'call' and e.method == 'set' and e.recv.endswith('event_thread')]
        if p.end[0] == 'raise':
            continue
        chk.require(len(sets) == 1, 'C20.R2', w_c, q_c, f'path with {len(sets)} verdict signals: ...{p.describe()[-70:]}', 'exactly one event_thread.set() on the path',
                    f'path `{p.describe()[-160:]}` signals the accept loop {len(sets)} times: 0 leaves the server waiting forever, 2 lets a stale signal admit the next connection unchecked',
                    path=p.describe())
    writes = []
    for m, c, fn in repo.all_functions():
        if c is None or c.name != 'PlayerThread':
            continue
        for attr, node in writers_of(fn, {'team_names'}):
            if isinstance(node, ast.Assign) and isinstance(node.targets[0], ast.Attribute):
                continue        # self.team_names = team_names in the constructor
            writes.append((f'{c.name}.{fn.name}', node, m))
    # ... in _connect or in a helper method that only the admission dialogue (_connect and what it calls) reaches
    pt_ci = repo.cls('PlayerThread', 'C20.R2')
    reach_, todo_ = set(), ['_connect']
    while todo_:
        mn_ = todo_.pop()
        if mn_ in reach_ or mn_ not in pt_ci.methods:
            continue
        reach_.add(mn_)
        for n_ in ast.walk(pt_ci.methods[mn_]):
            if isinstance(n_, ast.Call) and isinstance(n_.func, ast.Attribute) and isinstance(n_.func.value, ast.Name) and n_.func.value.id == 'self':
                todo_.append(n_.func.attr)
    called_elsewhere = {n_.func.attr for mn_, fn_ in pt_ci.methods.items() if mn_ not in reach_ for n_ in ast.walk(fn_)
                        if isinstance(n_, ast.Call) and isinstance(n_.func, ast.Attribute) and isinstance(n_.func.value, ast.Name) and n_.func.value.id == 'self'}
    ok_w = len(writes) == 1 and writes[0][0].split('.')[-1] in reach_ and (writes[0][0] == 'PlayerThread._connect' or writes[0][0].split('.')[-1] not in called_elsewhere)
    chk.require(ok_w, 'C20.R2', repo.where(writes[0][2], writes[0][1]) if writes else w_c, q_c,
                'writers of the seat table', 'the seat table has exactly one write site (in the admission dialogue)', f'seat table written at {[w[0] for w in writes]}')
    _, srun = repo.method('Server', 'run', 'C20.R2')
    ext = [n for n in ast.walk(srun) if isinstance(n, (ast.Assign, ast.AugAssign)) and any(isinstance(t, ast.Subscript) and ast.unparse(t.value) == 'team_names'
                                                                                       for t in (n.targets if isinstance(n, ast.Assign) else [n.target]))]
    # the seat table belongs to ONE session: it is created, all seats free, inside Server.run
    tcalls = [n for n in ast.walk(srun) if isinstance(n, ast.Call) and isinstance(n.func, ast.Name) and n.func.id == 'PlayerThread']
    if len(tcalls) == 1:
        kwv = next((k.value for k in tcalls[0].keywords if k.arg == 'team_names'), None)
        src = kwv
        if isinstance(kwv, ast.Name):
            defs = [n for n in ast.walk(srun) if isinstance(n, (ast.Assign, ast.AnnAssign)) and
                    any(isinstance(t, ast.Name) and t.id == kwv.id for t in (n.targets if isinstance(n, ast.Assign) else [n.target]))]
            src = defs[0].value if len(defs) == 1 else None
        fresh = isinstance(src, (ast.Dict, ast.DictComp)) and all(isinstance(v, ast.Constant) and v.value is None for v in (src.values if isinstance(src, ast.Dict) else [src.value]))
        if not fresh and src is not None and not isinstance(src, ast.Attribute):
            # any other expression: folded - it must give a new table with the four seats, all free
            from ..fold import Folder as _F, EV as _EV, FoldRaise as _FR, Unsupported as _UN
            try:
                sci_, _ = repo.method('Server', 'run', 'C20.R2')
                tv_ = _F(repo, allow_loops=True)._eval(src, {}, sci_.module, sci_)
                fresh = isinstance(tv_, dict) and len(tv_) == 4 and all(isinstance(k_, _EV) and k_.cls.name == 'Player' for k_ in tv_) and all(v_ is None for v_ in tv_.values())
            except (_FR, _UN, KeyError):
                fresh = False
        if src is None or not (fresh or isinstance(src, ast.Attribute)):
            raise AnalysisError('C20.R2', 'Server.run', 'cannot trace the seat table handed to PlayerThread to its creation')
        chk.require(fresh, 'C20.R2', repo.where(repo.cls('Server').module, tcalls[0]), 'Server.run', f'seat table handed to the connection threads is `{ast.unparse(src)[:40]}`',
                    'the seat table is created with all seats free at the start of Server.run',
                    f'the seat table is `{ast.unparse(src)[:60]}`, an object that outlives the session: a second run() on the same Server starts with every seat still '
                    f'taken, skips admission and answers no connection request')
    chk.require(not ext, 'C20.R2', w_c, 'Server.run', 'Server.run writes the seat table', 'the main thread only reads the seat table', 'Server.run modifies the seat table')

    # ---- R3 ------------------------------------------------------------------------------------------------------------------
    discipline(chk, rule='C20.R3')

    # ---- R4 ------------------------------------------------------------------------------------------------------------------
    scen = scenarios(chk.tier)
    work = [(repo.root, sc, pol) for sc, pol in scen]
    if jobs == 1:
        sres = [S.scenario_worker(x) for x in work]
    else:
        with ProcessPoolExecutor(max_workers=__import__('sa.rules.common', fromlist=['pool_size']).pool_size(jobs, jobs)) as ex:
            sres = list(ex.map(S.scenario_worker, work, chunksize=2))
    errs = [e for r in sres for e in r['errors']]
    if errs:
        raise AnalysisError('C20.R4', 'abstract admission', f'{len(errs)} scenario(s) left the supported subset: ' + ' || '.join(errs[:2]))
    chk.floor('C20.R4', 'admission scenarios', len(sres), 30)
    for r in sres:
        reqs = r['scen']['requests']
        gated = r['scen'].get('gated', True)
        tag = ('order ' if gated else 'simultaneous ') + ' '.join(f'{s}/{t}/v{v}' for s, t, v in reqs) + f' | {r["policy"]}'
        chk.evals(len(reqs))
        live = [n for n, st in r['states'].items() if st[0] not in ('done',) and not (n.startswith('req') and (not gated) and r['plan'][int(n[3:])] is None)
                and not (n.startswith('req') and st[0] == 'raised' and r['plan'][int(n[3:])] and r['plan'][int(n[3:])][0] == 'rejected')]
        mw = r['states'].get('main', ('?', None, '?', '?'))
        if live:
            who = live[0]
            st = r['states'][who]
            chk.fail('C20.R4', st[2], 'session', f'admission does not complete: {who.rstrip("0123456789")} {st[0]} at `{st[3]}`',
                     f'[{tag}] {who} ends {st[0]} at {st[2]} `{st[3]}` ({st[1]}); main at {mw[2]} `{mw[3]}`; all: ' + ', '.join(f'{n}:{s[0]}' for n, s in r['states'].items()))
            continue
        seated_by = {}
        for i, (seat, team, v) in enumerate(reqs):
            plan = r['plan'][i]
            if plan is None:
                continue        # never accepted: the table was already complete
            got = r['outcomes'].get(i, ('none', None))
            kind = got[0] if got[0] in ('seated', 'rejected') else ('rejected' if got[0] == 'raised' and not gated else got[0])
            msgs = r['per_conn'].get(i, [])
            cls = {'version': 'wrong protocol version', 'seat taken': 'seat already taken', 'partner team': 'partner seated under another team name', '': 'acceptable request'}[plan[1]]
            chk.require(kind == plan[0], 'C20.R4', SRV, 'PlayerThread._connect', f'{cls}: verdict in a sequence of requests',
                        f'[{tag}] request {i + 1} ({seat}/{team}/v{v}, {cls}) is {plan[0]}',
                        f'[{tag}] request {i + 1} ({seat} "{team}" v{v}: {cls}) ended `{got[0]}` ({got[1]}); the specification says {plan[0]}; the server sent it {msgs[:3]}')
            if plan[0] == 'seated' and kind == 'seated':
                seated_by.setdefault(seat, []).append(i)
                ft = r['final_table']
                want2 = [repr(f'{S.FORMAL[seat]} {team} seated'), repr(f'Teams : N/S : "{ft["N"]}" E/W : "{ft["E"]}"'), repr('Start of board')]
                chk.require(msgs[:3] == want2, 'C20.R4', SRV, 'PlayerThread._connect', 'seated client: seated / Teams / Start of board',
                            f'[{tag}] seat {seat} is told both team names and the first board starts',
                            f'[{tag}] seat {seat} was sent {msgs[:3]}, expected {want2}')
                chk.require(msgs[-1:] == [repr('End of session')], 'C20.R4', SRV, 'session', 'seated client completes the session', f'[{tag}] seat {seat} plays the session to its end',
                            f'[{tag}] seat {seat}: last message {msgs[-1:]}')
        chk.require(sorted(seated_by) == sorted(S.SEATS) and all(len(v) == 1 for v in seated_by.values()), 'C20.R4', SRV, 'Server.run', 'one client per seat',
                    f'[{tag}] exactly one client ends up in each seat', f'[{tag}] seats filled by requests {seated_by}')
        ft = r['final_table']
        chk.require(ft['N'] == ft['S'] and ft['E'] == ft['W'] and None not in ft.values(), 'C20.R4', SRV, 'Server.run', 'partners share a team name',
                    f'[{tag}] partners share a team name', f'[{tag}] final seat table {ft}')
        chk.require(r['n_log'] == 1, 'C20.R4', SRV, 'Server.run', 'first board played after admission', f'[{tag}] the first board is played', f'[{tag}] {r["n_log"]} boards logged')
    chk.exhaustive = True
    chk.extra['admission'] = {'transition_cases': len(rows), 'scenarios': len(sres), 'requests_in_scenarios': sum(len(r['scen']['requests']) for r in sres)}
