"""C05 - only the seat on turn can play, only a card it holds; cards are conserved."""
from __future__ import annotations

import ast

from ..fold import NOVALUE
from ..index import AnalysisError
from .common import external_mutations, loc, writers_of
from .playing import BASE, Playing, Tok

VARIANTS = (('PlayingPhaseWithHands', 'all four hands known'), ('ObservedPlayingPhase', 'own hand + dummy known'))


def run(chk):
    """The shape-independent decider first (complete play-outs of the folded engines against the rules), then the path-summary rules for
    all states; a shape the latter cannot bind is recorded, not an error, as long as the play-outs decide the behaviour."""
    from . import playout
    playout.run(chk, 'C05')
    try:
        structural(chk)
    except AnalysisError as e:
        if chk.findings:
            raise
        chk.explanation = ''
        chk.note(f'path-summary rules not evaluated ({e.rule} at {e.anchor}: {e.why[:200]}); the verdict rests on the complete play-outs and the folds evaluated before')
    chk.explanation = 'Complete play-outs: the real PlayingPhaseWithHands and four ObservedPlayingPhase replicas are folded in lock-step through all 52 cards of a family of deals x trump x declarer x card-choice strategy (incl. revokes, which the engines allow) and compared with an oracle of the rules after every card (sa/rules/playout.py): offending plays refused without change, accepted plays move exactly the card, conservation (R6).  ' + (chk.explanation or 'The path-summary rules could not bind this shape of the engine and were not evaluated.')


def structural(chk):
    # a failure of a path rule is reported only for a path whose guards ALL evaluate under the valuation (a guard over a helper property or a
    # state the valuation does not know makes the path indefinite -> no verdict from this rule; the play-outs and folds decide)
    chk.strict_guards = True
    P = Playing(chk, 'C05')
    repo, f = chk.repo, P.f
    chk.explanation = (
        'Path-sensitive effect summary of both play_card_by_player overrides (check helpers and play_card inlined), evaluated '
        'for every (seat on turn x seat named x observer seat x dummy seat x card held or not x dummy hand disclosed or not): a '
        'play out of turn, or of a card the named seat is known not to hold, ends in raise with NO write on the path; an accepted '
        'play removes exactly that card once from exactly the named seat\'s hand (when that hand is known), adds it once to the '
        'played cards and appends it once to the trick. Who-may-write: hands / played cards are mutated nowhere else in the package.')
    from .playfold import acceptance_rule
    acceptance_rule(chk, 'C05.R5', 'C05.R5')
    card = Tok('card')
    trump = f.member('Suit', 'S')
    n_acc = 0
    for cls, label in VARIANTS:
        w, q = loc(repo, cls, 'play_card_by_player', 'C05.R1')
        ci, fn = repo.method(cls, 'play_card_by_player', 'C05.R1')
        # (the method may be inherited - a template method whose hook the class overrides: paths are enumerated with dyn=cls)
        params = [a.arg for a in fn.args.args]
        if len(params) != 3:
            raise AnalysisError('C05.R1', q, 'expected play_card_by_player(self, card, player)')
        cardp, playerp = params[1], params[2]
        paths = P.summ.paths(cls, 'play_card_by_player', dyn=cls, allow_truncated=True)
        chk.note(f'{cls}.play_card_by_player: {len(paths)} paths')
        observers = P.players if cls == 'ObservedPlayingPhase' else [P.players[0]]
        for me in observers:
            for dummy in (P.players if cls == 'ObservedPlayingPhase' else [P.players[2]]):
                if cls == 'ObservedPlayingPhase' and dummy == me and False:
                    continue
                for active in P.players:
                    for player in P.players:
                        for holds in (True, False):
                            for dummy_known in ((True, False) if cls == 'ObservedPlayingPhase' else (True,)):
                                for ln in (2, 4):
                                    chk.evals()
                                    st = {'card': card, 'player': player, 'active': active, 'leader': active, 'me': me, 'dummy': dummy,
                                          'declarer': P.step(dummy, 'next_player', 2), 'trump': trump, 'trick_num': 3, 'len': ln,
                                          'trump_idx': 1, 'led_idx': 0, 'other_idx': 2, 'dummy_known': dummy_known,
                                          'holds': {s.name: (holds if s == player else not holds) for s in P.players}}
                                    pe = P.evaluator(st, cardp=cardp, playerp=playerp)
                                    cons = [p for p in paths if P.consistent(p, pe)]
                                    if not cons:
                                        raise AnalysisError('C05.R1', q, 'no consistent path')
                                    if cls == 'PlayingPhaseWithHands':
                                        known = True
                                    else:
                                        known = player == me or (player == dummy and dummy_known)
                                        undisclosed = player == dummy and player != me and not dummy_known
                                    situation = f'{cls}: on turn {active.name}, named {player.name}, observer {me.name}, dummy {dummy.name}, ' \
                                                f'holds card: {holds}, dummy disclosed: {dummy_known}'
                                    must_refuse = player != active or (known and not holds) or \
                                        (cls == 'ObservedPlayingPhase' and undisclosed)
                                    for p in cons:
                                        chk.focus(p, pe)
                                        ws = p.writes()
                                        if must_refuse:
                                            why = 'out of turn' if player != active else \
                                                ('card not held' if known and not holds else 'dummy hand not disclosed')
                                            chk.require(p.end[0] == 'raise', 'C05.R1', w, q, f'{why} accepted: {p.describe()[-90:]}',
                                                        f'a play {why} is refused with an error',
                                                        f'{situation}: the play ({why}) is not refused', path=p.describe())
                                            chk.require(not ws, 'C05.R1', repo.where(P.mod, ws[0].node) if ws else w, q,
                                                        (ast.unparse(ws[0].node) if ws else 'no write') + f' before refusing ({why})',
                                                        f'a refused play ({why}) changes nothing',
                                                        f'{situation}: `{ast.unparse(ws[0].node) if ws else ""}` is executed before the play is refused ({why})',
                                                        path=p.describe())
                                            continue
                                        n_acc += 1
                                        chk.require(p.end[0] != 'raise', 'C05.R2', w, q, f'legal play refused: {p.describe()[-90:]}',
                                                    'a play in turn of a held card is accepted', f'{situation}: the play is refused',
                                                    path=p.describe())
                                        rem = []
                                        for e in p.events:
                                            if e.kind == 'call' and e.method in ('remove', 'discard', 'pop', 'clear', 'difference_update'):
                                                rem.append((e, pe.eval(ast.parse(e.recv, mode='eval').body)))
                                        if known:
                                            good = len(rem) == 1 and rem[0][0].method in ('remove', 'discard') and \
                                                rem[0][1] == Tok(('hand', player.name)) and len(rem[0][0].args) == 1 and \
                                                pe.eval(rem[0][0].args[0]) == card
                                            chk.require(good, 'C05.R2', repo.where(P.mod, rem[0][0].node) if rem else w, q,
                                                        '; '.join(e.text for e, _ in rem) + f' [{cls}, named {"observer" if player == me else "dummy" if player == dummy else "seat"}]',
                                                        'the card leaves exactly the hand of the seat that played it, once',
                                                        f'{situation}: hand updates are {[(e.text, str(h)) for e, h in rem]}; expected one removal of the card '
                                                        f'from the hand of {player.name}', path=p.describe())
                                        else:
                                            chk.require(not rem, 'C05.R2', w, q, '; '.join(e.text for e, _ in rem) + ' [hidden hand]',
                                                        'a play from a hidden hand touches no known hand',
                                                        f'{situation}: a known hand is modified for a play from a hidden hand: {[e.text for e, _ in rem]}')
                                        used = [e for e in p.events if e.kind == 'call' and e.recv == 'self.used_cards']
                                        good = len(used) == 1 and used[0].method == 'add' and pe.eval(used[0].args[0]) == card
                                        chk.require(good, 'C05.R3', w, q, 'played cards: ' + '; '.join(e.text for e in used),
                                                    'the card is added exactly once to the played cards',
                                                    f'{situation}: played-card set updated by {[e.text for e in used]}')
                                        tr = [e for e in p.events if e.kind == 'call' and e.recv == P.trick]
                                        good = len(tr) == 1 and tr[0].method == 'append' and pe.eval(tr[0].args[0]) == card
                                        chk.require(good, 'C05.R3', w, q, 'trick: ' + '; '.join(e.text for e in tr),
                                                    'the card is appended exactly once to the trick',
                                                    f'{situation}: trick updated by {[e.text for e in tr]}')
    chk.floor('C05.R2', 'accepted-play paths evaluated', n_acc, 40)

    # base class variant (no hands): turn check only
    w, q = loc(repo, BASE, 'play_card_by_player', 'C05.R1')
    _, fn = repo.method(BASE, 'play_card_by_player', 'C05.R1')
    params = [a.arg for a in fn.args.args]
    paths = P.summ.paths(BASE, 'play_card_by_player', dyn=BASE, allow_truncated=True)
    for active in P.players:
        for player in P.players:
            pe = P.evaluator({'card': card, 'player': player, 'active': active, 'leader': active, 'len': 2, 'trump': trump,
                              'trick_num': 2}, cardp=params[1], playerp=params[2])
            for p in paths:
                if P.consistent(p, pe) and player != active:
                    chk.focus(p, pe)
                    chk.require(p.end[0] == 'raise' and not p.writes(), 'C05.R1', w, q, f'base: out of turn {p.describe()[-60:]}',
                                'out-of-turn play is refused without a write (no-hands engine)',
                                f'no-hands engine: {player.name} plays while {active.name} is on turn and is not refused cleanly')

    # ---- R4 who may write the hands / played cards -----------------------------------------------------------------
    playing_classes = ('PlayingPhase', 'PlayingPhaseWithHands', 'ObservedPlayingPhase')
    for (m, qual, node) in external_mutations(repo, {'hands', 'hand', 'dummy_hand', '_hand', '_dummy_hand', 'used_cards', '_trick_cards'},
                                              exclude_classes=playing_classes):
        chk.require(False, 'C05.R4', repo.where(m, node), qual, ast.unparse(node),
                    'no code outside the play engine mutates hands or played cards',
                    f'`{ast.unparse(node)}` mutates play-engine state from outside')
    from .common import writer_closure
    allowed = {('PlayingPhase', '__init__'), ('PlayingPhase', 'play_card'), ('PlayingPhaseWithHands', '__init__'),
               ('PlayingPhaseWithHands', 'play_card_by_player'), ('ObservedPlayingPhase', '__init__'),
               ('ObservedPlayingPhase', 'play_card_by_player'), ('ObservedPlayingPhase', 'set_dummy_hand')}
    # the hierarchy of the engines: mixins / helper bases of the package in their MROs take part (a template method in a mixin that calls a
    # hook of the concrete class is the same writer)
    hierarchy = list(playing_classes)
    for cn in playing_classes:
        for c2 in repo.mro(repo.cls(cn, 'C05.R4')):
            if c2.name not in hierarchy:
                hierarchy.append(c2.name)
    root_names = {m for _, m in allowed}
    allowed |= {(cn, m) for cn in hierarchy for m in root_names if cn not in playing_classes}
    for cn in hierarchy:       # private helpers called only from the allowed writers write on their behalf
        allowed |= {(cn, m) for c2, m in writer_closure(repo, hierarchy, root_names) if c2 == cn}
    n = 0
    for cname in hierarchy:
        ci = repo.cls(cname, 'C05.R4')
        for meth, fn in ci.methods.items():
            for attr, node in writers_of(fn, {'hands', '_hand', '_dummy_hand', 'used_cards'}):
                n += 1
                chk.require((cname, meth) in allowed, 'C05.R4', repo.where(ci.module, node), f'{cname}.{meth}', ast.unparse(node),
                            f'{attr} written in {cname}.{meth} (constructor / play only)',
                            f'{attr} is modified in {cname}.{meth}: `{ast.unparse(node)}`')
    chk.floor('C05.R4', 'writers of hands / played cards', n, 6)
    # set_dummy_hand only installs the given set
    w, q = loc(repo, 'ObservedPlayingPhase', 'set_dummy_hand', 'C05.R4')
    sp = P.summ.paths('ObservedPlayingPhase', 'set_dummy_hand')
    good = len(sp) == 1 and [e.kind for e in sp[0].writes()] == ['assign'] and sp[0].writes()[0].target == 'self._dummy_hand'
    chk.require(good, 'C05.R4', w, q, 'set_dummy_hand', 'set_dummy_hand only installs the dummy hand', 'set_dummy_hand does more than install the hand')
    # the hand objects handed out by Hands.__getitem__ are the stored sets (mutation through hands[p] reaches the deal)
    w, q = loc(repo, 'Hands', '__getitem__', 'C05.R2')
    want = {'N': 'north', 'E': 'east', 'S': 'south', 'W': 'west'}
    hp = P.summ.paths('Hands', '__getitem__')
    _, gi = repo.method('Hands', '__getitem__', 'C05.R2')
    ip = gi.args.args[1].arg
    from ..fold import PartialEvaluator
    for s in P.players:
        pe = PartialEvaluator(f, repo.cls('Hands').module, [lambda n, s=s: s if isinstance(n, ast.Name) and n.id == ip else NOVALUE])
        def through_dict(e, s=s):
            # `{Player.N: self.north, ...}[item]` hands out the stored object of the matching key (no copy is made by the lookup)
            if isinstance(e, ast.Subscript) and isinstance(e.value, ast.Dict):
                for k_, v_ in zip(e.value.keys, e.value.values):
                    if k_ is not None and ast.unparse(k_) == f'Player.{s.name}':
                        return v_
            return e
        got = {ast.unparse(through_dict(p.end[1])) for p in hp if P.consistent(p, pe) and p.end[0] == 'return'}
        chk.require(got == {f'self.{want[s.name]}'}, 'C05.R2', w, q, f'Hands[{s.name}]', f'hands[{s.name}] is the {want[s.name]} hand itself',
                    f'Hands[{s.name}] returns {got}')
