"""The framing rules of C19 (R7, R8) alone: the session properties C08-C11 rest on messages arriving intact whatever the
chunking of the byte stream and on send_message delivering the whole line."""
from .c19 import framing


def run(chk):
    framing(chk)
