"""Hygiene rule M10 - a class that defines its own copy protocol (`__deepcopy__`, `__copy__`) must give `copy.deepcopy` an
independent object.

The play and auction engines are mutable state machines; a search agent, a look-ahead or a second table forks them with
`copy.deepcopy`.  A hand-written fast path that forgets one container (the availability vector, a per-seat list, the cards of the
current trick, the dummy's hand) leaves the fork and the original sharing state: a call or card taken on one changes what the other
accepts, advertises and records - each object alone still behaves, so no example-based test sees it.

Decision (by evaluation of the subject's AST in the analyser, nothing is executed by CPython): every class of the package that
defines or inherits a copy protocol is brought into a mid-life state through its public methods (an auction after a bid, a pass and
a double; a play after five cards with the dummy's hand disclosed; a deal), forked with `copy.deepcopy` *through its own protocol*,
and the two object graphs are compared: (a) no mutable object (list, dict, set, array, object built by a constructor) is reachable
from both; (b) the fork holds the same values as the original.  A class with a copy protocol that the rule has no scenario for is an
analysis error (exit 2), not a pass."""
from __future__ import annotations

from typing import Dict, List, Tuple

from ..fold import DV, EV, Folder, FoldRaise, Unsupported
from ..index import AnalysisError
from .. import npstub

PROTO = ('__deepcopy__', '__copy__')
ACTIONS: Dict[str, object] = {}      # scenario class -> further public actions performed on the fork (must not be visible in the original)
ENGINE_MODULES = {'bidding_phase', 'playing_phase', 'hands'}


def _mutables(root, fo: Folder) -> Dict[int, Tuple[str, object]]:
    out: Dict[int, Tuple[str, object]] = {}
    seen = set()

    def walk(v, path, depth):
        if depth > 8 or id(v) in seen:
            return
        if isinstance(v, DV):
            seen.add(id(v))
            if id(v) in fo._fresh:
                out[id(v)] = (path, v)
            for k, x in v.fields.items():
                walk(x, f'{path}.{k}', depth + 1)
        elif isinstance(v, dict):
            seen.add(id(v))
            out[id(v)] = (path, v)
            for k, x in v.items():
                walk(x, f'{path}[{getattr(k, "name", k)!r}]', depth + 1)
        elif isinstance(v, (list, set, bytearray)):
            seen.add(id(v))
            out[id(v)] = (path, v)
            if isinstance(v, list):
                for i, x in enumerate(v):
                    walk(x, f'{path}[{i}]', depth + 1)
        elif getattr(v, '_sa_native', False) and hasattr(v, 'data'):
            seen.add(id(v))
            out[id(v)] = (path, v)
        elif isinstance(v, tuple) and not (v and isinstance(v[0], str)):
            for i, x in enumerate(v):
                walk(x, f'{path}[{i}]', depth + 1)
    walk(root, 'self', 0)
    return out


def _render(v, depth=0):
    if depth > 8:
        return '...'
    if isinstance(v, EV):
        return f'{v.cls.name}.{v.name}'
    if isinstance(v, DV):
        return (v.cls.name, tuple(sorted((k, _render(x, depth + 1)) for k, x in v.fields.items())))
    if isinstance(v, dict):
        return ('dict', tuple((repr(_render(k, depth + 1)), _render(x, depth + 1)) for k, x in v.items()))
    if isinstance(v, (list, tuple)) and not (isinstance(v, tuple) and v and isinstance(v[0], str)):
        return (type(v).__name__, tuple(_render(x, depth + 1) for x in v))
    if isinstance(v, (set, frozenset)):
        return ('set', tuple(sorted(repr(_render(x, depth + 1)) for x in v)))
    if getattr(v, '_sa_native', False) and hasattr(v, 'data'):
        return ('array', tuple(v.data))
    return repr(v)


def _scenarios(repo, fo: Folder) -> Dict[str, object]:
    """class name -> an instance in a mid-life state, built through public methods only."""
    out: Dict[str, object] = {}
    P = {p.name: p for p in fo.members('Player')}
    V = {v.name: v for v in fo.members('Vul')}
    B = {b.name: b for b in fo.members('Bid')}
    if repo.has_cls('BiddingPhase'):
        e = fo._construct(repo.cls('BiddingPhase'), [], {'dealer': P['N'], 'vul': V['NS']})
        for nm in ('C1', 'X', 'Pass'):
            fo.call_method(e, 'take_bid', B[nm])
        out['BiddingPhase'] = e
        ACTIONS['BiddingPhase'] = lambda o: [fo.call_method(o, 'take_bid', B[nm]) for nm in ('XX', 'D1', 'Pass', 'X', 'XX', 'NT7')]
    from .c14 import build_deals
    deals = dict(build_deals(fo))
    hd = next(iter(deals.values()))
    mk = lambda: fo._construct(repo.cls('Hands'), [], {'north_hand': set(hd['N']), 'east_hand': set(hd['E']), 'south_hand': set(hd['S']), 'west_hand': set(hd['W'])})     # noqa: E731
    out['Hands'] = mk()
    con = fo._construct(repo.cls('Contract'), [], {'final_bid': B['NT1'], 'x': False, 'xx': False, 'vul': V['NONE'], 'declarer': P['N']})

    def some_card(seat, led=None):
        cs = sorted(hd[seat], key=lambda c: (c.fields['suit'].name, c.fields['rank']))
        if led is not None:
            same = [c for c in cs if c.fields['suit'] == led]
            if same:
                return same[0]
        return cs[0]
    order = ['E', 'S', 'W', 'N']
    if repo.has_cls('PlayingPhaseWithHands'):
        full = fo._construct(repo.cls('PlayingPhaseWithHands'), [], {'contract': con, 'hands': mk()})
        led = None
        played = []
        for s in order:
            c = some_card(s, led)
            led = led or c.fields['suit']
            fo.call_method(full, 'play_card_by_player', c, P[s])
            played.append((s, c))
        out['PlayingPhaseWithHands'] = full

        def play_on(o, n=8):
            """n more cards on the engine o, each by the seat on turn from the hand the oracle of this scenario says it holds"""
            left = {s: [c for c in sorted(hd[s], key=lambda c: (c.fields['suit'].name, c.fields['rank'])) if all(c is not pc for _, pc in played)] for s in 'NESW'}
            for _ in range(n):
                ap = fo.call_method(o, 'active_player') if False else o.fields.get('active_player')
                seat = getattr(ap, 'name', None)
                if seat is None or not left[seat]:
                    return
                c = left[seat].pop(0)
                try:
                    if 'hands' in o.fields or '_hand' in o.fields:
                        fo.call_method(o, 'play_card_by_player', c, P[seat])
                    else:
                        fo.call_method(o, 'play_card', c)
                except FoldRaise:
                    return
        ACTIONS['PlayingPhaseWithHands'] = ACTIONS['ObservedPlayingPhase'] = ACTIONS['PlayingPhase'] = play_on
        ph = full.fields.get('playing_history')
        if isinstance(ph, DV):
            out[ph.cls.name] = ph
        if repo.has_cls('ObservedPlayingPhase'):
            ob = fo._construct(repo.cls('ObservedPlayingPhase'), [], {'contract': con, 'player': P['E'], 'hand': set(hd['E'])})
            fo.call_method(ob, 'play_card_by_player', played[0][1], P['E'])
            fo.call_method(ob, 'set_dummy_hand', set(hd['S']))
            for s, c in played[1:]:
                fo.call_method(ob, 'play_card_by_player', c, P[s])
            out['ObservedPlayingPhase'] = ob
        if repo.has_cls('PlayingPhase'):
            base = fo._construct(repo.cls('PlayingPhase'), [], {'contract': con})
            for s, c in played:
                fo.call_method(base, 'play_card', c)
            out['PlayingPhase'] = base
    return out


def run(chk, rule: str, modules) -> None:
    repo = chk.repo
    with_proto = []
    for m in repo.modules.values():
        for ci in m.classes.values():
            own = [p for p in PROTO if any(p in c.methods for c in repo.mro(ci))]
            if own:
                with_proto.append((ci, own))
    rel = lambda ci: ci.module.name[len('bridge_env.'):] if ci.module.name.startswith('bridge_env.') else ci.module.name      # noqa: E731
    mine = [(ci, own) for ci, own in with_proto if rel(ci) in modules or any(rel(c) in modules for c in repo.mro(ci))]
    if not mine:
        return
    fo = Folder(repo, allow_loops=True, max_steps=2_000_000)
    fo.numpy = npstub
    try:
        scen = _scenarios(repo, fo)
    except (Unsupported, FoldRaise, KeyError) as e:
        raise AnalysisError(rule, 'copy protocol', f'cannot build the mid-life scenarios for classes with a copy protocol: {e}')
    copy_attr = fo._attr(('pymodule', 'copy'), 'deepcopy')
    for ci, own in mine:
        if '__deepcopy__' not in own:
            continue        # __copy__ alone: a shallow copy shares by definition
        short = ci.name.split('.')[-1]
        obj = scen.get(short)
        dc, dfn = next((c, c.methods['__deepcopy__']) for c in repo.mro(ci) if '__deepcopy__' in c.methods)
        where = repo.where(dc.module, dfn)
        qual = f'{dc.name}.__deepcopy__'
        if obj is None:
            raise AnalysisError(rule, qual, f'{short} defines / inherits __deepcopy__ and the rule has no scenario that builds one: independence of its copies is not decided')
        try:
            fo.steps = 0
            dup = fo._apply(copy_attr, [obj], {})
        except (Unsupported, AnalysisError) as e:
            raise AnalysisError(rule, qual, f'__deepcopy__ of {short} left the foldable subset: {e}')
        except FoldRaise as e:
            chk.fail(rule, where, qual, f'copy.deepcopy of a {short} raises', f'copy.deepcopy of a {short} in mid-life state raises {e.kind} ({e.msg[:80]})')
            continue
        chk.evals()
        if not isinstance(dup, DV) or dup.cls is not obj.cls:
            chk.fail(rule, where, qual, f'copy.deepcopy of a {short} is not a {short}', f'copy.deepcopy of a {short} returns {type(dup).__name__ if not isinstance(dup, DV) else dup.cls.name}')
            continue
        a, b = _mutables(obj, fo), _mutables(dup, fo)
        shared = sorted((a[i][0] for i in a if i in b and i != id(obj)), key=len)
        if dup is obj:
            shared = ['self'] + shared
        same = _render(obj) == _render(dup)
        if shared:
            # sharing is a violation when it shows: further actions on the fork through its public methods must leave the original as it was.
            # (a container both only read - a lookup table kept on the instance - may be shared; then nothing changes and nothing is reported)
            before = _render(obj)
            act = ACTIONS.get(short)
            if act is None:
                raise AnalysisError(rule, qual, f'copy.deepcopy of a {short} shares `{shared[0]}` with the original and the rule has no action to show whether that matters')
            try:
                fo.steps = 0
                act(dup)
            except (Unsupported, AnalysisError) as e:
                raise AnalysisError(rule, qual, f'actions on the fork of a {short} left the foldable subset: {e}')
            except FoldRaise:
                pass
            changed = _render(obj) != before
            chk.require(not changed, rule, where, qual, f'copy.deepcopy of a {short}: shared mutable state',
                        f'calls / cards taken by a fork made with copy.deepcopy (through {qual}) leave the original {short} unchanged',
                        f'after copy.deepcopy of a {short} in mid-life state the fork and the original share `{shared[0]}`'
                        + (f' (and {len(shared) - 1} more)' if len(shared) > 1 else '') + ': calls / cards then taken by the fork change the original (each object alone still behaves)')
            if not changed:
                chk.note(f'{rule}: copy.deepcopy of a {short} shares `{shared[0]}` with the original; further actions on the fork did not change the original (read-only sharing)')
        if not shared or True:
            chk.require(same, rule, where, qual, f'copy.deepcopy of a {short}: value', f'copy.deepcopy of a {short} holds the same values as the original',
                        f'copy.deepcopy of a {short} in mid-life state (through {qual}) does not hold the same state as the original')
