"""C09 - a session with four conforming clients always runs to completion.

R1  Kahn-process-network discipline of every cross-thread primitive (who-may-call / allowed
    operations): unbounded FIFO queues with blocking get and plain put, one producer and one
    consumer role per queue, a Barrier among main + the four seat threads, the per-connection
    Event only as a one-shot handshake.  Under that discipline channel histories and
    termination are independent of the schedule (Kahn 1974).
R2  abstract interpretation of the communication skeleton (sa.skeleton) for every role
    configuration of the family: no deadlock, all nine processes finish, queues drained,
    every client told "End of session", log closed first, seat threads joined.
R3  every control token the main thread can put has a comparison on the seat side and vice versa.
R4  barrier arity = number of seats + 1.
The extra scheduling policies (one process stalled / rushed as long as possible, seeded random)
are a cross-check of R1's theorem on the identical configuration, not the argument itself."""
from __future__ import annotations

import ast

from ..fold import Folder
from ..index import AnalysisError, parent
from . import session as S
from .c13 import stmt_of
from .common import loc
from .sync import SyncInventory

SRV = 'bridge_env/network_bridge/server.py'


def _fold_local(repo, mod, node, expr, rule):
    """Constant value of `expr` at `node`, resolving names through the single assignments of the enclosing function."""
    from ..index import enclosing_function
    if expr is None:
        return None
    fn = enclosing_function(node)
    env = {}
    f = Folder(repo)
    if fn is not None:
        for st in ast.walk(fn):
            if isinstance(st, ast.Assign) and len(st.targets) == 1 and isinstance(st.targets[0], ast.Name) and st.lineno < node.lineno:
                try:
                    env[st.targets[0].id] = f._eval(st.value, dict(env), mod, None)
                except Exception:  # noqa
                    pass
    try:
        return f._eval(expr, env, mod, None)
    except Exception as e:  # noqa
        raise AnalysisError(rule, ast.unparse(node), f'cannot fold `{ast.unparse(expr)}` to a constant: {e}')


def _helper_of(repo, fn, call):
    """The method `self.m(...)` / `cls.m(...)` / `Class.m(...)` calls, looked up in the class that owns `fn`."""
    if not (isinstance(call, ast.Call) and isinstance(call.func, ast.Attribute) and isinstance(call.func.value, ast.Name)):
        return None
    recv = call.func.value.id
    for m in repo.modules.values():
        for ci in m.classes.values():
            if any(x is fn for x in ci.methods.values()) or ci.name.split('.')[-1] == recv:
                if recv in ('self', 'cls') or ci.name.split('.')[-1] == recv:
                    for c in repo.mro(ci):
                        if call.func.attr in c.methods:
                            return c.methods[call.func.attr]
    return None


def _payload_kind(repo, fn, e, depth=0):
    """'text' | 'mutable hand object' | 'unknown' for the expression handed to Queue.put."""
    if depth > 4:
        return 'unknown'
    if isinstance(e, ast.JoinedStr) or (isinstance(e, ast.Constant) and isinstance(e.value, str)):
        return 'text'
    if isinstance(e, ast.BinOp) and isinstance(e.op, ast.Add):
        ks = {_payload_kind(repo, fn, e.left, depth + 1), _payload_kind(repo, fn, e.right, depth + 1)}
        return 'text' if ks == {'text'} else ('unknown' if 'unknown' in ks else sorted(ks - {'text'})[0])
    if isinstance(e, ast.IfExp):
        ks = {_payload_kind(repo, fn, e.body, depth + 1), _payload_kind(repo, fn, e.orelse, depth + 1)}
        return 'text' if ks == {'text'} else ('unknown' if 'unknown' in ks else sorted(ks - {'text'})[0])
    if isinstance(e, ast.Attribute):
        if e.attr in ('formal_name', 'name') or (isinstance(e.value, ast.Attribute) and e.value.attr == 'Message'):
            return 'text'
        return 'unknown'
    if isinstance(e, ast.Call):
        f = ast.unparse(e.func)
        if f.endswith(('hand_to_str', 'remove_alert_word', 'receive_message', 'receive_message_from_queue', '.get', 'convert_vul', 'str', '.format', '.join', '_hand_message')):
            return 'text'
        hf = _helper_of(repo, fn, e)
        if hf is not None:
            rets = [r.value for r in ast.walk(hf) if isinstance(r, ast.Return) and r.value is not None]
            ks = {_payload_kind(repo, hf, r, depth + 1) for r in rets}
            if ks:
                return 'text' if ks == {'text'} else ('unknown' if 'unknown' in ks else sorted(ks - {'text'})[0])
        return 'unknown'
    if isinstance(e, ast.Subscript):
        base = e.value
        ann = {a.arg: (ast.unparse(a.annotation) if a.annotation is not None else '') for a in fn.args.args}
        if isinstance(base, ast.Name) and 'Hands' in ann.get(base.id, ''):
            return 'mutable hand object'
        return 'unknown'
    if isinstance(e, ast.Name):
        ann = {a.arg: (ast.unparse(a.annotation) if a.annotation is not None else '') for a in fn.args.args}
        if e.id in ann:
            if ann[e.id] == 'str':
                return 'text'
            if 'Hands' in ann[e.id] or 'Set[' in ann[e.id]:
                return 'mutable hand object'
        defs = [n.value for n in ast.walk(fn) if isinstance(n, ast.Assign) and len(n.targets) == 1 and isinstance(n.targets[0], ast.Name) and n.targets[0].id == e.id]
        ks = {_payload_kind(repo, fn, d, depth + 1) for d in defs}
        # `a, b = self.helper(...)`: the kind of the corresponding element of what the helper returns
        for n in ast.walk(fn):
            if isinstance(n, ast.Assign) and len(n.targets) == 1 and isinstance(n.targets[0], ast.Tuple):
                names = [t.id if isinstance(t, ast.Name) else None for t in n.targets[0].elts]
                if e.id in names:
                    i = names.index(e.id)
                    if isinstance(n.value, ast.Tuple) and len(n.value.elts) == len(names):
                        ks.add(_payload_kind(repo, fn, n.value.elts[i], depth + 1))
                        continue
                    hf = _helper_of(repo, fn, n.value)
                    if hf is None:
                        ks.add('unknown')
                        continue
                    rets = [r.value for r in ast.walk(hf) if isinstance(r, ast.Return)]
                    if not rets or not all(isinstance(r, ast.Tuple) and len(r.elts) == len(names) for r in rets):
                        ks.add('unknown')
                        continue
                    for r in rets:
                        ks.add(_payload_kind(repo, hf, r.elts[i], depth + 1))
        if not ks:
            return 'unknown'
        return 'text' if ks == {'text'} else ('unknown' if 'unknown' in ks else sorted(ks - {'text'})[0])
    return 'unknown'


def discipline(chk, rule='C09.R1'):
    """Static KPN discipline.  Returns the inventory (also used by C08 / C10)."""
    repo = chk.repo
    inv = SyncInventory(repo, rule)
    sm = inv.mod

    # every primitive constructed anywhere in the package is one of the three understood kinds
    for m, k, call, qual in inv.ctors:
        where = repo.where(m, call)
        if k not in ('Queue', 'Event', 'Barrier'):
            raise AnalysisError(rule, qual, f'unsupported synchronisation primitive `{ast.unparse(call)}` at {where}: the discipline argument covers Queue, '
                                            f'Barrier and the one-shot Event only')
        if k == 'Queue':
            chk.require(not call.args and not call.keywords, rule, where, qual, f'`{ast.unparse(call)}`',
                        f'{qual}: FIFO channel is unbounded (put never blocks)',
                        f'`{ast.unparse(call)}` is a bounded queue: put() can block, the main thread queues several messages per seat before '
                        f'the seat thread reads (two in Server.deal) - outside the Kahn discipline')
        if k == 'Barrier':
            n = _fold_local(repo, m, call, call.args[0] if call.args else None, rule)
            seats = len(repo.cls('Player', rule).enum_members())
            chk.require(n == seats + 1 and len(call.args) == 1 and not call.keywords, 'C09.R4' if rule.startswith('C09') else rule, where, qual, f'`{ast.unparse(call)}`',
                        f'barrier parties = {seats} seat threads + the main thread',
                        f'`{ast.unparse(call)}` has {n} parties; the main thread and the {seats} seat threads ({seats + 1}) meet there')
    chk.floor(rule, 'queue-holding attributes of Server / PlayerThread', sum(1 for k in inv.attr_class.values() if k == 'Queue'), 4)

    for qual, call in inv.unresolved:
        raise AnalysisError(rule, qual, f'`{ast.unparse(call)}` at {repo.where(sm, call)}: receiver of a synchronisation-like operation cannot be typed')

    wiring = inv.wiring()
    # queues ------------------------------------------------------------------------------------------------------------
    qops = [o for o in inv.ops if o.recv_class == 'Queue']
    for o in qops:
        where = repo.where(sm, o.call)
        txt = ast.unparse(o.call)
        if o.op == 'put':
            chk.require(len(o.call.args) == 1 and not o.call.keywords, rule, where, o.qual, f'`{o.recv_text}.put` with block/timeout',
                        f'{o.qual}: plain put', f'`{txt}`: put with block/timeout arguments makes delivery depend on timing')
        elif o.op == 'get':
            chk.require(not o.call.args and not o.call.keywords, rule, where, o.qual, f'`{o.recv_text}.get` with block/timeout',
                        f'{o.qual}: blocking get without timeout',
                        f'`{txt}`: a get with block=False / a timeout raises queue.Empty when the producer is slow - a long stall of one thread '
                        f'aborts the session')
        else:
            chk.fail(rule, where, o.qual, f'`{o.recv_text}.{o.op}`',
                     f'`{txt}`: `{o.op}` on a message queue is a timing-dependent operation (polling / non-blocking); only blocking get() and put(x) keep '
                     f'the outcome independent of the schedule')
    chk.floor(rule, 'queue operations', len([o for o in qops if o.op in ('put', 'get')]), 4)
    # messages are immutable values: what crosses a queue is text (or a control token), never an object another thread keeps mutating
    for o in qops:
        if o.op == 'put' and o.call.args:
            kind = _payload_kind(repo, o.fn, o.call.args[0])
            where = repo.where(sm, o.call)
            if kind == 'text':
                chk.ok(rule, where, f'{o.qual}: `{ast.unparse(o.call.args[0])[:40]}` handed to the queue is text')
            elif kind == 'unknown':
                raise AnalysisError(rule, o.qual, f'cannot type the payload of `{ast.unparse(o.call)[:70]}` at {where}')
            else:
                chk.fail(rule, where, o.qual, f'queue payload `{ast.unparse(o.call.args[0])[:50]}` is a {kind}',
                         f'`{ast.unparse(o.call)[:80]}` hands a {kind} to another thread: the main thread keeps removing played cards from the hand sets of the board '
                         f'being played, so what the receiving thread formats depends on when it runs (a seat can be shown dummy with a card missing) - only text '
                         f'built by the sender may cross a queue')
    # single producer / single consumer per role and attribute
    by_attr = {}
    for o in qops:
        if o.op in ('put', 'get'):
            by_attr.setdefault((o.role, o.root), set()).add(o.op)
    for (role, root), ops in sorted(by_attr.items()):
        any_op = next(o for o in qops if o.role == role and o.root == root)
        chk.require(len(ops) == 1, rule, repo.where(sm, any_op.call), any_op.qual, f'{role} both reads and writes {root}',
                    f'{role} role uses {root} in one direction only ({sorted(ops)[0]})',
                    f'the {role} thread both puts to and gets from `{root}`: it can consume its own messages')
    seat_attrs = {root for (role, root) in by_attr if role == 'seat'}
    for sa_ in sorted(seat_attrs):
        attr = sa_.split('.', 1)[1]
        main_expr = wiring.get(attr)
        if main_expr is None:
            raise AnalysisError(rule, 'PlayerThread.__init__', f'cannot trace `{sa_}` to a constructor keyword in Server.run')
        seat_ops = by_attr.get(('seat', sa_), set())
        main_ops = by_attr.get(('main', main_expr), set())
        compl = {'put': 'get', 'get': 'put'}
        ok = len(seat_ops) == 1 and len(main_ops) == 1 and compl[next(iter(seat_ops))] == next(iter(main_ops))
        chk.require(ok, rule, repo.where(sm, inv.thread_ctor), 'Server.run', f'wiring {attr} <- {main_expr}',
                    f'seat side {sorted(seat_ops)} on `{sa_}` is the complement of main side {sorted(main_ops)} on `{main_expr}`',
                    f'`{sa_}` is bound to `{main_expr}` in Server.run; seat threads {sorted(seat_ops)} it and the main thread {sorted(main_ops)} it - '
                    f'producer and consumer of a channel must be different roles')
    for o in qops:
        if o.role == 'seat' and o.op in ('put', 'get'):
            k = ast.unparse(o.key) if o.key is not None else None
            chk.require(k == 'self.player', rule, repo.where(sm, o.call), o.qual, f'seat thread queue key `{k}`',
                        f'{o.qual}: a seat thread touches only the queue of its own seat',
                        f'`{ast.unparse(o.call)}`: a seat thread must use the queue indexed by its own seat (`self.player`), not `{k}`')

    # barrier -------------------------------------------------------------------------------------------------------------
    bops = [o for o in inv.ops if o.recv_class == 'Barrier']
    for o in bops:
        where = repo.where(sm, o.call)
        if o.op == 'wait':
            chk.require(not o.call.args and not o.call.keywords, rule, where, o.qual, f'`{o.recv_text}.wait` with timeout',
                        f'{o.qual}: barrier wait without timeout', f'`{ast.unparse(o.call)}`: a barrier wait with a timeout breaks the barrier when one thread is slow')
        else:
            chk.fail(rule, where, o.qual, f'`{o.recv_text}.{o.op}`', f'`{ast.unparse(o.call)}`: only wait() is allowed on the rendezvous barrier')
    n_bwaits = len([o for o in bops if o.op == 'wait'])

    # events --------------------------------------------------------------------------------------------------------------
    eops = [o for o in inv.ops if o.recv_class == 'Event']
    for o in eops:
        where = repo.where(sm, o.call)
        txt = ast.unparse(o.call)
        if o.op == 'wait':
            ok = o.role == 'main' and not o.call.args and not o.call.keywords
            chk.require(ok, rule, where, o.qual, f'{o.role} waits on event `{o.recv_text}`', f'{o.qual}: the main thread is the sole waiter of the handshake event, no timeout',
                        f'`{txt}`: an Event waited on by {o.role} threads' + (' with a timeout' if o.call.args or o.call.keywords else '') +
                        ' - an Event shared by several waiters and reused across rounds loses wake-ups (hand-rolled barrier)')
        elif o.op == 'set':
            chk.require(o.role == 'seat', rule, where, o.qual, f'{o.role} sets event `{o.recv_text}`', f'{o.qual}: the connection thread signals its verdict',
                        f'`{txt}`: the main thread sets an Event that other threads wait on and that is cleared later - a release flag reused across rounds '
                        f'can be cleared before a slow waiter has seen it, or seen twice by a fast one (lost wake-up / double pass)')
        elif o.op == 'clear':
            ok = o.role == 'main'
            if ok:
                # one-shot handshake: start(); wait(); ...; clear() as statements of the same loop body, in that order
                st = stmt_of(o.call)
                body = getattr(parent(st), 'body', [])
                waits = [s for s in body if any(isinstance(x, ast.Call) and isinstance(x.func, ast.Attribute) and x.func.attr == 'wait'
                                                and ast.unparse(x.func.value) == o.recv_text for x in ast.walk(s))]
                starts = [s for s in body if any(isinstance(x, ast.Call) and isinstance(x.func, ast.Attribute) and x.func.attr == 'start' for x in ast.walk(s))]
                ok = st in body and len(waits) == 1 and len(starts) == 1 and body.index(starts[0]) < body.index(waits[0]) < body.index(st) and \
                    isinstance(parent(st), ast.While)
            chk.require(ok, rule, where, o.qual, f'{o.role} clears event `{o.recv_text}`', f'{o.qual}: one-shot handshake start(); wait(); clear() per accepted connection',
                        f'`{txt}`: clear() outside the one-shot handshake pattern (sole waiter clears after its own wait, before the next setter is started): '
                        f'clearing a flag other threads may still be waiting on loses wake-ups')
        else:
            chk.fail(rule, where, o.qual, f'`{o.recv_text}.{o.op}`', f'`{txt}`: `{o.op}` makes control flow depend on timing')
    chk.floor(rule, 'event operations of the admission handshake', len(eops), 3)
    if not chk.findings:        # a vacuous pass is the danger; with a finding already named the run does not pass anyway
        chk.floor(rule, 'barrier waits (main and seat side)', n_bwaits, 2)

    # join / is_alive ---------------------------------------------------------------------------------------------------------
    _, run = repo.method('Server', 'run', rule)
    for n in ast.walk(run):
        if isinstance(n, ast.Call) and isinstance(n.func, ast.Attribute) and n.func.attr == 'join' and not isinstance(n.func.value, ast.Constant):
            chk.require(not n.args and not n.keywords, rule, repo.where(sm, n), 'Server.run', '`join` with timeout', 'join without timeout',
                        f'`{ast.unparse(n)}`: join with a timeout lets the session end while a seat thread is still talking to its client')
        if isinstance(n, ast.Call) and isinstance(n.func, ast.Attribute) and n.func.attr == 'is_alive':
            st = stmt_of(n)
            ok = isinstance(st, ast.If) and all(isinstance(b, ast.Expr) for b in st.body + st.orelse) and \
                all('append' in ast.unparse(b) or 'logger' in ast.unparse(b) for b in st.body + st.orelse)
            chk.require(ok, rule, repo.where(sm, n), 'Server.run', '`is_alive` used beyond the join list', 'is_alive() only decides membership of the join list',
                        f'`{ast.unparse(st).splitlines()[0]}`: thread liveness (a timing-dependent fact) influences more than the list of threads to join')
            # ... and the list filled under that test carries the same timing dependence: it may only be iterated to join its members
            if ok:
                lists = {x.func.value.id for b in st.body + st.orelse for x in ast.walk(b)
                         if isinstance(x, ast.Call) and isinstance(x.func, ast.Attribute) and x.func.attr == 'append' and isinstance(x.func.value, ast.Name)}
                for use in ast.walk(run):
                    if isinstance(use, ast.Name) and use.id in lists and isinstance(use.ctx, ast.Load):
                        par = parent(use)
                        if isinstance(par, ast.Attribute) and par.attr == 'append':
                            continue
                        if isinstance(par, ast.For) and par.iter is use:
                            continue
                        if isinstance(par, (ast.Assign, ast.AnnAssign)):
                            continue
                        chk.fail(rule, repo.where(sm, use), 'Server.run', f'list of live threads `{use.id}` used beyond joining',
                                 f'`{ast.unparse(stmt_of(use)).splitlines()[0][:80]}`: `{use.id}` is filled according to `is_alive()` - whether a thread that was turned away has already '
                                 f'finished is a matter of timing - so nothing but the final join may depend on it (a rejected connection whose thread is slow to exit would count as a seated player)')
    return inv


def tokens(chk, rule='C09.R3'):
    repo = chk.repo
    sm = repo.module('network_bridge.server', rule)
    msg = repo.cls('Server.Message', rule)
    names = [n for n in msg.order if not n.startswith('_')]
    chk.floor(rule, 'control tokens', len(names), 6)
    vals = {}
    for n in names:
        v = msg.assigns.get(n)
        if not (isinstance(v, ast.Constant) and isinstance(v.value, str)):
            raise AnalysisError(rule, f'Server.Message.{n}', 'token is not a string constant')
        vals[n] = v.value
    chk.require(len(set(vals.values())) == len(vals), rule, repo.where(sm, msg.node), 'Server.Message', 'token values distinct',
                'control tokens are pairwise distinct', f'two control tokens share a value: {vals}')

    def tok_refs(fn):
        out = []
        for n in ast.walk(fn):
            if isinstance(n, ast.Attribute) and n.attr in vals and isinstance(n.value, ast.Attribute) and n.value.attr == 'Message':
                out.append(n)
        return out
    put, cmp_ = {}, {}
    for cname, role in (('Server', 'main'), ('PlayerThread', 'seat')):
        ci = repo.cls(cname, rule)
        for mname, fn in ci.methods.items():
            for r in tok_refs(fn):
                p = parent(r)
                while isinstance(p, ast.IfExp):
                    p = parent(p)
                if isinstance(p, ast.Compare):
                    cmp_.setdefault(r.attr, []).append((role, f'{cname}.{mname}', r))
                elif isinstance(p, ast.Call) and isinstance(p.func, ast.Attribute) and p.func.attr == 'put':
                    put.setdefault(r.attr, []).append((role, f'{cname}.{mname}', r))
                elif isinstance(p, (ast.Tuple, ast.List, ast.Set, ast.Dict)) and any(isinstance(x, ast.Compare) and any(isinstance(o, (ast.Is, ast.IsNot, ast.Eq, ast.NotEq, ast.In, ast.NotIn)) for o in x.ops)
                                                                                  for x in ast.walk(fn)):
                    # the token sits in a table the method compares received messages with (dispatch table / membership test)
                    cmp_.setdefault(r.attr, []).append((role, f'{cname}.{mname}', r))
    # a token handed to the seat queues by a helper object of the table manager's side (a context manager, a queue wrapper ...): any use of the token
    # outside PlayerThread that is not a comparison counts as the main side putting it
    for m2, c2, fn2 in repo.all_functions():
        if m2 is not sm or (c2 is not None and c2.name in ('PlayerThread', 'Server')):
            continue
        for r in tok_refs(fn2):
            p = parent(r)
            if not isinstance(p, ast.Compare):
                put.setdefault(r.attr, []).append(('main', f'{c2.name if c2 is not None else "server"}.{fn2.name}', r))
    for n in names:
        puts = [x for x in put.get(n, []) if x[0] == 'main']
        cmps = [x for x in cmp_.get(n, []) if x[0] == 'seat']
        if puts:
            chk.require(bool(cmps), rule, repo.where(sm, puts[0][2]), puts[0][1], f'token {n} has no handler',
                        f'token {n} put by the main thread is recognised by the seat thread',
                        f'`Server.Message.{n}` is put into the seat queues by {puts[0][1]} but no PlayerThread method compares a received message with it: '
                        f'the seat thread would treat it as a seat name / text')
        if cmps:
            chk.require(bool(puts), rule, repo.where(sm, cmps[0][2]), cmps[0][1], f'token {n} is never sent',
                        f'token {n} awaited by the seat thread is produced by the main thread',
                        f'`Server.Message.{n}` is awaited in {cmps[0][1]} but the main thread never puts it: the seat thread waits forever or takes the wrong branch')


def run(chk):
    chk.explanation = __doc__
    chk.trusted += ['Kahn determinacy theorem for deterministic processes over blocking FIFO channels',
                    'CPython semantics of queue.Queue, threading.Barrier, threading.Event',
                    'sa.skeleton engine stubs: turn logic as established on the real classes by C01-C05']
    chk.assumptions += ['the four clients conform to protocol v18', 'no exception is raised (abort paths: C13)',
                        'sockets deliver messages in order and without loss']
    discipline(chk)
    tokens(chk)
    fam = S.family(chk.tier)
    # long stalls of each single process on one three-board configuration (passed-out board in the middle)
    ref = dict(boards=[S.board('S', 'W', 2, 1, 'NS'), S.board('W', None, vul='EW'), S.board('N', 'N', 0, 3, 'BOTH')])
    procs = ['main', 'T1', 'T2', 'T3', 'T4', 'client-N', 'client-E', 'client-S', 'client-W']
    stalls = [f'stall:{p}' for p in procs] + ([f'rush:{p}' for p in procs] if chk.tier == 'thorough' else []) + \
        ([f'rand:{i}' for i in range(10, 26)] if chk.tier == 'thorough' else ['rand:10'])
    fam = fam + [(ref, pol) for pol in stalls]
    try:
        res = S.run_family(chk, ['liveness'], fam)
    except AnalysisError as e:
        if chk.findings:      # the discipline rule already names a recognised-and-wrong construct the interpreter does not model
            chk.note(f'abstract sessions not evaluated: {e.why[:300]}')
            return
        raise
    S.record(chk, res)
    groups = S.schedule_independence(chk, res, 'C09.R2')
    chk.floor('C09.R2', 'abstract sessions', len(res), 30)
    chk.exhaustive = chk.tier == 'thorough'
    chk.extra['sessions'] = {'runs': len(res), 'policies': sorted({r['policy'] for r in res}), 'configurations': len({r['vid'] for r in res}),
                             'same-configuration groups compared across policies': groups,
                             'events_interpreted': sum(r['stats'].get('events', 0) for r in res)}
