"""Inventory of cross-thread primitives in the server (who constructs them, which thread role
performs which operation on which object) - the static half of the Kahn-process-network argument
used by C08-C10 and C20."""
from __future__ import annotations

import ast
from typing import Dict, List, Optional, Tuple

from ..index import AnalysisError, Repo, parent

SYNC_CLASSES = {'Queue', 'LifoQueue', 'PriorityQueue', 'SimpleQueue', 'Event', 'Barrier', 'Lock', 'RLock', 'Condition',
                'Semaphore', 'BoundedSemaphore', 'Timer'}
SYNC_MODULES = {'queue', 'threading', 'multiprocessing', '_thread'}
OPS = {'put', 'get', 'put_nowait', 'get_nowait', 'empty', 'full', 'qsize', 'wait', 'set', 'clear', 'is_set', 'task_done',
       'acquire', 'release', 'notify', 'notify_all', 'reset', 'abort', 'locked', 'wait_for'}
ROLE_OF_CLASS = {'Server': 'main', 'PlayerThread': 'seat'}


def sync_class_of_annotation(a: Optional[ast.AST]) -> Optional[str]:
    """'Queue' for Queue / Dict[Player, Queue] / Optional[Queue] ...; None when no primitive is named."""
    if a is None:
        return None
    for n in ast.walk(a):
        if isinstance(n, ast.Name) and n.id in SYNC_CLASSES:
            return n.id
        if isinstance(n, ast.Attribute) and n.attr in SYNC_CLASSES:
            return n.attr
        if isinstance(n, ast.Constant) and isinstance(n.value, str):
            for c in SYNC_CLASSES:
                if c in n.value.replace('[', ' ').replace(']', ' ').replace(',', ' ').split():
                    return c
    return None


def ctor_class(mod, call: ast.AST) -> Optional[str]:
    """'Queue' when `call` constructs a synchronisation primitive (resolved through the module's imports)."""
    if not isinstance(call, ast.Call):
        return None
    f = call.func
    if isinstance(f, ast.Name) and f.id in mod.imports:
        base, name = mod.imports[f.id]
        if base.split('.')[0] in SYNC_MODULES and name in SYNC_CLASSES:
            return name
    if isinstance(f, ast.Attribute) and isinstance(f.value, ast.Name) and f.value.id in mod.imports and f.attr in SYNC_CLASSES:
        base, name = mod.imports[f.value.id]
        if name is None and base.split('.')[0] in SYNC_MODULES:
            return f.attr
    return None


def value_sync_class(mod, v: ast.AST) -> Optional[str]:
    """Primitive class held by the value expression: the primitive itself or a dict / list of them."""
    c = ctor_class(mod, v)
    if c:
        return c
    if isinstance(v, ast.Dict) and v.values:
        cs = {ctor_class(mod, x) for x in v.values}
        if len(cs) == 1 and None not in cs:
            return cs.pop()
    if isinstance(v, (ast.List, ast.Tuple)) and v.elts:
        cs = {ctor_class(mod, x) for x in v.elts}
        if len(cs) == 1 and None not in cs:
            return cs.pop()
    if isinstance(v, (ast.DictComp,)):
        return ctor_class(mod, v.value)
    if isinstance(v, ast.ListComp):
        return ctor_class(mod, v.elt)
    return None


class Op:
    def __init__(self, role, cls, qual, fn, call, recv_class, recv_text, root, key):
        self.role, self.cls, self.qual, self.fn, self.call = role, cls, qual, fn, call
        self.recv_class, self.recv_text, self.root, self.key = recv_class, recv_text, root, key
        self.op = call.func.attr

    def __repr__(self):
        return f'<{self.role} {self.qual}: {self.recv_text}.{self.op}>'


class SyncInventory:
    def __init__(self, repo: Repo, rule: str):
        self.repo, self.rule = repo, rule
        self.mod = repo.module('network_bridge.server', rule)
        self.ctors: List[Tuple[object, str, ast.Call, str]] = []     # (module, class, call, qual)
        self.attr_class: Dict[Tuple[str, str], str] = {}             # (class, attr) -> primitive class
        self.ops: List[Op] = []
        self.unresolved: List[Tuple[str, ast.Call]] = []
        self._scan_ctors()
        self._scan_attrs()
        self._scan_ops()

    # -- constructors anywhere in the package ---------------------------------------------------------------------------
    def _scan_ctors(self):
        for m, c, fn in self.repo.all_functions():
            qual = f'{c.name}.{fn.name}' if c is not None else f'{m.name.split(".")[-1]}:{fn.name}'
            for n in ast.walk(fn):
                k = ctor_class(m, n)
                if k:
                    self.ctors.append((m, k, n, qual))

    # -- attribute types of Server / PlayerThread -------------------------------------------------------------------------
    def _scan_attrs(self):
        for cname in ROLE_OF_CLASS:
            ci = self.repo.cls(cname, self.rule)
            for meth in ci.methods.values():
                params = {a.arg: sync_class_of_annotation(a.annotation) for a in meth.args.args + meth.args.kwonlyargs}
                for n in ast.walk(meth):
                    tgt = val = ann = None
                    if isinstance(n, ast.Assign) and len(n.targets) == 1:
                        tgt, val = n.targets[0], n.value
                    elif isinstance(n, ast.AnnAssign):
                        tgt, val, ann = n.target, n.value, n.annotation
                    if isinstance(tgt, ast.Attribute) and isinstance(tgt.value, ast.Name) and tgt.value.id == 'self':
                        k = sync_class_of_annotation(ann)
                        if k is None and val is not None:
                            k = value_sync_class(ci.module, val)
                        if k is None and isinstance(val, ast.Name) and params.get(val.id):
                            k = params[val.id]
                        if k:
                            self.attr_class[(cname, tgt.attr)] = k

    # -- operations ---------------------------------------------------------------------------------------------------------
    def _local_types(self, ci, fn) -> Dict[str, str]:
        out = {}
        for a in fn.args.args + fn.args.kwonlyargs:
            k = sync_class_of_annotation(a.annotation)
            if k:
                out[a.arg] = k
        for n in ast.walk(fn):
            if isinstance(n, ast.Assign) and len(n.targets) == 1 and isinstance(n.targets[0], ast.Name):
                k = value_sync_class(ci.module, n.value)
                if k:
                    out[n.targets[0].id] = k
            if isinstance(n, ast.AnnAssign) and isinstance(n.target, ast.Name):
                k = sync_class_of_annotation(n.annotation) or (value_sync_class(ci.module, n.value) if n.value is not None else None)
                if k:
                    out[n.target.id] = k
        return out

    def _scan_ops(self):
        for cname, role in ROLE_OF_CLASS.items():
            ci = self.repo.cls(cname, self.rule)
            for mname, fn in ci.methods.items():
                locs = self._local_types(ci, fn)
                for n in ast.walk(fn):
                    if not (isinstance(n, ast.Call) and isinstance(n.func, ast.Attribute) and n.func.attr in OPS):
                        continue
                    recv = n.func.value
                    key = None
                    base = recv
                    if isinstance(base, ast.Subscript):
                        key = base.slice
                        base = base.value
                    k = root = None
                    if isinstance(base, ast.Attribute) and isinstance(base.value, ast.Name) and base.value.id == 'self':
                        k = self.attr_class.get((cname, base.attr))
                        root = f'self.{base.attr}'
                        if k is None and self._known_nonsync_attr(ci, base.attr):
                            continue
                    elif isinstance(base, ast.Name):
                        k = locs.get(base.id)
                        root = base.id
                        if k is None and self._known_nonsync_local(fn, base.id):
                            continue
                    if k is None:
                        self.unresolved.append((f'{cname}.{mname}', n))
                        continue
                    self.ops.append(Op(role, cname, f'{cname}.{mname}', fn, n, k, ast.unparse(recv), root, key))

    def _known_nonsync_attr(self, ci, attr) -> bool:
        """self.<attr> is assigned somewhere from something that is visibly not a primitive (dict of names, str, ...)."""
        for c in self.repo.mro(ci):
            for meth in c.methods.values():
                for n in ast.walk(meth):
                    if isinstance(n, (ast.Assign, ast.AnnAssign)):
                        t = n.targets[0] if isinstance(n, ast.Assign) else n.target
                        if isinstance(t, ast.Attribute) and isinstance(t.value, ast.Name) and t.value.id == 'self' and t.attr == attr:
                            return True
        return False

    def _known_nonsync_local(self, fn, name) -> bool:
        for a in fn.args.args + fn.args.kwonlyargs:
            if a.arg == name and a.annotation is not None and sync_class_of_annotation(a.annotation) is None:
                return True
        for n in ast.walk(fn):
            if isinstance(n, ast.Assign) and any(isinstance(t, ast.Name) and t.id == name for t in n.targets):
                return True
            if isinstance(n, ast.AnnAssign) and isinstance(n.target, ast.Name) and n.target.id == name:
                return True
            if isinstance(n, (ast.For, ast.comprehension)) and any(isinstance(x, ast.Name) and x.id == name for x in ast.walk(n.target)):
                return True
            if isinstance(n, ast.withitem) and n.optional_vars is not None and any(isinstance(x, ast.Name) and x.id == name for x in ast.walk(n.optional_vars)):
                return True
        return False

    # -- constructor wiring main attr -> seat attr --------------------------------------------------------------------------
    def wiring(self) -> Dict[str, str]:
        """PlayerThread attribute -> Server attribute it is bound to (through the constructor keywords in Server.run)."""
        ci, run = self.repo.method('Server', 'run', self.rule)
        pt = self.repo.cls('PlayerThread', self.rule)
        init = pt.methods.get('__init__')
        if init is None:
            raise AnalysisError(self.rule, 'PlayerThread.__init__', 'constructor not found')
        param_to_attr = {}
        for n in ast.walk(init):
            if isinstance(n, ast.Assign) and len(n.targets) == 1 and isinstance(n.targets[0], ast.Attribute) and isinstance(n.value, ast.Name):
                param_to_attr[n.value.id] = n.targets[0].attr
        out = {}
        calls = [n for n in ast.walk(run) if isinstance(n, ast.Call) and isinstance(n.func, ast.Name) and n.func.id == 'PlayerThread']
        if len(calls) != 1:
            raise AnalysisError(self.rule, 'Server.run', f'{len(calls)} PlayerThread(...) construction sites, expected 1')
        names = [a.arg for a in init.args.args][1:]
        bound = {}
        for i, a in enumerate(calls[0].args):
            bound[names[i]] = a
        for kw in calls[0].keywords:
            bound[kw.arg] = kw.value
        for p, v in bound.items():
            if p in param_to_attr:
                out[param_to_attr[p]] = ast.unparse(v)
        self.thread_ctor = calls[0]
        return out
