"""C06 - the playable-card set is exactly the follow-suit rule."""
from __future__ import annotations

import ast
import itertools

from ..fold import NOVALUE, PartialEvaluator
from ..index import AnalysisError, parent
from .common import loc, try_fold
from .playing import BASE, Playing, Tok


def run(chk):
    P = Playing(chk, 'C06')
    repo, f = chk.repo, P.f
    chk.explanation = (
        'available_cards touches cards only through suit identity (use analysis), so its result depends only on which cards '
        'of the hand share the suit led: it is folded for every non-empty hand over a pool of 5 cards (2 suits + 1 odd card; 31 '
        'hands) x lead none / each pool suit / an absent suit and compared with the follow-suit rule. current_available_cards must '
        'pass card 0 of the current trick (none iff the trick is empty); the *_in_hand wrappers must pass the right hand; '
        'RandomPlay must return a random.choice over current_available_cards(hand) of its own hand argument; the client must '
        'hand the example player the very sets its observer mutates.')
    w, q = loc(repo, BASE, 'available_cards', 'C06.R1')
    _, ac = repo.method(BASE, 'available_cards', 'C06.R1')
    bad = None
    for n in ast.walk(ac):
        if isinstance(n, ast.Attribute) and n.attr in ('rank', 'suit'):
            par = parent(n)
            if isinstance(par, ast.Compare) or (isinstance(par, ast.Assign) and par.value is n):
                continue
            bad = ast.unparse(par)
        if isinstance(n, ast.Attribute) and n.attr == 'rank':
            bad = 'rank is consulted'
    if bad:
        raise AnalysisError('C06.R1', q, f'cards are used beyond suit identity ({bad})')
    S, H, D, C = (f.member('Suit', x) for x in 'SHDC')
    pool = [f.make('Card', rank=14, suit=S), f.make('Card', rank=3, suit=S), f.make('Card', rank=13, suit=H),
            f.make('Card', rank=2, suit=H), f.make('Card', rank=9, suit=D)]
    leads = [None, f.make('Card', rank=7, suit=S), f.make('Card', rank=7, suit=H), f.make('Card', rank=7, suit=D),
             f.make('Card', rank=7, suit=C)]
    first_bad = None
    n = 0
    for k in range(1, len(pool) + 1):
        for hand in itertools.combinations(pool, k):
            hs = frozenset(hand)
            for lead in leads:
                n += 1
                same = frozenset(c for c in hs if lead is not None and c.fields['suit'] == lead.fields['suit'])
                want = hs if lead is None or not same else same
                got = try_fold('C06.R1', q, lambda: f.call_class(BASE, 'available_cards', hs, lead))
                ok = got[0] == 'ok' and frozenset(got[1]) == want
                if not ok and first_bad is None:
                    first_bad = ([f.str_of(c) for c in hand], f.str_of(lead) if lead else None, got, sorted(f.str_of(c) for c in want))
    chk.evals(n)
    chk.require(first_bad is None, 'C06.R1', w, q, 'available_cards on every hand pattern x lead',
                f'available_cards equals the follow-suit rule on all {n} (hand pattern, lead) classes',
                f'hand {first_bad[0]}, lead {first_bad[1]}: available_cards = {first_bad[2]}, the rule gives {first_bad[3]}' if first_bad else '')

    # ---- R2: state-dependent variant and wrappers ------------------------------------------------------------------
    w, q = loc(repo, BASE, 'current_available_cards', 'C06.R2')
    _, cac = repo.method(BASE, 'current_available_cards', 'C06.R2')
    hp = cac.args.args[1].arg
    paths = P.summ.paths(BASE, 'current_available_cards')
    handtok = Tok('the hand')
    for ln in (0, 1, 2, 3):
        chk.evals()
        pe = P.evaluator({'len': ln, 'locals': {hp: handtok}})
        cons = [p for p in paths if P.consistent(p, pe)]
        for p in cons:
            chk.focus(p, pe)
            v = p.end[1] if p.end[0] == 'return' else None
            good = isinstance(v, ast.Call) and isinstance(v.func, ast.Attribute) and v.func.attr == 'available_cards' and len(v.args) + len(v.keywords) == 2
            got_h = got_f = NOVALUE
            if good:
                args = list(v.args) + [k.value for k in v.keywords]
                names = {k.arg: k.value for k in v.keywords}
                a_hand = names.get('hand', args[0])
                a_first = names.get('first_card', args[1] if len(v.args) > 1 else None)
                got_h = pe.eval(a_hand)
                got_f = pe.eval(a_first) if a_first is not None else None
            want_f = None if ln == 0 else Tok(('trick_card', 0))
            ok = good and got_h == handtok and (got_f is None if ln == 0 else (got_f == want_f or (isinstance(got_f, Tok) and got_f.what == ('trick_card', -ln))))
            chk.require(ok, 'C06.R2', w, q, f'current_available_cards with {ln} card(s) in the trick -> first_card {got_f}',
                        f'with {ln} card(s) on the table the suit led is that of ' + ('nobody (free lead)' if ln == 0 else 'the first card'),
                        f'with {ln} card(s) in the current trick current_available_cards passes hand={got_h}, first_card={got_f}; '
                        f'expected the hand and ' + ('None' if ln == 0 else 'card 0 of the trick'))
    for cls, meth, want in (('PlayingPhaseWithHands', 'current_available_cards_in_hand', 'seat'),
                            ('ObservedPlayingPhase', 'current_available_cards_in_hand', 'me'),
                            ('ObservedPlayingPhase', 'current_available_cards_in_dummy_hand', 'dummy')):
        w2, q2 = loc(repo, cls, meth, 'C06.R2')
        _, fn = repo.method(cls, meth, 'C06.R2')
        pp = fn.args.args[1].arg if len(fn.args.args) > 1 else None
        for me in P.players[:2]:
            for known in ((True, False) if want == 'dummy' else (True,)):
                st = {'me': me, 'dummy': P.step(me, 'next_player', 1), 'dummy_known': known, 'player': P.players[3]}
                pe = P.evaluator(st, playerp=pp)
                for p in P.summ.paths(cls, meth, dyn=cls):
                    if not P.consistent(p, pe):
                        continue
                    chk.focus(p, pe)
                    if want == 'dummy' and not known:
                        chk.require(p.end[0] == 'raise', 'C06.R2', w2, q2, f'{meth} with hidden dummy',
                                    'asking for dummy\'s playable cards before disclosure raises', 'hidden dummy hand is used')
                        continue
                    v = p.end[1] if p.end[0] == 'return' else None
                    exp = {'seat': Tok(('hand', 'W')), 'me': Tok(('hand', me.name)), 'dummy': Tok(('hand', st['dummy'].name))}[want]
                    got = NOVALUE
                    if isinstance(v, ast.Call) and isinstance(v.func, ast.Attribute) and v.func.attr == 'current_available_cards' and len(v.args) == 1:
                        got = pe.eval(v.args[0])
                    chk.require(got == exp, 'C06.R2', w2, q2, f'{cls}.{meth} passes {got}',
                                f'{meth} asks about the right hand ({exp})', f'{cls}.{meth} passes {got}, expected {exp}')

    # ---- R3: the bundled example player chooses from the playable set of its own hand argument --------------------
    w3, q3 = loc(repo, 'RandomPlay', 'play', 'C06.R3')
    _, pl = repo.method('RandomPlay', 'play', 'C06.R3')
    prm = [a.arg for a in pl.args.args]
    rp = P.summ.paths('RandomPlay', 'play')
    n_ret = 0
    for p in rp:
        if p.end[0] != 'return':
            continue
        n_ret += 1
        v = p.end[1]
        good = isinstance(v, ast.Call) and ast.unparse(v.func) == 'random.choice' and len(v.args) == 1
        inner = v.args[0] if good else None
        while isinstance(inner, ast.Call) and isinstance(inner.func, ast.Name) and inner.func.id in ('list', 'sorted', 'tuple') and len(inner.args) == 1:
            inner = inner.args[0]
        good = good and isinstance(inner, ast.Call) and isinstance(inner.func, ast.Attribute) and \
            inner.func.attr == 'current_available_cards' and ast.unparse(inner.func.value) == prm[2] and \
            len(inner.args) == 1 and ast.unparse(inner.args[0]) == prm[1]
        chk.require(good, 'C06.R3', repo.where(repo.cls('RandomPlay').module, p.end[2]), q3, ast.unparse(p.end[2]),
                    'the example player picks uniformly from current_available_cards(hand) of the hand it was given',
                    f'RandomPlay.play returns `{ast.unparse(v)}`: not a choice from the playable set of its own hand')
    chk.floor('C06.R3', 'returns of RandomPlay.play', n_ret, 1)
    # the client hands the player the sets the observer mutates: decided on the communication skeleton (sa.skeleton) for every
    # declarer x seat - the policy stub checks owner and board of the hand it is given against the seat on turn
    from . import session as S
    fam = [(dict(boards=[S.board(d, c, 0, wi, 'NONE')]), 'rr') for (d, c, wi) in (('N', 'N', 1), ('N', 'E', 4), ('E', 'S', 2), ('S', 'W', 0), ('W', 'E', 3), ('E', 'N', 4))]
    fam.append((dict(boards=[S.board('N', 'S', 1, 1, 'NS'), S.board('E', None), S.board('S', 'E', 0, 4, 'EW')]), 'rand:1'))
    res = S.run_family(chk, ['policy'], fam)
    S.record(chk, res)
    chk.floor('C06.R3', 'abstract sessions (client policy arguments)', len(res), 6)
