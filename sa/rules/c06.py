"""C06 - the playable-card set is exactly the follow-suit rule."""
from __future__ import annotations

import ast
import itertools

from ..fold import DV, FoldRaise, Unsupported,  NOVALUE, PartialEvaluator
from ..index import AnalysisError, parent
from .common import loc, try_fold
from .playing import BASE, Playing, Tok


def run(chk):
    """The shape-independent decider first (complete play-outs of the folded engines against the rules), then the path-summary rules for
    all states; a shape the latter cannot bind is recorded, not an error, as long as the play-outs decide the behaviour."""
    from . import playout
    playout.run(chk, 'C06')
    try:
        structural(chk)
    except AnalysisError as e:
        if chk.findings:
            raise
        chk.explanation = ''
        chk.note(f'path-summary rules not evaluated ({e.rule} at {e.anchor}: {e.why[:200]}); the verdict rests on the complete play-outs and the folds evaluated before')
    chk.explanation = 'Complete play-outs: the real PlayingPhaseWithHands and four ObservedPlayingPhase replicas are folded in lock-step through all 52 cards of a family of deals x trump x declarer x card-choice strategy (incl. revokes, which the engines allow) and compared with an oracle of the rules after every card (sa/rules/playout.py): the advertised playable sets are the follow-suit sets at every turn (R4).  ' + (chk.explanation or 'The path-summary rules could not bind this shape of the engine and were not evaluated.')


def structural(chk):
    # a failure of a path rule is reported only for a path whose guards ALL evaluate under the valuation (a guard over a helper property or a
    # state the valuation does not know makes the path indefinite -> no verdict from this rule; the play-outs and folds decide)
    chk.strict_guards = True
    P = Playing(chk, 'C06')
    repo, f = chk.repo, P.f
    chk.explanation = (
        'available_cards touches cards only through suit identity (decided by folding it on cards whose rank is an opaque value: any look at a rank is an analysis error), so its result depends only on which cards '
        'of the hand share the suit led: it is folded for every non-empty hand over a pool of 5 cards (2 suits + 1 odd card; 31 '
        'hands) x lead none / each pool suit / an absent suit and compared with the follow-suit rule. current_available_cards must '
        'pass card 0 of the current trick (none iff the trick is empty); the *_in_hand wrappers must pass the right hand; '
        'RandomPlay must return a random.choice over current_available_cards(hand) of its own hand argument; the client must '
        'hand the example player the very sets its observer mutates.')
    w, q = loc(repo, BASE, 'available_cards', 'C06.R1')
    _, ac = repo.method(BASE, 'available_cards', 'C06.R1')
    S, H, D, C = (f.member('Suit', x) for x in 'SHDC')
    pool = [f.make('Card', rank=14, suit=S), f.make('Card', rank=3, suit=S), f.make('Card', rank=13, suit=H),
            f.make('Card', rank=2, suit=H), f.make('Card', rank=9, suit=D), f.make('Card', rank=2, suit=C)]
    # every one of the 52 cards as the card led (and no lead): the lead is a value of a finite domain, enumerated completely
    leads = [None] + [f.make('Card', rank=r, suit=su) for su in (C, D, H, S) for r in range(2, 15)]
    first_bad = None
    n = 0
    for k in range(1, len(pool) + 1):
        for hand in itertools.combinations(pool, k):
            hs = frozenset(hand)
            for lead in leads:
                n += 1
                same = frozenset(c for c in hs if lead is not None and c.fields['suit'] == lead.fields['suit'])
                want = hs if lead is None or not same else same
                got = try_fold('C06.R1', q, lambda: f.call_class(BASE, 'available_cards', hs, lead))
                ok = got[0] == 'ok' and frozenset(got[1]) == want
                if not ok and first_bad is None:
                    first_bad = ([f.str_of(c) for c in hand], f.str_of(lead) if lead else None, got, sorted(f.str_of(c) for c in want))
    chk.evals(n)
    chk.require(first_bad is None, 'C06.R1', w, q, 'available_cards on every hand pattern x lead',
                f'available_cards equals the follow-suit rule on all {n} (hand pattern, lead) classes',
                f'hand {first_bad[0]}, lead {first_bad[1]}: available_cards = {first_bad[2]}, the rule gives {first_bad[3]}' if first_bad else '')
    # That hand patterns over a small pool are exhaustive is not argued from the syntax: the same enumeration is folded once more on cards
    # whose RANK is an opaque value (fold.Opaque) - any look at a rank (comparison, int(card), hash, formatting) leaves the abstraction.
    if first_bad is None:
        from ..fold import Opaque
        suits6 = [c.fields['suit'] for c in pool]
        opool = [DV(pool[0].cls, {'rank': Opaque(f'rank of card {i}'), 'suit': su}) for i, su in enumerate(suits6)]
        oleads = [None] + [DV(pool[0].cls, {'rank': Opaque(f'rank of the lead in {su.name}'), 'suit': su}) for su in (C, D, H, S)]
        n_o = 0
        for k in range(1, len(opool) + 1):
            for hand in itertools.combinations(opool, k):
                for lead in oleads:
                    n_o += 1
                    same = [c for c in hand if lead is not None and c.fields['suit'] == lead.fields['suit']]
                    want = list(hand) if lead is None or not same else same
                    try:
                        f.steps = 0
                        got = f.call_class(BASE, 'available_cards', set(hand), lead)
                    except Unsupported as e:
                        raise AnalysisError('C06.R1', q, f'available_cards looks at more than the suits of the cards ({e}): the hand-pattern classes do not cover every hand')
                    except FoldRaise as r:
                        raise AnalysisError('C06.R1', q, f'available_cards raises {r.kind} on cards of unknown rank')
                    if sorted(map(id, got)) != sorted(map(id, want)):
                        chk.fail('C06.R1', w, q, 'available_cards on cards of unknown rank',
                                 f'hand of suits {[c.fields["suit"].name for c in hand]}, lead {lead.fields["suit"].name if lead else None}: available_cards returns '
                                 f'{len(list(got))} card(s), the follow-suit rule gives {len(want)}')
        chk.evals(n_o)
        chk.ok('C06.R1', w, f'the {n_o} (hand pattern, lead suit) classes are folded again on cards of OPAQUE rank: available_cards looks at suits only, so the classes are exhaustive')

    # ---- R2: state-dependent variant and wrappers ------------------------------------------------------------------
    w, q = loc(repo, BASE, 'current_available_cards', 'C06.R2')
    # decided by folding the method on a play-state object: current trick of 0..3 cards (every suit led, lead high / low, later
    # cards of other suits), every trump denomination, every hand pattern of the pool - against the follow-suit rule computed here
    base_ci = repo.cls(BASE, 'C06.R2')
    trumps = [f.member('Suit', x) for x in ('S', 'H', 'D', 'C', 'NT')]
    pool2 = pool[:5]
    hands2 = [frozenset(h) for k in range(1, len(pool2) + 1) for h in itertools.combinations(pool2, k)]
    mk = lambda r, su: f.make('Card', rank=r, suit=su)  # noqa: E731
    tricks = [[]]
    for su in (S, H, D, C):
        other = [x for x in (S, H, D, C) if x is not su]
        tricks += [[mk(2, su)], [mk(13, su), mk(14, other[0])], [mk(8, su), mk(9, other[1]), mk(14, other[2])]]
    first_bad2 = None
    n2 = 0
    for tr in trumps:
        for trick in tricks:
            for hs in hands2:
                n2 += 1
                obj = DV(base_ci, {'_trick_cards': list(trick), 'trump': tr, 'trick_num': 3})
                f._fresh.add(id(obj))
                f._keep.append(obj)
                lead = trick[0] if trick else None
                same = frozenset(c for c in hs if lead is not None and c.fields['suit'] == lead.fields['suit'])
                want = hs if lead is None or not same else same
                try:
                    f.steps = 0
                    got = ('ok', frozenset(f.call_method(obj, 'current_available_cards', set(hs))))
                except FoldRaise as r:
                    got = ('raise', r.kind)
                except Unsupported as e:
                    raise AnalysisError('C06.R2', q, f'current_available_cards left the foldable subset: {e}')
                if got != ('ok', want) and first_bad2 is None:
                    first_bad2 = (sorted(f.str_of(c) for c in hs), [f.str_of(c) for c in trick], tr.name, got, sorted(f.str_of(c) for c in want))
    chk.evals(n2)
    chk.require(first_bad2 is None, 'C06.R2', w, q, 'current_available_cards on every (trick, trump, hand pattern)',
                f'current_available_cards equals the follow-suit rule (suit of the FIRST card of the current trick, trump irrelevant) on {n2} states',
                (f'hand {first_bad2[0]}, current trick {first_bad2[1]}, trump {first_bad2[2]}: current_available_cards = {first_bad2[3]}, the rule gives '
                 f'{first_bad2[4]}') if first_bad2 else '')
    for cls, meth, want in (('PlayingPhaseWithHands', 'current_available_cards_in_hand', 'seat'),
                            ('ObservedPlayingPhase', 'current_available_cards_in_hand', 'me'),
                            ('ObservedPlayingPhase', 'current_available_cards_in_dummy_hand', 'dummy')):
        w2, q2 = loc(repo, cls, meth, 'C06.R2')
        _, fn = repo.method(cls, meth, 'C06.R2')
        pp = fn.args.args[1].arg if len(fn.args.args) > 1 else None
        for me in P.players[:2]:
            for known in ((True, False) if want == 'dummy' else (True,)):
                st = {'me': me, 'dummy': P.step(me, 'next_player', 1), 'dummy_known': known, 'player': P.players[3]}
                pe = P.evaluator(st, playerp=pp)
                for p in P.summ.paths(cls, meth, dyn=cls):
                    if not P.consistent(p, pe):
                        continue
                    chk.focus(p, pe)
                    if want == 'dummy' and not known:
                        chk.require(p.end[0] == 'raise', 'C06.R2', w2, q2, f'{meth} with hidden dummy',
                                    'asking for dummy\'s playable cards before disclosure raises', 'hidden dummy hand is used')
                        continue
                    v = p.end[1] if p.end[0] == 'return' else None
                    exp = {'seat': Tok(('hand', 'W')), 'me': Tok(('hand', me.name)), 'dummy': Tok(('hand', st['dummy'].name))}[want]
                    got = NOVALUE
                    if isinstance(v, ast.Call) and isinstance(v.func, ast.Attribute) and v.func.attr == 'current_available_cards' and len(v.args) == 1:
                        got = pe.eval(v.args[0])
                    chk.require(got == exp, 'C06.R2', w2, q2, f'{cls}.{meth} passes {got}',
                                f'{meth} asks about the right hand ({exp})', f'{cls}.{meth} passes {got}, expected {exp}')

    # ---- R3: the bundled example player chooses from the playable set of its own hand argument --------------------
    w3, q3 = loc(repo, 'RandomPlay', 'play', 'C06.R3')
    _, pl = repo.method('RandomPlay', 'play', 'C06.R3')
    prm = [a.arg for a in pl.args.args]
    rp = P.summ.paths('RandomPlay', 'play')
    n_ret = 0
    for p in rp:
        if p.end[0] != 'return':
            continue
        n_ret += 1
        v = p.end[1]
        good = isinstance(v, ast.Call) and ast.unparse(v.func) == 'random.choice' and len(v.args) == 1
        inner = v.args[0] if good else None
        while isinstance(inner, ast.Call) and isinstance(inner.func, ast.Name) and inner.func.id in ('list', 'sorted', 'tuple') and len(inner.args) == 1:
            inner = inner.args[0]
        good = good and isinstance(inner, ast.Call) and isinstance(inner.func, ast.Attribute) and \
            inner.func.attr == 'current_available_cards' and ast.unparse(inner.func.value) == prm[2] and \
            len(inner.args) == 1 and ast.unparse(inner.args[0]) == prm[1]
        chk.require(good, 'C06.R3', repo.where(repo.cls('RandomPlay').module, p.end[2]), q3, ast.unparse(p.end[2]),
                    'the example player picks uniformly from current_available_cards(hand) of the hand it was given',
                    f'RandomPlay.play returns `{ast.unparse(v)}`: not a choice from the playable set of its own hand')
    chk.floor('C06.R3', 'returns of RandomPlay.play', n_ret, 1)
    # the client hands the player the sets the observer mutates: decided on the communication skeleton (sa.skeleton) for every
    # declarer x seat - the policy stub checks owner and board of the hand it is given against the seat on turn
    from . import session as S
    fam = [(dict(boards=[S.board(d, c, 0, wi, 'NONE')]), 'rr') for (d, c, wi) in (('N', 'N', 1), ('N', 'E', 4), ('E', 'S', 2), ('S', 'W', 0), ('W', 'E', 3), ('E', 'N', 4))]
    fam.append((dict(boards=[S.board('N', 'S', 1, 1, 'NS'), S.board('E', None), S.board('S', 'E', 0, 4, 'EW')]), 'rand:1'))
    res = S.run_family(chk, ['policy'], fam)
    S.record(chk, res)
    chk.floor('C06.R3', 'abstract sessions (client policy arguments)', len(res), 6)
