"""Complete play-outs of the play engines against an oracle of the rules (C04.R7, C05.R6, C06.R4, C11.R5).

The real `PlayingPhaseWithHands` (the table manager's engine) and four `ObservedPlayingPhase` replicas (one per seat, the dummy's
hand disclosed to the other three after the opening lead, as in a session) are evaluated by the folder in lock-step through all
52 cards of a deal, for a family of deals (balanced, voids, 13-card suits, freaks) x trump denominations x declarers x card-choice
strategies (lowest legal, highest legal, pseudo-random, revoke whenever the engine lets one - the engines only check turn and
possession).  After EVERY card the observable state of every engine is compared with an oracle written here:

* C04 - who is on turn, who leads, trick number, tricks taken by each side, the recorded tricks (leader + four cards in order),
  has_done exactly after the 52nd card; the winner of a trick is the highest trump if any was played, else the highest card of the
  suit led;
* C05 - a card not held / of another seat / already played and a seat out of turn are refused and change nothing (tried on a clone
  at every step); an accepted play removes exactly that card from exactly that hand; hands + played cards are always the 52 cards;
* C06 - the playable set the engines advertise for the seat on turn (own hand; dummy's hand from the replicas that see it) is the
  follow-suit set;
* C11 - every replica accepts what the table manager's engine accepts and ends every step in the same turn / leader / trick /
  tricks-taken / history state.

The engines are driven through their public methods only, so the rule does not depend on how they are written.
"""
from __future__ import annotations

import os
from concurrent.futures import ProcessPoolExecutor
from typing import Dict, List, Optional

from ..fold import DV, EV, Folder, FoldRaise, Unsupported
from ..index import AnalysisError

SEATS = 'NESW'
NEXT = {'N': 'E', 'E': 'S', 'S': 'W', 'W': 'N'}
SIDE = {'N': 'NS', 'S': 'NS', 'E': 'EW', 'W': 'EW'}
RULES = {'C04': 'C04.R7', 'C05': 'C05.R6', 'C06': 'C06.R4', 'C11': 'C11.R5'}


def cid(c: DV):
    return (c.fields['suit'].name, c.fields['rank'])


def show(c) -> str:
    return f'{c[0]}{ {11: "J", 12: "Q", 13: "K", 14: "A", 10: "T"}.get(c[1], c[1]) }'


class Oracle:
    def __init__(self, trump: str, declarer: str, hands: Dict[str, set]):
        self.trump, self.declarer = trump, declarer
        self.dummy = NEXT[NEXT[declarer]]
        self.leader = NEXT[declarer]
        self.active: Optional[str] = self.leader
        self.trick: List[tuple] = []
        self.trick_num = 1
        self.taken = {'NS': 0, 'EW': 0}
        self.history: List[tuple] = []
        self.hands = {s: set(h) for s, h in hands.items()}
        self.used: set = set()

    def legal(self, seat: str) -> set:
        h = self.hands[seat]
        if not self.trick:
            return set(h)
        led = self.trick[0][1][0]
        same = {c for c in h if c[0] == led}
        return same or set(h)

    def play(self, card):
        seat = self.active
        self.hands[seat].discard(card)
        self.used.add(card)
        self.trick.append((seat, card))
        if len(self.trick) < 4:
            self.active = NEXT[seat]
            return
        led = self.trick[0][1][0]
        trumps = [(c[1], s) for s, c in self.trick if c[0] == self.trump]
        pool = trumps or [(c[1], s) for s, c in self.trick if c[0] == led]
        winner = max(pool)[1]
        self.history.append((self.leader, tuple(c for _, c in self.trick)))
        self.taken[SIDE[winner]] += 1
        self.trick = []
        self.trick_num += 1
        self.leader = winner
        self.active = winner if self.trick_num <= 13 else winner

    def done(self) -> bool:
        return self.trick_num > 13


def choose(strategy: str, orc: Oracle, seat: str, step: int):
    hand = sorted(orc.hands[seat])
    legal = sorted(orc.legal(seat))
    if strategy == 'low':
        return legal[0]
    if strategy == 'high':
        return legal[-1]
    if strategy == 'revoke':
        # a revoke when one is possible: the engines only check turn and possession (the playable set is advice to the player)
        off = [c for c in hand if c not in legal]
        return off[0] if off and step % 3 == 0 else legal[(step * 5) % len(legal)]
    return legal[(step * 7 + len(hand) * 3) % len(legal)]


def _observe(f: Folder, eng: DV, P) -> dict:
    f.steps = 0
    fl = eng.fields
    hist = f.call_method(fl['playing_history'], 'history') if isinstance(fl.get('playing_history'), DV) else None
    tt = fl.get('taken_tricks')
    return {
        'active': getattr(fl.get('active_player'), 'name', fl.get('active_player')),
        'leader': getattr(fl.get('leader'), 'name', fl.get('leader')),
        'trick_num': fl.get('trick_num'),
        'taken': {getattr(k, 'name', k): v for k, v in tt.items()} if isinstance(tt, dict) else repr(tt),
        'history': [(getattr(t.fields.get('leader'), 'name', None), tuple(cid(c) for c in t.fields.get('cards', ()))) for t in hist] if hist is not None else None,
        'done': f.call_method(eng, 'has_done'),
    }


def _task(arg):
    root, deal_name, trump, declarer, strategy = arg
    from ..index import Repo
    from .c14 import build_deals
    repo = Repo(root)
    f = Folder(repo, allow_loops=True, max_steps=3_000_000)
    P = {p.name: p for p in f.members('Player')}
    B = {b.name: b for b in f.members('Bid')}
    V = {v.name: v for v in f.members('Vul')}
    items: List[tuple] = []
    n_steps = n_refusals = 0

    def fail(pid, construct, reason):
        if not any(i[0] == pid and i[1] == construct for i in items):
            items.append((pid, construct, reason))
    try:
        deals = dict(build_deals(f))
        hands_dv = deals[deal_name]
        bid = {'C': 'C1', 'D': 'D1', 'H': 'H1', 'S': 'S1', 'NT': 'NT1'}[trump]
        con = f._construct(repo.cls('Contract'), [], {'final_bid': B[bid], 'x': False, 'xx': False, 'vul': V['NONE'], 'declarer': P[declarer]})
        card_of = {cid(c): c for s in SEATS for c in hands_dv[s]}

        def fresh(c):
            # an equal card held in ANOTHER object, as every card is that arrives as text (identity must not stand in for equality)
            return DV(c.cls, dict(c.fields))
        orc = Oracle(trump if trump != 'NT' else 'NT', declarer, {s: {cid(c) for c in hands_dv[s]} for s in SEATS})
        H = f._construct(repo.cls('Hands'), [], {'north_hand': set(hands_dv['N']), 'east_hand': set(hands_dv['E']), 'south_hand': set(hands_dv['S']), 'west_hand': set(hands_dv['W'])})
        full = f._construct(repo.cls('PlayingPhaseWithHands'), [], {'contract': con, 'hands': H})
        obs_hand = {s: {fresh(c) for c in hands_dv[s]} for s in SEATS}
        obs_dummy = {s: None for s in SEATS}
        obs = {s: f._construct(repo.cls('ObservedPlayingPhase'), [], {'contract': con, 'player': P[s], 'hand': obs_hand[s]}) for s in SEATS}
        ctx0 = f'deal "{deal_name}", {trump} by {declarer}, strategy {strategy}'

        def full_hands():
            return {s: {cid(c) for c in f.call_method(H, '__getitem__', P[s])} for s in SEATS}
        for step in range(52):
            seat = orc.active
            where = f'{ctx0}: trick {orc.trick_num}, card {len(orc.trick) + 1} ({seat} to play' + (f', {show(orc.trick[0][1])} led' if orc.trick else ', on lead') + ')'
            legal = orc.legal(seat)
            # ---- C06: the advertised playable sets
            f.steps = 0
            try:
                got = {cid(c) for c in f.call_method(full, 'current_available_cards_in_hand', P[seat])}
                if got != legal:
                    fail('C06', 'playable set of the table manager\'s engine',
                         f'{where}: current_available_cards_in_hand({seat}) = {sorted(map(show, got))}, the follow-suit rule gives {sorted(map(show, legal))}')
            except FoldRaise as r:
                fail('C06', 'playable set of the table manager\'s engine raises', f'{where}: current_available_cards_in_hand({seat}) raises {r.kind}')
            for s in SEATS:
                try:
                    if s == seat:
                        got = {cid(c) for c in f.call_method(obs[s], 'current_available_cards_in_hand')}
                        if got != legal:
                            fail('C06', 'playable set of a seat\'s own replica', f'{where}: the replica of {s} advertises {sorted(map(show, got))}, the follow-suit rule gives {sorted(map(show, legal))}')
                    elif seat == orc.dummy and obs_dummy[s] is not None:
                        got = {cid(c) for c in f.call_method(obs[s], 'current_available_cards_in_dummy_hand')}
                        if got != legal:
                            fail('C06', 'playable set of dummy in a replica', f'{where}: the replica of {s} advertises for dummy {sorted(map(show, got))}, the follow-suit rule gives {sorted(map(show, legal))}')
                    if s != seat and step % 3 == 0:
                        # the playable cards of a seat's OWN hand do not depend on whose turn it is (asked of a replica out of turn: the follow-suit
                        # set of that seat's hand for the cards on the table)
                        own = orc.legal(s)
                        got = {cid(c) for c in f.call_method(obs[s], 'current_available_cards_in_hand')}
                        if got != own:
                            fail('C06', 'playable set of a seat\'s own hand asked out of turn', f'{where}: the replica of {s} advertises for its own hand {sorted(map(show, got))[:6]}, '
                                 f'the follow-suit rule gives {sorted(map(show, own))[:6]} for the hand of {s}')
                except FoldRaise as r:
                    fail('C06', 'playable set of a replica raises', f'{where}: the replica of {s} raises {r.kind} when asked for the playable cards')
            # ---- C05: offending plays on a clone of the table manager's engine
            if step % 4 == 0 or step >= 48:
                offences = []
                other = NEXT[seat]
                if orc.hands[other]:
                    offences.append(('a card held by another seat', sorted(orc.hands[other])[0], seat))
                if orc.used:
                    offences.append(('a card already played', sorted(orc.used)[0], seat))
                if orc.hands[other]:
                    offences.append(('a seat out of turn', sorted(orc.hands[other])[-1], other))
                for what, c, who in offences:
                    n_refusals += 1
                    memo: dict = {}
                    e2 = f.clone(full, memo)
                    before = (_observe(f, e2, P), {s: {cid(x) for x in f.call_method(e2.fields['hands'], '__getitem__', P[s])} for s in SEATS})
                    try:
                        f.steps = 0
                        f.call_method(e2, 'play_card_by_player', fresh(card_of[c]), P[who])
                        fail('C05', f'{what} is accepted', f'{where}: play of {show(c)} by {who} ({what}) is accepted by the table manager\'s engine')
                    except FoldRaise:
                        after = (_observe(f, e2, P), {s: {cid(x) for x in f.call_method(e2.fields['hands'], '__getitem__', P[s])} for s in SEATS})
                        if after != before:
                            fail('C05', f'a refused play ({what}) changes the state', f'{where}: play of {show(c)} by {who} ({what}) is refused but turn / trick / hands changed')
            # ---- the play itself, on all five engines
            card = choose(strategy, orc, seat, step)
            n_steps += 1
            try:
                f.steps = 0
                f.call_method(full, 'play_card_by_player', fresh(card_of[card]), P[seat])
            except FoldRaise as r:
                fail('C05', 'a held card played in turn is refused', f'{where}: {show(card)} held by {seat} is refused by the table manager\'s engine ({r.kind}: {str(r)[:60]})')
                break
            for s in SEATS:
                try:
                    f.steps = 0
                    f.call_method(obs[s], 'play_card_by_player', fresh(card_of[card]), P[seat])
                except FoldRaise as r:
                    fail('C11', 'a replica refuses a play the table manager accepts', f'{where}: {show(card)} by {seat} is accepted by the table manager\'s engine, the replica of {s} refuses it ({r.kind}: {str(r)[:60]})')
            was_lead = step == 0
            orc.play(card)
            if was_lead:
                for s in SEATS:
                    if s != orc.dummy:
                        obs_dummy[s] = {fresh(c) for c in hands_dv[orc.dummy]}
                        f.call_method(obs[s], 'set_dummy_hand', obs_dummy[s])
            if step in (13, 30) and not orc.done():
                # a re-synchronisation: the dummy's remaining cards are disclosed again, in a new set object (set_dummy_hand may be called again)
                for s in SEATS:
                    if s != orc.dummy:
                        obs_dummy[s] = {fresh(card_of[c]) for c in orc.hands[orc.dummy]}
                        f.call_method(obs[s], 'set_dummy_hand', obs_dummy[s])
            # ---- C04: the table manager's engine against the oracle
            st = _observe(f, full, P)
            ctx = f'{ctx0}: after trick {orc.trick_num if orc.trick else orc.trick_num - 1}, card {len(orc.trick) or 4} ({show(card)} by {seat})'
            want = {'active': orc.active, 'leader': orc.leader, 'trick_num': orc.trick_num, 'taken': orc.taken, 'history': orc.history, 'done': orc.done()}
            if not orc.done():
                for k in ('active', 'leader'):
                    if st[k] != want[k]:
                        fail('C04', f'{"seat on turn" if k == "active" else "leader"} after a card', f'{ctx}: {k} is {st[k]}, by the rules {want[k]}'
                             + (f' (trick won by {orc.leader})' if not orc.trick else ''))
            for k, label in (('trick_num', 'trick number'), ('taken', 'tricks taken'), ('history', 'recorded tricks'), ('done', 'has_done')):
                if st[k] != want[k]:
                    d = st[k] if k != 'history' else (len(st[k]) if st[k] is not None else None, st[k][-1:] if st[k] else None)
                    wv = want[k] if k != 'history' else (len(want[k]), want[k][-1:])
                    fail('C04', f'{label} after a card', f'{ctx}: {label} is {d}, by the rules {wv}')
            # ---- C05: conservation
            fh = full_hands()
            if fh != orc.hands:
                bad = next(s for s in SEATS if fh[s] != orc.hands[s])
                fail('C05', 'hands after an accepted play', f'{ctx}: the hand of {bad} is {sorted(map(show, fh[bad]))}, it must be {sorted(map(show, orc.hands[bad]))}')
            usedc = {cid(c) for c in full.fields.get('used_cards', set())}
            if usedc != orc.used:
                fail('C05', 'played cards after an accepted play', f'{ctx}: {len(usedc)} cards are marked played, {len(orc.used)} were played')
            # ---- C11: the replicas against the table manager's engine
            for s in SEATS:
                so = _observe(f, obs[s], P)
                diff = [k for k in st if so[k] != st[k] and not (orc.done() and k in ('active', 'leader'))]
                if diff:
                    k = diff[0]
                    fail('C11', f'a replica differs from the table manager ({k})', f'{ctx}: the replica of {s} has {k} = {so[k] if k != "history" else len(so[k] or [])}, '
                         f'the table manager\'s engine {st[k] if k != "history" else len(st[k] or [])}')
                if {cid(c) for c in obs_hand[s]} != orc.hands[s]:
                    fail('C11', 'own hand of a replica', f'{ctx}: the replica of {s} holds {sorted(map(show, (cid(c) for c in obs_hand[s])))}, the seat holds {sorted(map(show, orc.hands[s]))}')
                for label_, held_ in (('own hand', obs_hand[s]), ('dummy hand', obs_dummy[s])):
                    dup_ = {cid(c) for c in held_} & orc.used if held_ is not None else set()
                    if dup_:
                        fail('C05', f'a played card is still in the {label_} of a replica', f'{ctx}: the replica of {s} still shows {sorted(map(show, dup_))[:3]} in the {label_} although '
                             f'played: the card is in a hand and among the played cards at once')
                if obs_dummy[s] is not None and {cid(c) for c in obs_dummy[s]} != orc.hands[orc.dummy]:
                    fail('C11', 'dummy\'s hand in a replica', f'{ctx}: the replica of {s} sees {len(obs_dummy[s])} cards in dummy, dummy holds {len(orc.hands[orc.dummy])}')
        else:
            if not orc.done():
                fail('C04', 'end of play', f'{ctx0}: after 52 cards the oracle is not done')
    except Unsupported as e:
        return {'error': f'{deal_name}/{trump}/{declarer}/{strategy}: {str(e)[:200]}', 'items': [], 'steps': n_steps, 'refusals': n_refusals}
    except FoldRaise as r:
        return {'error': f'{deal_name}/{trump}/{declarer}/{strategy}: unexpected {r.kind}: {str(r)[:160]}', 'items': [], 'steps': n_steps, 'refusals': n_refusals}
    return {'items': items, 'steps': n_steps, 'refusals': n_refusals}


_RESULTS: dict = {}


def _explore(repo, tier: str):
    from .c14 import build_deals
    f = Folder(repo, allow_loops=True, max_steps=400000)
    names = [n for n, h in build_deals(f) if all(len(h[s]) == 13 for s in SEATS)]
    work = []
    strategies = ['low', 'high', 'mix', 'revoke']
    trumps = ['S', 'H', 'D', 'C', 'NT']
    k = 0
    for di, dn in enumerate(names):
        combos = [(t, d) for t in trumps for d in SEATS] if tier != 'quick' else [(trumps[(di + j) % 5], SEATS[(di + 2 * j) % 4]) for j in range(2)]
        for t, d in combos:
            work.append((repo.root, dn, t, d, strategies[k % 4]))
            k += 1
    if tier == 'quick':
        work = work[:24]
    if os.environ.get('SA_SERIAL') == '1':
        res = [_task(x) for x in work]
    else:
        with ProcessPoolExecutor(max_workers=__import__('sa.rules.common', fromlist=['pool_size']).pool_size(len(work))) as pool:
            res = list(pool.map(_task, work, chunksize=1))
    items, seen = [], set()
    tot = {'deals': len(work), 'steps': 0, 'refusals': 0}
    for r in res:
        if r.get('error'):
            raise AnalysisError('playout', 'play engines', f'a play-out left the foldable subset: {r["error"]}')
        tot['steps'] += r['steps']
        tot['refusals'] += r['refusals']
        for it in r['items']:
            if (it[0], it[1]) not in seen:
                seen.add((it[0], it[1]))
                items.append(it)
    return items, tot


def run(chk, pid: str):
    """Adds the findings of the play-outs that belong to property `pid` (C04 / C05 / C06 / C11)."""
    repo = chk.repo
    key = (repo.root, chk.tier)
    if key not in _RESULTS:
        _RESULTS[key] = _explore(repo, chk.tier)
    items, tot = _RESULTS[key]
    rule = RULES[pid]
    anchor = {'C04': ('PlayingPhase', 'play_card'), 'C05': ('PlayingPhaseWithHands', 'play_card_by_player'), 'C06': ('PlayingPhase', 'current_available_cards'),
              'C11': ('ObservedPlayingPhase', 'play_card_by_player')}[pid]
    ci, fn = repo.method(anchor[0], anchor[1], rule)
    w, q = repo.where(ci.module, fn), f'{anchor[0]}.{anchor[1]}'
    n = 0
    for p, construct, reason in items:
        if p == pid:
            n += 1
            chk.fail(rule, w, q, construct, reason)
    chk.evals(tot['steps'])
    what = {'C04': 'turn, leader, trick number, tricks taken, recorded tricks and has_done after every card',
            'C05': 'offending plays refused without any change, accepted plays move exactly the card, hands + played cards conserved',
            'C06': 'the advertised playable sets (own hand, dummy) are the follow-suit sets at every turn',
            'C11': 'four one-seat replicas accept every play the table manager\'s engine accepts and agree with it after every card'}[pid]
    if n == 0:
        chk.ok(rule, w, f'{tot["deals"]} complete play-outs ({tot["steps"]} cards, {tot["refusals"]} offending plays tried) of the table manager\'s engine and four replicas against the rules: {what}')
    if not items:
        chk.floor(rule, 'cards played in complete play-outs', tot['steps'], 600)
    chk.instances(rule, tot['deals'])
