"""Whole-document evaluation of the JSON writers and readers inside the analyser (rules C12.R6, C17.R7).

A sequence of boards is written through ONE JsonLogWriter / JsonBoardSettingWriter object (open, write x n, close) into
an analyser stream by folding the real writer code (sa.fold); the text must be one valid JSON document (stdlib json on
the analyser's string); the document is then read by folding the real reader code and every board must come back, in
order, field for field EQUAL to the objects that were written (library value objects compare by value).  Board sequences
are chosen to exercise what the per-expression rules R1-R5 cannot see: state kept between writes (a board with a
double-dummy table followed by one without), boards whose optional parts are empty (no completed trick, 0 tricks, passed
out), the first / later record separators.  Nothing of the subject is imported; `json.dumps` / `json.load` are the stdlib
functions applied to analyser data."""
from __future__ import annotations

import json
from typing import List

from ..fold import DV, EV, Folder, FoldRaise, Unsupported
from ..index import AnalysisError
from .c14 import SEATS, build_deals
from .common import loc
from .pbnfile import LineStream, OutStream


_DEBUG_LOGGING = False


def _asks_log_level(repo) -> bool:
    """Does any module of the package ask its logger which level is enabled (so that behaviour can depend on the logging configuration)?"""
    import re as _re
    return any(_re.search(r'isEnabledFor|getEffectiveLevel|logg\w*\.level\b|logg\w*\.disabled\b', m.src) for m in repo.modules.values())


def both_log_levels(fn):
    """Runs a whole-document rule under both answers of the logging configuration when the package asks for it: server.main and
    client.main switch DEBUG logging on, a library user leaves it off - the property holds for both."""
    import functools

    @functools.wraps(fn)
    def w(chk, *a, **k):
        global _DEBUG_LOGGING
        r = fn(chk, *a, **k)
        if _asks_log_level(chk.repo):
            _DEBUG_LOGGING = True
            try:
                r = fn(chk, *a, **k)
            finally:
                _DEBUG_LOGGING = False
        return r
    return w


def _folder(repo) -> Folder:
    f = Folder(repo, allow_loops=True, max_steps=3_000_000)
    f.debug_logging = _DEBUG_LOGGING
    f.stubs['json.dumps'] = lambda *a, **k: _dumps(*a, **k)
    f.stubs['json.load'] = lambda fp, *a, **k: json.loads(fp.read())
    f.stubs['json.loads'] = lambda s, *a, **k: json.loads(s)
    return f


def _dumps(obj, *a, **k):
    try:
        return json.dumps(obj, *a, **k)
    except TypeError as e:
        raise FoldRaise('TypeError', str(e))


def _same(a, b) -> bool:
    """Value equality of folded objects (sets / dicts / lists / tuples compared structurally)."""
    if isinstance(a, DV) and isinstance(b, DV):
        return a.cls is b.cls and set(a.fields) == set(b.fields) and all(_same(a.fields[k], b.fields[k]) for k in a.fields)
    if isinstance(a, (set, frozenset)) and isinstance(b, (set, frozenset)):
        return len(a) == len(b) and all(any(_same(x, y) for y in b) for x in a)
    if isinstance(a, dict) and isinstance(b, dict):
        return len(a) == len(b) and all(any(_same(k, k2) and _same(v, v2) for k2, v2 in b.items()) for k, v in a.items())
    if isinstance(a, (list, tuple)) and isinstance(b, (list, tuple)):
        return type(a) is type(b) and len(a) == len(b) and all(_same(x, y) for x, y in zip(a, b))
    return type(a) is type(b) and a == b


def _show(v, f: Folder):
    if isinstance(v, (EV, DV)):
        try:
            return f.str_of(v) if isinstance(v, EV) or '__str__' in v.cls.methods else repr(v)[:80]
        except Exception:  # noqa
            return repr(v)[:80]
    if isinstance(v, (list, tuple)):
        return '[' + ', '.join(_show(x, f) for x in list(v)[:6]) + (', ...' if len(v) > 6 else '') + ']'
    if isinstance(v, dict):
        return '{' + ', '.join(f'{_show(k, f)}: {_show(x, f)}' for k, x in list(v.items())[:4]) + '}'
    return repr(v)[:80]


@both_log_levels
def log_rule(chk, rule='C12.R6'):
    repo = chk.repo
    f = _folder(repo)
    w, q = loc(repo, 'JsonLogWriter', 'write', rule)
    deals = build_deals(f)
    P = {p.name: p for p in f.members('Player')}
    PAIR = {p.name: p for p in f.members('Pair')}
    SU = {s.name: s for s in f.members('Suit')}
    V = {v.name: v for v in f.members('Vul')}
    B = {b.name: b for b in f.members('Bid')}
    scorings = f.members('Scoring')       # every board of a sequence under another scoring system (name and value of a member differ for some)

    def mk(cls, **kw):
        return f._construct(repo.cls(cls), [], kw)

    def hands(i):
        h = deals[i % len(deals)][1]
        return mk('Hands', north_hand=set(h['N']), east_hand=set(h['E']), south_hand=set(h['S']), west_hand=set(h['W']))

    def card(r, s):
        return f.make('Card', rank=r, suit=SU[s])

    def history(contract, tricks):
        ph = mk('PlayingHistory', contract=contract)
        for i, (leader, cards) in enumerate(tricks, 1):
            f.call_method(ph, 'record', i, f.make('TrickHistory', leader=P[leader], cards=tuple(card(r, s) for r, s in cards)))
        return ph
    t1 = ('W', [(14, 'S'), (2, 'S'), (10, 'H'), (3, 'C')])
    t2 = ('N', [(5, 'D'), (6, 'D'), (13, 'D'), (9, 'C')])
    dda = {P[p]: {SU[s]: (i * 3 + j) % 14 for j, s in enumerate(('C', 'D', 'H', 'S', 'NT'))} for i, p in enumerate(SEATS)}
    c_played = mk('Contract', final_bid=B['NT3'], x=False, xx=False, vul=V['NS'], declarer=P['S'])
    c_dbl = mk('Contract', final_bid=B['H4'], x=True, xx=False, vul=V['BOTH'], declarer=P['E'])
    c_rdbl = mk('Contract', final_bid=B['C7'], x=True, xx=True, vul=V['EW'], declarer=P['W'])
    c_out = mk('Contract', final_bid=None, x=False, xx=False, vul=V['EW'], declarer=None)
    boards = [
        dict(board_id='1', names=('w', 'n', 'e', 's'), dealer='N', deal=hands(0), bids=['C1', 'Pass', 'NT3', 'Pass', 'Pass', 'Pass'], contract=c_played,
             play=[t1, t2], tricks=9, scores={'NS': 600, 'EW': -600}, dda=dda, what='played, with a double-dummy table'),
        dict(board_id='[2, 3, ] {"a": 1,}', names=("O'Neil #2", 'Zo\u00eb \\ "q", ]', '}],', '\n\t'), dealer='E', deal=hands(2), bids=['Pass', 'Pass', 'Pass', 'Pass'], contract=c_out,
             play=None, tricks=None, scores={'NS': 0, 'EW': 0}, dda=None, what='passed out, no double-dummy table, after a board that had one'),
        # (ids and names are text over an alphabet that contains the space: kept verbatim, also at either end)
        dict(board_id=' 3 ', names=('w ', ' n', 'e', 's'), dealer='S', deal=hands(4), bids=['H4', 'X', 'Pass', 'Pass', 'Pass'], contract=c_dbl,
             play=[], tricks=0, scores={'NS': 2600, 'EW': -2600}, dda=None, what='played, no completed trick recorded, declarer credited with 0 tricks'),
        # (a board id may repeat: two tables / a second round - nothing may be keyed by it)
        dict(board_id='1', names=('w', 'n', 'e', 's'), dealer='W', deal=hands(1), bids=['C7', 'X', 'XX', 'Pass', 'Pass', 'Pass'], contract=c_rdbl,
             play=[t2], tricks=13, scores={'NS': -2660, 'EW': 2660}, dda=dda, what='redoubled grand slam'),
    ]
    orders = [[0, 1, 2, 3], [1, 0], [2]]
    n = 0
    for oi, order in enumerate(orders):
        seq = [boards[i] for i in order]
        n += 1
        chk.evals(len(seq))
        out = OutStream()
        f.steps = 0
        try:
            wr = f._construct(repo.cls('JsonLogWriter'), [], {'writer': out})
            f.call_method(wr, '__enter__')
            for b in seq:
                ph = history(b['contract'], b['play']) if b['play'] is not None else None
                f.call_method(wr, 'write', board_id=b['board_id'], west_player=b['names'][0], north_player=b['names'][1], east_player=b['names'][2],
                              south_player=b['names'][3], dealer=P[b['dealer']], deal=b['deal'], scoring=scorings[(seq.index(b) * 3 + oi) % len(scorings)], bid_history=[B[x] for x in b['bids']],
                              contract=b['contract'], play_history=ph, taken_trick_num=b['tricks'],
                              scores={PAIR[k]: v for k, v in b['scores'].items()}, dda=b['dda'])
            f.call_method(wr, '__exit__', None, None, None)
        except FoldRaise as r:
            chk.fail(rule, w, q, 'log writer raises on a sequence of boards', f'sequence {oi + 1} ({[b["what"] for b in seq]}): the writer raises {r.kind}: {r}')
            continue
        except Unsupported as e:
            raise AnalysisError(rule, q, f'log writer left the foldable subset: {e}')
        text = ''.join(out.chunks)
        try:
            doc = json.loads(text)
            ok_doc = isinstance(doc, dict) and isinstance(doc.get('logs'), list) and len(doc['logs']) == len(seq)
        except ValueError as e:
            doc, ok_doc = None, False
        chk.require(ok_doc, rule, w, q, 'the written log is one JSON document with one record per board',
                    f'[sequence {oi + 1}] {len(seq)} boards through one writer give one JSON document {{"logs": [{len(seq)} records]}}',
                    f'{len(seq)} boards written through one writer give {text[:80]!r}...: not a JSON document with {len(seq)} records under "logs"')
        if not ok_doc:
            continue
        try:
            rd = f._construct(repo.cls('JsonParser'), [], {})
            logs = f.call_method(rd, 'parse_board_logs', LineStream(text))
            rd2 = f._construct(repo.cls('JsonParser'), [], {})
            sets = f.call_method(rd2, 'parse_board_settings', LineStream(text))
        except FoldRaise as r:
            chk.fail(rule, w, q, 'the written log cannot be read back', f'sequence {oi + 1}: the reader raises {r.kind} ({str(r)[:80]}) on the writer\'s own document')
            continue
        except Unsupported as e:
            raise AnalysisError(rule, q, f'log reader left the foldable subset: {e}')
        chk.require(len(logs) == len(seq) and len(sets) == len(seq), rule, w, q, 'as many boards read back as written',
                    f'[sequence {oi + 1}] {len(seq)} boards are read back, as logs and as board settings',
                    f'{len(seq)} boards written, {len(logs)} logs / {len(sets)} board settings read back')
        for k, (b, lg) in enumerate(zip(seq, logs)):
            con = b['contract']
            want = {
                'board_id': b['board_id'], 'hands': b['deal'], 'dealer': P[b['dealer']], 'vul': con.fields['vul'], 'declarer': con.fields['declarer'],
                'contract': con, 'taken_trick': b['tricks'],
                'players': {P['W']: b['names'][0], P['N']: b['names'][1], P['E']: b['names'][2], P['S']: b['names'][3]},
                'bid_history': [B[x] for x in b['bids']],
                'play_history': None if b['play'] is None else [f.make('TrickHistory', leader=P[l], cards=tuple(card(r, s) for r, s in cs)) for l, cs in b['play']],
                'dda': b['dda'], 'score_type': scorings[(k * 3 + oi) % len(scorings)].value, 'scores': {PAIR[x]: v for x, v in b['scores'].items()}}
            pos = 'first' if k == 0 else 'after `' + seq[k - 1]['what'] + '`'
            for fld, wv in want.items():
                gv = lg.fields.get(fld) if isinstance(lg, DV) else None
                chk.require(_same(gv, wv), rule, w, q, f'field {fld} of a board ({b["what"]}) written {("first" if k == 0 else "after another board")}',
                            f'[sequence {oi + 1}] board {k + 1} ({b["what"]}): {fld} is read back equal to what was written',
                            f'board `{b["what"]}` written {pos}: `{fld}` is read back as {_show(gv, f)}, written was {_show(wv, f)}')
            if k >= len(sets):
                continue        # (fewer settings than boards: reported above)
            st = sets[k]
            for fld, wv in (('board_id', b['board_id']), ('hands', b['deal']), ('dealer', P[b['dealer']]), ('vul', con.fields['vul']), ('dda', b['dda'])):
                gv = st.fields.get(fld) if isinstance(st, DV) else None
                chk.require(_same(gv, wv), rule, w, q, f'board setting {fld} recovered from a log record ({b["what"]})',
                            f'[sequence {oi + 1}] board {k + 1}: setting field {fld} recovered from the log',
                            f'board `{b["what"]}` written {pos}: as a board setting `{fld}` is {_show(gv, f)}, written was {_show(wv, f)}')
    chk.floor(rule, 'board sequences written through one writer and read back', n, 3)


@both_log_levels
def settings_rule(chk, rule='C17.R7'):
    repo = chk.repo
    f = _folder(repo)
    w, q = loc(repo, 'JsonBoardSettingWriter', 'write', rule)
    deals = build_deals(f)
    P = {p.name: p for p in f.members('Player')}
    SU = {s.name: s for s in f.members('Suit')}
    V = {v.name: v for v in f.members('Vul')}

    def hands(i):
        h = deals[i % len(deals)][1]
        return f._construct(repo.cls('Hands'), [], {'north_hand': set(h['N']), 'east_hand': set(h['E']), 'south_hand': set(h['S']), 'west_hand': set(h['W'])})
    dda = {P[p]: {SU[s]: (i + 2 * j) % 14 for j, s in enumerate(('C', 'D', 'H', 'S', 'NT'))} for i, p in enumerate(SEATS)}
    boards = [dict(board_id=' A 1', dealer='N', vul='NONE', deal=hands(0), dda=dda), dict(board_id='[Lauria, Versace, ] \u00e9 "', dealer='E', vul='NS', deal=hands(3), dda=None),
              dict(board_id='2', dealer='S', vul='EW', deal=hands(5), dda=None), dict(board_id='x/4 ', dealer='W', vul='BOTH', deal=hands(len(deals) - 1), dda=dda)]
    n = 0
    for oi, order in enumerate([[0, 1, 2, 3], [1, 0, 2], [], [3]]):
        seq = [boards[i] for i in order]
        n += 1
        chk.evals(len(seq) + 1)
        out = OutStream()
        f.steps = 0
        try:
            wr = f._construct(repo.cls('JsonBoardSettingWriter'), [], {'writer': out})
            f.call_method(wr, '__enter__')
            for b in seq:
                f.call_method(wr, 'write', board_id=b['board_id'], dealer=P[b['dealer']], deal=b['deal'], vul=V[b['vul']], dda=b['dda'])
            f.call_method(wr, '__exit__', None, None, None)
            text = ''.join(out.chunks)
            json.loads(text)
            rd = f._construct(repo.cls('JsonParser'), [], {})
            got = f.call_method(rd, 'parse_board_settings', LineStream(text))
        except FoldRaise as r:
            chk.fail(rule, w, q, f'a list of {len(seq)} board settings is not written / read back', f'list of {len(seq)} boards: {r.kind}: {str(r)[:100]}')
            continue
        except ValueError as e:
            chk.fail(rule, w, q, 'the settings file is not a JSON document', f'list of {len(seq)} boards gives {text[:80]!r}: {e}')
            continue
        except Unsupported as e:
            raise AnalysisError(rule, q, f'settings writer / reader left the foldable subset: {e}')
        chk.require(len(got) == len(seq), rule, w, q, f'a list of {"no" if not seq else "several"} boards is read back with the same length',
                    f'[list {oi + 1}] {len(seq)} boards read back', f'{len(seq)} boards written, {len(got)} read back')
        for k, (b, st) in enumerate(zip(seq, got)):
            for fld, wv in (('board_id', b['board_id']), ('hands', b['deal']), ('dealer', P[b['dealer']]), ('vul', V[b['vul']]), ('dda', b['dda'])):
                gv = st.fields.get(fld) if isinstance(st, DV) else None
                after = 'first' if k == 0 else ('after a board with a double-dummy table' if seq[k - 1]['dda'] is not None else 'after a board without table')
                chk.require(_same(gv, wv), rule, w, q, f'setting field {fld} ({"with" if b["dda"] is not None else "without"} double-dummy table, written {after})',
                            f'[list {oi + 1}] board {k + 1}: {fld} read back equal', f'board {k + 1} (written {after}): `{fld}` is read back as {_show(gv, f)}, written was {_show(wv, f)}')
    chk.floor(rule, 'lists of board settings written and read back', n, 4)


def envelope_rule(chk, rule='C13.R2'):
    """The streaming envelope of the JSON writers, decided by folding the real open / _write_content / close / __enter__ / __exit__ on an
    analyser stream - independent of how the writer keeps its state: for 0..3 records, leaving the `with` normally or with an exception
    in flight, and with a record that cannot be serialised (json.dumps raises) at every position, the stream must hold ONE JSON document
    with exactly the records that were written completely, and __exit__ must not swallow the exception."""
    repo = chk.repo
    f = _folder(repo)
    n = 0
    for cls, tag in (('JsonLogWriter', 'logs'), ('JsonBoardSettingWriter', 'board_settings')):
        ci, fn = repo.method(cls, '__exit__', rule)
        w, q = repo.where(ci.module, fn), f'{ci.name}.__exit__'
        for k in range(0, 4):
            for bad_at in [None] + list(range(k)):
                for leave in ('normally', 'with an exception in flight'):
                    n += 1
                    chk.evals()
                    out = OutStream()
                    f.steps = 0
                    written = []
                    failed = None
                    try:
                        wr = f._construct(repo.cls(cls), [], {'writer': out})
                        f.call_method(wr, '__enter__')
                        for i in range(k):
                            rec = {'record': i} if i != bad_at else {'record': {1, 2}}       # a set is not JSON-serialisable: json.dumps raises TypeError
                            try:
                                f.call_method(wr, '_write_content', rec)
                                written.append(i)
                            except FoldRaise as r:
                                if i != bad_at:
                                    raise
                                failed = r
                                break
                        exc = failed if failed is not None else (FoldRaise('ValueError', 'card not held') if leave != 'normally' else None)
                        ret = f.call_method(wr, '__exit__', *( [None, None, None] if exc is None else [('builtin', exc.kind), exc, None]))
                    except FoldRaise as r:
                        chk.fail(rule, w, q, f'{cls}: the envelope raises ({r.kind})',
                                 f'{cls}: open, {k} record(s){f", record {bad_at + 1} not serialisable" if bad_at is not None else ""}, leaving {leave}: {r.kind}: {str(r)[:80]}')
                        continue
                    except Unsupported as e:
                        raise AnalysisError(rule, q, f'writer envelope left the foldable subset: {e}')
                    text = ''.join(out.chunks)
                    sit = f'{cls}: open, {k} record(s)' + (f', record {bad_at + 1} cannot be serialised' if bad_at is not None else '') + f', the with-block is left {leave if failed is None else "with that exception in flight"}'
                    try:
                        doc = json.loads(text)
                        ok = isinstance(doc, dict) and list(doc) == [tag] and doc[tag] == [{'record': i} for i in written]
                    except ValueError:
                        ok = False
                    chk.require(ok, rule, w, q, f'{cls}: stream after {"a record that cannot be serialised" if bad_at is not None else "leaving " + leave}',
                                f'{sit}: the stream is one JSON document with the {len(written)} complete record(s)',
                                f'{sit}: the stream reads {text[:50]!r}...{text[-24:]!r} - not one JSON document {{"{tag}": [{len(written)} record(s)]}}')
                    if exc is not None:
                        chk.require(not f._truth(ret), rule, w, q, f'{cls}.__exit__ swallows the exception', f'{sit}: __exit__ lets the exception through',
                                    f'{sit}: __exit__ returns {ret!r} (true): the abort is hidden from the caller')
    chk.floor(rule, 'writer envelopes folded', n, 30)
