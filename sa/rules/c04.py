"""C04 - tricks are won, led and counted according to the laws of play."""
from __future__ import annotations

import ast
import itertools

from ..fold import DV, EV, NOVALUE, FoldRaise, Unsupported
from ..index import AnalysisError, parent
from .c01 import CLOCKWISE, SIDE, seat_tables
from .common import loc, try_fold
from .playing import BASE, Playing, Tok


def run(chk):
    """The shape-independent decider first (complete play-outs of the folded engines against the rules), then the path-summary rules for
    all states; a shape the latter cannot bind is recorded, not an error, as long as the play-outs decide the behaviour."""
    from . import playout
    playout.run(chk, 'C04')
    try:
        structural(chk)
    except AnalysisError as e:
        if chk.findings:
            raise
        chk.explanation = ''
        chk.note(f'path-summary rules not evaluated ({e.rule} at {e.anchor}: {e.why[:200]}); the verdict rests on the complete play-outs and the folds evaluated before')
    chk.explanation = 'Complete play-outs: the real PlayingPhaseWithHands and four ObservedPlayingPhase replicas are folded in lock-step through all 52 cards of a family of deals x trump x declarer x card-choice strategy (incl. revokes, which the engines allow) and compared with an oracle of the rules after every card (sa/rules/playout.py): turn, leader, trick number, tricks taken, recorded tricks, has_done (R7).  ' + (chk.explanation or 'The path-summary rules could not bind this shape of the engine and were not evaluated.')


def structural(chk):
    # a failure of a path rule is reported only for a path whose guards ALL evaluate under the valuation (a guard over a helper property or a
    # state the valuation does not know makes the path indefinite -> no verdict from this rule; the play-outs and folds decide)
    chk.strict_guards = True
    P = Playing(chk, 'C04')
    f, repo = P.f, chk.repo
    chk.explanation = (
        'Path-sensitive effect summary of PlayingPhase.__init__/play_card (helpers _record/_set_next_leader inlined, the '
        'leader-advance loop summarised as repeat(n, next_player)) evaluated for every leader x cards-in-trick 1..4 x '
        'highest-trump position (-1,0..3) x highest-led-suit position 0..3: record carries the OLD leader and the cards after '
        'this card; new leader = old leader advanced by the trump winner if any else by the winner of the suit of card 0; '
        'exactly one +1 to the NEW leader\'s side; turn/trick bookkeeping. calc_highest is folded with order-abstract ranks (values that support nothing but order comparisons; '
        'any other use is an analysis error) on every asked suit x suits of the 4 cards x weak order of the ranks, which decides it '
        'for all tricks. Constructor: dummy = declarer.partner, opening leader = declarer\'s left, passed-out refused. '
        'has_done <=> 13 tricks completed.')
    from .playfold import fourth_card_rule
    fourth_card_rule(chk, 'C04.R6')
    seat_tables(chk, 'C04.R1', f)
    w_pc, q_pc = loc(repo, BASE, 'play_card', 'C04.R1')
    paths = P.summ.paths(BASE, 'play_card', allow_truncated=True)
    chk.note(f'{len(paths)} paths of play_card; trick list role = {P.trick}')
    card = Tok('card')
    trumpS = f.member('Suit', 'H')
    n_block = 0
    for tn0 in (1, 7, 13):
        for leader in P.players:
            for ln in (1, 2, 3, 4):
                for tidx in ((-1, 0, 1, 2, 3) if ln == 4 else (-1,)):
                    for lidx in ((0, 1, 2, 3) if ln == 4 else (0,)):
                        chk.evals()
                        active = P.step(leader, 'next_player', ln - 1)
                        st = {'card': card, 'leader': leader, 'active': active, 'trick_num': tn0, 'trump': trumpS, 'len': ln,
                              'trump_idx': tidx, 'led_idx': lidx, 'other_idx': (lidx + 1) % 4}
                        pe = P.evaluator(st)
                        cons = [p for p in paths if P.consistent(p, pe)]
                        if not cons:
                            raise AnalysisError('C04.R1', q_pc, f'no path consistent with {ln} cards in the trick')
                        for p in cons:
                            chk.focus(p, pe)
                            if p.end[0] == 'raise':
                                chk.require(False, 'C04.R1', w_pc, q_pc, f'play_card raises with {ln} cards: {p.describe()[-60:]}',
                                            'play_card does not raise', f'play_card raises with {ln} cards in the trick: {p.describe()[-80:]}')
                                continue
                            appends = [e for e in p.events if e.kind == 'call' and ast.unparse(ast.parse(e.recv, mode="eval").body) == P.trick]
                            good = len(appends) == 1 and appends[0].method == 'append' and len(appends[0].args) == 1 and \
                                pe.eval(appends[0].args[0]) == card
                            chk.require(good, 'C04.R3', w_pc, q_pc, 'trick list update: ' + '; '.join(e.text for e in appends),
                                        'the card is appended once at the end of the current trick (order played)',
                                        f'current-trick list is updated by {[e.text for e in appends]} (must be one append of the card)')
                            used = [e for e in p.events if e.kind == 'call' and e.recv == 'self.used_cards']
                            good = len(used) == 1 and used[0].method == 'add' and pe.eval(used[0].args[0]) == card
                            chk.require(good, 'C04.R3', w_pc, q_pc, 'used cards: ' + '; '.join(e.text for e in used),
                                        'the card is added once to the played cards', f'played-card set updated by {[e.text for e in used]}')
                            rec = [e for e in p.events if e.kind == 'call' and e.method == 'record']
                            taken = [e for e in p.events if e.kind in ('aug', 'store', 'assign') and e.target == 'self.taken_tricks']
                            lp, ap, tn = P.post(p, 'self.leader', pe), P.post(p, 'self.active_player', pe), P.post(p, 'self.trick_num', pe)
                            tc = p.env.get(P.trick)
                            if ln < 4:
                                good = not rec and not taken and lp == leader and tn == tn0 and tc is None
                                chk.require(good, 'C04.R1', w_pc, q_pc, f'mid-trick bookkeeping ({ln} cards)',
                                            f'with {ln} cards nothing is recorded or credited and leader/trick number stay',
                                            f'with {ln} cards in the trick: record={len(rec)}, credits={len(taken)}, leader {leader}->{lp}, trick {tn0}->{tn}')
                                want = CLOCKWISE[active.name]
                                chk.require(getattr(ap, 'name', None) == want, 'C04.R1', w_pc, q_pc, f'turn after card {ln} by {active.name}',
                                            f'after card {ln} by {active.name} the turn passes clockwise to {want}',
                                            f'after card {ln} of a trick played by {active.name} the turn passes to {ap}, clockwise is {want}')
                                continue
                            n_block += 1
                            off = tidx if tidx >= 0 else lidx
                            winner = P.step(leader, 'next_player', off)
                            # record: old leader, trick number, cards after this card
                            good = len(rec) == 1 and len(rec[0].args) == 2
                            why = f'{len(rec)} record calls'
                            if good:
                                r0 = rec[0]
                                th = r0.args[1]
                                tnum = pe.eval(r0.args[0])
                                cc = repo.cls('TrickHistory', 'C04.R1')
                                fields = [n for n in cc.order if n in cc.annots]
                                got = {}
                                if isinstance(th, ast.Call) and ast.unparse(th.func) == 'TrickHistory':
                                    got = dict(zip(fields, th.args))
                                    got.update({k.arg: k.value for k in th.keywords})
                                lead_v = pe.eval(got['leader']) if 'leader' in got else NOVALUE
                                cards_ok = 'cards' in got and ast.unparse(got['cards']) == f'tuple({P.trick})' and \
                                    p.events.index(appends[0]) < p.events.index(r0) if appends else False
                                good = tnum == tn0 and lead_v == leader and cards_ok
                                why = f'record(trick {tnum}, leader {lead_v}, cards `{ast.unparse(got["cards"]) if "cards" in got else None}`)'
                            chk.require(good, 'C04.R1', repo.where(P.mod, rec[0].node) if rec else w_pc, q_pc,
                                        (rec[0].text if rec else 'no record') + f' [leader {leader.name}, winner offset {off}]',
                                        'the completed trick is recorded with its number, its actual leader and the four cards in order',
                                        f'trick led by {leader.name} (winner {winner.name}): {why}; expected trick {tn0}, leader {leader.name}, '
                                        f'tuple of the trick cards including this card', path=p.describe())
                            chk.require(lp == winner, 'C04.R2', w_pc, q_pc,
                                        f'next leader: leader {leader.name}, highest trump at {tidx}, highest of suit led at {lidx}',
                                        f'trick led by {leader.name} with highest trump at {tidx} / highest led-suit card at {lidx} is won by {winner.name}',
                                        f'trick {tn0} led by {leader.name}, highest trump position {tidx}, highest card of the suit led at position {lidx}: '
                                        f'next leader is {lp}, the winner is {winner.name}', path=p.describe())
                            good = len(taken) == 1 and taken[0].kind == 'aug' and taken[0].op == 'Add' and pe.eval(taken[0].value) == 1 \
                                and len(taken[0].keys) == 1
                            side = pe.eval(taken[0].keys[0]) if good else NOVALUE
                            good = good and getattr(side, 'name', None) == SIDE[winner.name]
                            chk.require(good, 'C04.R1', repo.where(P.mod, taken[0].node) if taken else w_pc, q_pc,
                                        (ast.unparse(taken[0].node) if taken else 'no credit') + f' [leader {leader.name}, winner offset {off}]',
                                        f'exactly one trick is credited to the winner\'s side {SIDE[winner.name]}',
                                        f'trick won by {winner.name}: credit goes to {side} ({len(taken)} update(s)); expected +1 for {SIDE[winner.name]}',
                                        path=p.describe())
                            chk.require(ap == winner and tn == tn0 + 1, 'C04.R1', w_pc, q_pc, f'after trick: leader {leader.name} offset {off}',
                                        'the winner is on turn and the trick number advances by one',
                                        f'after the trick won by {winner.name}: active seat {ap}, trick number {tn0} -> {tn}')
                            chk.require(tc is not None and ast.unparse(tc) in ('list()', '[]'), 'C04.R1', w_pc, q_pc, 'trick list reset',
                                        'the current trick is emptied', f'current trick after completion is `{ast.unparse(tc) if tc is not None else "unchanged"}`')
    chk.floor('C04.R1', 'fourth-card blocks evaluated', n_block, 80)

    # ---- calc_highest: comparison-only use, then fold on all membership patterns x rank orders ----------------
    w_ch, q_ch = loc(repo, BASE, 'calc_highest', 'C04.R2')
    ch_ci, ch = repo.method(BASE, 'calc_highest', 'C04.R2')
    # Order abstraction of the ranks (fold.OrdInt): the cards carry ranks of which only the order exists, so one fold per weak
    # order of the four ranks decides every assignment of ranks 2..14 with that order; an operation on a rank that is not an order
    # comparison leaves the abstraction (analysis error).  The suits are enumerated completely: asked suit x suit of every card.
    from ..fold import OrdInt
    suits = [f.member('Suit', n) for n in ('C', 'D', 'H', 'S')]
    NT = f.member('Suit', 'NT')
    reps = (2, 6, 11, 14)
    weak = sorted({tuple(sorted(set(t)).index(x) for x in t) for t in itertools.product(range(4), repeat=4)})
    other_choices = [(0, 0, 0, 0), (0, 1, 2, 0), (2, 1, 0, 1)] if chk.tier == 'quick' else list(itertools.product(range(3), repeat=4))
    first_bad = None
    n = 0
    seen_cases = set()
    for asked in suits + [NT]:
        others = [x for x in suits if x is not asked]
        for pattern in itertools.product([True, False], repeat=4):
            for oc in other_choices:
                csuits = tuple(asked if (pattern[i] and asked is not NT) else others[oc[i] % len(others)] for i in range(4))
                for order in weak:
                    if any(csuits[a] is csuits[b] and order[a] == order[b] for a in range(4) for b in range(a + 1, 4)):
                        continue        # the same card twice
                    key = (asked.name, tuple(x.name for x in csuits), order)
                    if key in seen_cases:
                        continue
                    seen_cases.add(key)
                    cards = [f.make('Card', rank=OrdInt(reps[order[i]], 2, 14), suit=csuits[i]) for i in range(4)]
                    mem = [i for i in range(4) if csuits[i] is asked]
                    want = max(mem, key=lambda i: order[i]) if mem else -1
                    n += 1
                    got = try_fold('C04.R2', q_ch, lambda: f.call_class(BASE, 'calc_highest', asked, cards))
                    if got != ('ok', want) and first_bad is None:
                        first_bad = (asked.name, [f'{c.name}{reps[o]}' for c, o in zip(csuits, order)], got, want)
    chk.evals(n)
    chk.require(first_bad is None, 'C04.R2', w_ch, q_ch, 'calc_highest on every asked suit x card suits x weak order of the ranks (order-abstract ranks)',
                f'calc_highest returns the position of the highest card of the suit (-1 if none / no-trump) on all {n} suit assignments x rank orders',
                f'calc_highest({first_bad[0]}, {first_bad[1]}) = {first_bad[2]}, expected {first_bad[3]}' if first_bad else '')

    # ---- R4 constructor --------------------------------------------------------------------------------------------
    w_i, q_i = loc(repo, BASE, '__init__', 'C04.R4')
    _, init = repo.method(BASE, '__init__', 'C04.R4')
    cparam = init.args.args[1].arg
    ipaths = P.summ.paths(BASE, '__init__')
    for passed in (True, False):
        for decl in P.players:
            chk.evals()

            def m(node, decl=decl, passed=passed):
                t = ast.unparse(node)
                if t == f'{cparam}.is_passed_out()':
                    return passed
                if t == f'{cparam}.declarer':
                    return decl
                if t == f'{cparam}.trump':
                    return trumpS
                return NOVALUE
            from ..fold import PartialEvaluator
            pe = PartialEvaluator(f, P.mod, [m])
            cons = [p for p in ipaths if P.consistent(p, pe)]
            for p in cons:
                chk.focus(p, pe)
                if passed:
                    chk.require(p.end[0] == 'raise' and not p.writes(), 'C04.R4', w_i, q_i, 'passed-out contract in constructor',
                                'a passed-out contract is refused', 'a passed-out contract is accepted by the play engine')
                    continue
                got = {k: P.post(p, f'self.{k}', pe) for k in ('trump', 'declarer', 'dummy', 'leader', 'active_player', 'trick_num')}
                want = {'trump': trumpS, 'declarer': decl, 'dummy': P.step(decl, 'next_player', 2),
                        'leader': P.step(decl, 'next_player', 1), 'active_player': P.step(decl, 'next_player', 1), 'trick_num': 1}
                for k in want:
                    chk.require(got[k] == want[k], 'C04.R4', w_i, q_i, f'initial {k} for declarer {decl.name}',
                                f'with declarer {decl.name} the initial {k} is {want[k]}',
                                f'declarer {decl.name}: initial {k} is {got[k]}, expected {want[k]}')
                tk = p.env.get('self.taken_tricks')
                good = isinstance(tk, ast.Dict) and sorted(ast.unparse(k) for k in tk.keys) == ['Pair.EW', 'Pair.NS'] and \
                    all(isinstance(v, ast.Constant) and v.value == 0 for v in tk.values)
                chk.require(good, 'C04.R4', w_i, q_i, 'initial trick counts', 'both sides start with 0 tricks',
                            f'initial trick counts are `{ast.unparse(tk) if tk is not None else None}`')
                tc = p.env.get(P.trick)
                chk.require(tc is not None and ast.unparse(tc) in ('list()', '[]'), 'C04.R4', w_i, q_i, 'initial trick list',
                            'the first trick starts empty', 'initial trick list is not empty')

    # ---- R5 end of play ---------------------------------------------------------------------------------------------
    w_h, q_h = loc(repo, BASE, 'has_done', 'C04.R5')
    hp = P.summ.paths(BASE, 'has_done')
    for tn in range(1, 16):
        pe = P.evaluator({'trick_num': tn})
        vals = {pe.eval(p.end[1]) for p in hp if P.consistent(p, pe) and p.end[0] == 'return' and p.end[1] is not None}
        chk.require(vals == {tn >= 14}, 'C04.R5', w_h, q_h, f'has_done() at trick number {tn}',
                    f'play is {"over" if tn >= 14 else "not over"} when the next trick would be number {tn}',
                    f'has_done() = {vals} when the trick number is {tn}; play is over exactly after 13 tricks')

    # ---- history container -------------------------------------------------------------------------------------------
    w_r, q_r = loc(repo, 'PlayingHistory', 'record', 'C04.R1')
    rp = P.summ.paths('PlayingHistory', 'record')
    ok_paths = [p for p in rp if p.end[0] != 'raise']
    good = len(ok_paths) >= 1
    for p in ok_paths:
        ap = [e for e in p.events if e.kind == 'call' and e.mutator]
        good = good and len(ap) == 1 and ap[0].method == 'append' and ap[0].recv == 'self._history' and \
            ast.unparse(ap[0].args[0]) == 'trick_history'
    chk.require(good, 'C04.R1', w_r, q_r, 'PlayingHistory.record', 'record appends the trick at the end of the history',
                'PlayingHistory.record does not append the given trick exactly once')
    _, hist = repo.method('PlayingHistory', 'history', 'C04.R1')
    rets = [s for s in ast.walk(hist) if isinstance(s, ast.Return)]
    chk.require(len(rets) == 1 and ast.unparse(rets[0].value) in ('tuple(self._history)', 'self._history'), 'C04.R1',
                repo.where(P.mod, hist), 'PlayingHistory.history', 'history property',
                'the public history is the recorded list in order', f'history returns `{ast.unparse(rets[0].value) if rets else None}`')
