"""Whole-file evaluation of the PBN reader and writer inside the analyser (rules C17.R6 and C18.R6).

The complete reader (`PbnParser.parse_board_settings`: parse_stream -> parse_board -> converters) and the complete
writer (`PbnWriter.write_board_result`, several boards through ONE writer object) are folded by sa.fold on a family
of file layouts / board sequences built in this module, against an oracle computed here from the configuration
alone.  Nothing is imported from the subject; streams are analyser objects.  This is the shape-independent
complement of the structural rules R1-R5: a change that restructures the reader or writer (precompiled patterns,
an extra game trigger, a per-instance tag table, a dict keyed by board number, bounded readline) is judged by what
the code computes on the layouts the property quantifies over, not by the shape the structural rules recognise."""
from __future__ import annotations

import itertools
from typing import List

from ..fold import DV, Folder, FoldRaise, Unsupported
from ..index import AnalysisError
from .c14 import FIELD, SEATS, build_deals, pbn_oracle
from .common import loc

VUL_SPELLINGS = {'NONE': ['None', 'Love', '-'], 'NS': ['NS'], 'EW': ['EW'], 'BOTH': ['All', 'Both']}
PBN_VUL = {'NONE': 'None', 'NS': 'NS', 'EW': 'EW', 'BOTH': 'All'}


class LineStream:
    """Text stream stand-in for the reader: iteration and readline([n]) over a fixed text."""
    _sa_native = True

    def __init__(self, text: str):
        self.text, self.pos = text, 0

    def readline(self, n=-1):
        if self.pos >= len(self.text):
            return ''
        end = self.text.find('\n', self.pos)
        end = len(self.text) if end < 0 else end + 1
        if n is not None and n >= 0:
            end = min(end, self.pos + n)
        out = self.text[self.pos:end]
        self.pos = end
        return out

    def __iter__(self):
        while True:
            l = self.readline()
            if l == '':
                return
            yield l

    def read(self, n=-1):
        out = self.text[self.pos:] if n is None or n < 0 else self.text[self.pos:self.pos + n]
        self.pos += len(out)
        return out

    def readlines(self):
        return list(self)


class OutStream:
    _sa_native = True

    def __init__(self):
        self.chunks: List[str] = []

    def write(self, s):
        self.chunks.append(s)
        return len(s)

    def flush(self):
        return None


class ADate:
    _sa_native = True

    def strftime(self, fmt):
        return fmt.replace('%Y', '2026').replace('%m', '09').replace('%d', '29')


def hands_sig(h):
    return {s: frozenset((c.fields['rank'], c.fields['suit'].name) for c in h[s]) for s in SEATS}


def game_lines(board, dealer, vul_text, deal_text, order=('Board', 'Dealer', 'Vulnerable', 'Deal'), extra_before=(), extra_after=(), mid=()):
    tags = {'Board': f'[Board "{board}"]', 'Dealer': f'[Dealer "{dealer}"]', 'Vulnerable': f'[Vulnerable "{vul_text}"]', 'Deal': f'[Deal "{deal_text}"]'}
    out = list(extra_before)
    for i, t in enumerate(order):
        out.append(tags[t])
        if i == 1:
            out += list(mid)
    out += list(extra_after)
    return out


def layouts(games):
    """(name, text) for the layout family; `games` = [(board, dealer, vul, deal_text)] (3 games)."""
    L = []
    base = [game_lines(b, d, PBN_VUL[v], t) for b, d, v, t in games]

    def join(gs, sep='\n', eol='\n', head=(), tail_nl=True):
        lines = list(head)
        for i, g in enumerate(gs):
            if i:
                lines += sep if isinstance(sep, list) else [sep.rstrip('\n')]
            lines += g
        txt = eol.join(lines) + (eol if tail_nl else '')
        return txt
    L.append(('plain LF', join(base, sep=[''])))
    L.append(('CRLF', join(base, sep=[''], eol='\r\n')))
    L.append(('no newline at end of file', join(base, sep=[''], tail_nl=False)))
    L.append(('leading blank lines and runs of blank / whitespace-only lines', '\n\n' + join(base, sep=['', '  ', '\t', ''])))
    L.append(('trailing blank lines', join(base, sep=['']) + '\n\n  \n'))
    L.append(('header lines and a %-line between games', join(base, sep=['', '% between games'], head=['% PBN 2.1', '% EXPORT', '%Content-type: text/x-pbn; charset=ISO-8859-1'])))
    extra = ['[Event "Club night"]', '[Site "Somewhere, far"]', '[Date "2026.09.29"]']
    after = ['[Scoring "IMP"]', '[Declarer "S"]', '[Contract "3NT"]', '[Result "9"]']
    g2 = [game_lines(b, d, PBN_VUL[v], t, extra_before=extra, extra_after=after) for b, d, v, t in games]
    L.append(('other tags before and after', join(g2, sep=[''])))
    g3 = [game_lines(b, d, PBN_VUL[v], t, order=('Deal', 'Vulnerable', 'Dealer', 'Board'), extra_before=['[Scoring "MP"]'], extra_after=['[Event "Last"]']) for b, d, v, t in games]
    L.append(('tag order reversed, Event last', join(g3, sep=[''])))
    table = ['[OptimumResultTable "Declarer;Denomination\\2R;Result\\2R"]', 'N NT 7', 'N  S 10', ' E  H  3', '  W  C  1']
    g4 = [game_lines(b, d, PBN_VUL[v], t, mid=table) for b, d, v, t in games]
    L.append(('table section with indented rows in the middle of a game', join(g4, sep=[''])))
    # (commentary - `;` and `{ }` - is not among the layouts the property admits; the reader's comment grammar is not judged)
    g6 = [game_lines(b, d, PBN_VUL[v], t, extra_after=[f'[Board "99"]', f'[Dealer "{"NESW"[("NESW".index(d) + 1) % 4]}"]']) for b, d, v, t in games]
    L.append(('a tag repeated later in the game (first occurrence wins)', join(g6, sep=[''])))
    long_ev = '[Event "' + 'x' * (255 - len('[Event ""]') - 1) + '"]'
    g7 = [game_lines(b, d, PBN_VUL[v], t, extra_before=[long_ev]) for b, d, v, t in games]
    L.append(('a legal 255-character line (254 + newline)', join(g7, sep=[''])))
    # (a reader that takes the file in bounded pieces sees the end of such a line as a piece of its own: a bare line end must not be taken for
    # the empty line between games)
    for nvis, eol_ in ((255, '\n'), (254, '\r\n'), (255, '\r\n'), (510, '\n'), (256, '\n')):
        lev = '[Event "' + 'x' * (nvis - len('[Event ""]')) + '"]'
        gl = [game_lines(b, d, PBN_VUL[v], t, extra_before=[lev]) for b, d, v, t in games]
        L.append((f'an extra tag on a line of {nvis} visible characters ({"CRLF" if eol_ != chr(10) else "LF"})', join(gl, sep=[''], eol=eol_)))
    g8 = [game_lines(b, d, sp, t) for (b, d, v, t), sp in zip(games, [VUL_SPELLINGS[v][-1] for _, _, v, _ in games])]
    L.append(('alternative vulnerability spellings', join(g8, sep=[''])))
    g9 = [[x.replace('[', '[ ', 1).replace(']', ' ]') if x.startswith('[Dealer') else x for x in g] for g in base]
    L.append(('blanks inside the brackets of a tag', join(g9, sep=[''])))
    return L


def reader_rule(chk, rule='C17.R6'):
    repo = chk.repo
    f = Folder(repo, allow_loops=True, max_steps=3_000_000)
    w, q = loc(repo, 'PbnParser', 'parse_board_settings', rule)
    deals = dict(build_deals(f))
    names = [n for n in deals][:]
    pick = [names[0], names[min(2, len(names) - 1)], names[min(5, len(names) - 1)]]
    confs = [
        [('1', 'N', 'NONE', pick[0], 'N'), ('2', 'E', 'NS', pick[1], 'E'), ('3', 'S', 'BOTH', pick[2], 'W')],
        # board numbers repeat (two rooms / two sessions in one file), first seat of the Deal tag differs from the dealer
        [('1', 'W', 'EW', pick[2], 'S'), ('1', 'W', 'EW', pick[0], 'N'), ('7', 'S', 'NONE', pick[1], 'E')],
        # ids over the alphabet of the property (letters, digits, space and . , - _ / ( ) ' + # :), incl. ids that are a single sign - `#`, `-`,
        # `+` carry a meaning as tag VALUES elsewhere in PBN ("same as the previous game", "no value") but as a board id they are the id
        [("O'Neil (A) 1/2", 'N', 'BOTH', pick[1], 'S'), ('#', 'E', 'NONE', pick[0], 'E'), ('#', 'S', 'NS', pick[2], 'N'), ('-', 'W', 'EW', pick[1], 'W'),
         ('+', 'N', 'NONE', pick[0], 'N'), (':', 'E', 'BOTH', pick[2], 'S'), ('A.1, b_2', 'S', 'NS', pick[0], 'E'), ('#1', 'W', 'NONE', pick[1], 'N')],
    ]
    pci = repo.cls('PbnParser', rule)
    n = 0
    for ci_, conf in enumerate(confs):
        games = [(b, d, v, pbn_oracle(deals[dn], first)) for b, d, v, dn, first in conf]
        want = [(b, d, v, hands_sig(deals[dn])) for b, d, v, dn, first in conf]
        for li_, (lname, text) in enumerate(layouts(games)):
            if ci_ == 2 and chk.tier == 'quick' and li_ not in (0, 1, 6, 7):
                continue        # the id alphabet does not interact with blank-line / header layouts: four layouts in the quick tier
            n += 1
            chk.evals()
            f.steps = 0
            try:
                obj = f._construct(pci, [], {})
                res = f.call_method(obj, 'parse_board_settings', LineStream(text))
                got = []
                for bs in res:
                    h = bs.fields['hands']
                    got.append((bs.fields['board_id'], bs.fields['dealer'].name, bs.fields['vul'].name,
                                {s: frozenset((c.fields['rank'], c.fields['suit'].name) for c in h.fields[FIELD[s]]) for s in SEATS}))
                outcome = ('ok', got)
            except FoldRaise as r:
                outcome = ('raise', f'{r.kind}: {r}')
            except Unsupported as e:
                raise AnalysisError(rule, q, f'reader left the foldable subset on layout "{lname}": {e}')
            except (KeyError, AttributeError, TypeError) as e:
                outcome = ('raise', f'unexpected result shape: {type(e).__name__}: {e}')
            ok = outcome == ('ok', want)
            if not ok and outcome[0] == 'ok':
                g = outcome[1]
                if len(g) != len(want):
                    why = f'{len(g)} boards are read, the file has {len(want)} (board ids read: {[x[0] for x in g]})'
                else:
                    k = next(i for i in range(len(want)) if g[i] != want[i])
                    parts = [nm for nm, a, b in zip(('board id', 'dealer', 'vulnerability', 'deal'), g[k], want[k]) if a != b]
                    why = f'game {k + 1} is read with a different {", ".join(parts)} (read {g[k][:3]}, file says {want[k][:3]})'
            elif not ok:
                why = f'the reader raises {outcome[1][:120]}'
            else:
                why = ''
            chk.require(ok, rule, w, q, f'layout: {lname}', f'[conf {ci_ + 1}] layout "{lname}": {len(want)} board settings read back in order',
                        f'layout "{lname}" (a legal PBN import file of {len(want)} games): {why}', layout=lname, file_text=text[:600])
    chk.floor(rule, 'file layouts folded through the whole reader', n, 26)


def writer_rule(chk, rule='C18.R6'):
    repo = chk.repo
    f = Folder(repo, allow_loops=True, max_steps=3_000_000)
    w, q = loc(repo, 'PbnWriter', 'write_board_result', rule)
    deals = dict(build_deals(f))
    names = list(deals)
    players = {p.name: p for p in f.members('Player')}
    vuls = {v.name: v for v in f.members('Vul')}
    bids = {b.name: b for b in f.members('Bid')}
    scoring = f.member('Scoring', 'IMP')
    wci, pci = repo.cls('PbnWriter', rule), repo.cls('PbnParser', rule)

    def contract(bid, x, xx, vul, decl):
        return f._construct(repo.cls('Contract'), [], {'final_bid': bids[bid] if bid else None, 'x': x, 'xx': xx, 'vul': vuls[vul], 'declarer': players[decl] if decl else None})

    def hands(dn):
        h = deals[dn]
        return f._construct(repo.cls('Hands'), [], {'north_hand': set(h['N']), 'east_hand': set(h['E']), 'south_hand': set(h['S']), 'west_hand': set(h['W'])})
    long_name = 'N' * 300
    seqs = [
        # played, passed out, played (declarer takes 0 tricks), same board number again
        [dict(num=1, dealer='N', dn=names[0], c=('NT3', False, False, 'NS', 'W'), tricks=9, names=('w', 'n', 'e', 's')),
         dict(num=2, dealer='E', dn=names[1], c=(None, False, False, 'EW', None), tricks=None, names=('w', 'n', 'e', 's')),
         dict(num=3, dealer='S', dn=names[2], c=('S4', True, False, 'BOTH', 'S'), tricks=0, names=('w', 'n', 'e', 's')),
         dict(num=1, dealer='W', dn=names[0], c=('H7', True, True, 'NONE', 'E'), tricks=13, names=('w', 'n', 'e', 's'))],
        # passed out first; a player name that needs more than one line
        [dict(num=5, dealer='W', dn=names[1], c=(None, False, False, 'BOTH', None), tricks=None, names=('a b', 'c', 'd', 'e')),
         dict(num=6, dealer='N', dn=names[3 % len(names)], c=('C1', False, False, 'EW', 'N'), tricks=7, names=(long_name, 'n', 'e', 's')),
         dict(num=7, dealer='E', dn=names[0], c=(None, False, False, 'NONE', None), tricks=None, names=('w', 'n', 'e', 's'))],
        # names over the alphabet of the property, incl. the characters PBN gives a meaning in other places (#, ##, :, +, parentheses, quotes' neighbours)
        [dict(num=8, dealer='S', dn=names[2], c=('D2', False, False, 'NS', 'S'), tricks=8, names=('##12 Winter pairs', '#', "O'Neil (sub)", 'A+B: c/d'), event='## (sub)', site='#1, Club-house_2'),
         dict(num=9, dealer='W', dn=names[1], c=('NT1', False, True, 'EW', 'W'), tricks=7, names=('###', 'N.N.', '-', '( )'), event='#', site='##'),
         dict(num=10, dealer='N', dn=names[0], c=(None, False, False, 'BOTH', None), tricks=None, names=('w', '#', '##', 's'), event='Ev', site='Si')],
    ]
    n = 0
    for si, seq in enumerate(seqs):
        n += 1
        chk.evals(len(seq))
        f.steps = 0
        out = OutStream()
        try:
            wr = f._construct(wci, [], {'writer': out})
            for b in seq:
                bid, x, xx, vul, decl = b['c']
                f.call_method(wr, 'write_board_result', event=b.get('event', 'Ev'), site=b.get('site', 'Si'), date=ADate(), board_num=b['num'], west_player=b['names'][0], north_player=b['names'][1],
                              east_player=b['names'][2], south_player=b['names'][3], dealer=players[b['dealer']], deal=hands(b['dn']), scoring=scoring,
                              contract=contract(bid, x, xx, vul, decl), taken_tricks=b['tricks'])
        except FoldRaise as r:
            chk.fail(rule, w, q, f'writer raises on a sequence of boards', f'board sequence {si + 1}: write_board_result raises {r.kind}: {r}')
            continue
        except Unsupported as e:
            raise AnalysisError(rule, q, f'writer left the foldable subset: {e}')
        text = ''.join(out.chunks)
        lines = text.splitlines(keepends=True)
        # the tags of every game as written, in order: the 15 mandatory tags of an export file come first, in the order of the standard
        import re as _re
        MAND = ['Event', 'Site', 'Date', 'Board', 'West', 'North', 'East', 'South', 'Dealer', 'Vulnerable', 'Deal', 'Scoring', 'Declarer', 'Contract', 'Result']
        games_txt, cur = [], []
        for l in lines:
            if l.strip() == '':
                if cur:
                    games_txt.append(cur)
                cur = []
            else:
                cur.append(l)
        if cur:
            games_txt.append(cur)
        for gi, gl in enumerate(games_txt):
            tg = [m.group(1) for l in gl for m in [_re.match(r'\[\s*(\w+)\s+"', l)] if m]
            if len(b_ := seq[gi]['names'][0] if gi < len(seq) else '') > 200:
                continue        # a value longer than a line is folded over several lines by the writer
            chk.require(tg[:15] == MAND, 'C18.R1', w, q, f'tags written: {tg[:15]}', f'[sequence {si + 1}, game {gi + 1}] the 15 mandatory tags are written in PBN order',
                        f'the tags of game {gi + 1} as written are {tg[:16]}; a PBN export file starts every game with {MAND} in this order')
        too_long = [l for l in lines if len(l) > 255]
        chk.require(not too_long, rule, w, q, 'line longer than 255 characters', f'[sequence {si + 1}] every written line has at most 255 characters',
                    f'a written line has {len(too_long[0]) if too_long else 0} characters (limit 255)')
        try:
            rd = f._construct(pci, [], {})
            games = f.call_method(rd, 'parse_all', LineStream(text))
        except FoldRaise as r:
            chk.fail(rule, w, q, 'written file cannot be read back', f'board sequence {si + 1}: the reader raises {r.kind} on the writer\'s output')
            continue
        except Unsupported as e:
            raise AnalysisError(rule, q, f'reader left the foldable subset on the writer\'s output: {e}')
        chk.require(len(games) == len(seq), rule, w, q, 'one game per board result', f'[sequence {si + 1}] {len(seq)} board results are read back as {len(seq)} games',
                    f'{len(seq)} board results written through one writer are read back as {len(games)} game(s)')
        # ... and each is recovered as a board setting (deal, dealer, vulnerability, board number), in order
        try:
            rd2 = f._construct(pci, [], {})
            settings = f.call_method(rd2, 'parse_board_settings', LineStream(text))
            got = [(bs.fields['board_id'], bs.fields['dealer'].name, bs.fields['vul'].name,
                    {s: frozenset((c.fields['rank'], c.fields['suit'].name) for c in bs.fields['hands'].fields[FIELD[s]]) for s in SEATS}) for bs in settings]
        except FoldRaise as r:
            got = f'raises {r.kind}'
        except Unsupported as e:
            raise AnalysisError(rule, q, f'reader left the foldable subset on the writer\'s output: {e}')
        wants = [(str(b['num']), b['dealer'], b['c'][3], hands_sig(deals[b['dn']])) for b in seq]
        chk.require(got == wants, rule, w, q, 'board settings recovered from the written results',
                    f'[sequence {si + 1}] the {len(seq)} board results are recovered as {len(seq)} board settings in order',
                    f'the {len(seq)} written board results (board numbers {[b["num"] for b in seq]}) are recovered as ' +
                    (got if isinstance(got, str) else f'{len(got)} board setting(s) with board ids {[g[0] for g in got]}') + ' - every result must come back, in order, with its own deal')
        for k, (b, g) in enumerate(zip(seq, games)):
            bid, x, xx, vul, decl = b['c']
            passed = bid is None
            if passed:
                ctext = 'Pass'
            else:
                nm = bid
                ctext = (nm[-1] + nm[:-1]) + ('XX' if xx else 'X' if x else '')       # '3NT', '4SX', '7HXX', '1C'
            want = {'Event': b.get('event', 'Ev'), 'Site': b.get('site', 'Si'), 'Date': '2026.09.29', 'Board': str(b['num']), 'West': b['names'][0], 'North': b['names'][1], 'East': b['names'][2],
                    'South': b['names'][3], 'Dealer': b['dealer'], 'Vulnerable': PBN_VUL[vul], 'Deal': pbn_oracle(deals[b['dn']], b['dealer']), 'Scoring': 'IMP',
                    'Declarer': '' if passed else decl, 'Contract': ctext, 'Result': '' if passed else str(b['tricks'])}
            if len(b['names'][0]) > 200:
                want.pop('West')          # a value longer than a line is folded by the writer; its read-back is not part of the property
            diff = {t: (g.get(t) if isinstance(g, dict) else None, v) for t, v in want.items() if not isinstance(g, dict) or g.get(t) != v}
            kind = 'passed-out' if passed else ('played, 0 tricks' if b['tricks'] == 0 else 'played')
            pos = 'first' if k == 0 else 'after a ' + ('passed-out' if seq[k - 1]['c'][0] is None else 'played') + ' board'
            first = next(iter(diff.items())) if diff else None
            why = ''
            if first:
                why = (f'board {k + 1} of a sequence ({kind}, written {pos} through the same writer): tag {first[0]} is read back as '
                       f'{first[1][0]!r}, the board has {first[1][1]!r}' + (f' (and {len(diff) - 1} more tags differ)' if len(diff) > 1 else ''))
            chk.require(not diff, rule, w, q, f'{kind} board written {pos}: tag {first[0] if first else ""}',
                        f'[sequence {si + 1}] board {k + 1} ({kind}, {pos}) is read back with its 15 tag values', why)
    chk.floor(rule, 'board sequences written and read back', n, 2)
