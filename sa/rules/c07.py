"""C07 - scoring (partial): which vulnerability is used, how the contract is routed into the table
function, the passed-out short-circuit and the undertrick tables by role.

Not decided here (stated in DESIGN/MANIFEST): the arithmetic of calc_bid_score for each of its
35x3x2x14 inputs - a numeric result that the existing suite already enumerates exhaustively."""
from __future__ import annotations

import ast

from ..fold import Folder
from ..index import AnalysisError
from ..norm import affine
from ..paths import Summarizer
from .c01 import SIDE
from .common import floc, fold_or_error, loc, try_fold


def down_oracle(doubled: str, vul: bool):
    out, tot = [], 0
    for k in range(1, 14):
        if doubled == 'none':
            tot += 100 if vul else 50
        else:
            if vul:
                step = 200 if k == 1 else 300
            else:
                step = 100 if k == 1 else (200 if k in (2, 3) else 300)
            tot += step * (2 if doubled == 'xx' else 1)
        out.append(-tot)
    return tuple(out)


def run(chk):
    complete_domain(chk)
    structural(chk)
    chk.explanation = ('R5: calc_score (with Contract.is_vul / is_passed_out and calc_bid_score below it) is folded on its COMPLETE finite domain - 35 bids x '
                       'undoubled/doubled/redoubled x 4 board vulnerabilities x 4 declarers x 0..13 tricks = 23520 points - and every result compared with the '
                       'duplicate scoring table written out in this checker (Law 77: trick points, part-score / game / slam bonuses, insult, overtricks, '
                       'undertricks).  ' + chk.explanation.replace(' The arithmetic of calc_bid_score for individual inputs is NOT decided (runtime values).', ''))


def structural(chk):
    repo = chk.repo
    f = Folder(repo)
    chk.explanation = (
        'R1: Contract.is_vul -> Player.is_vul -> Pair.is_vul folded over 4 declarers x 4 board vulnerabilities (x 3 bids) and '
        'compared with the same-side table (vulnerable iff Both, or NS/EW and declarer on that side). R2: in calc_score the '
        'arguments of the table function are traced by reaching definitions to final_bid / x / xx / is_vul() of the same contract '
        'and the trick parameter. R3: passed-out contracts fold to 0 before anything else. R4: the six undertrick tables are '
        'bound to (doubling, vulnerability) by the guards that select them and compared with the closed form of the Laws; the '
        'index is tricks short - 1. The arithmetic of calc_bid_score for individual inputs is NOT decided (runtime values).')
    vuls = f.members('Vul')
    players = f.members('Player')
    bids = f.members('Bid')

    # ---- R1 -----------------------------------------------------------------------------------------------
    w, q = loc(repo, 'Contract', 'is_vul', 'C07.R1')
    for b in (bids[0], bids[19], bids[34]):
        for v in vuls:
            for d in players:
                chk.evals()
                want = v.name == 'BOTH' or v.name == SIDE[d.name]
                c = fold_or_error('C07.R1', 'Contract', lambda: f.make('Contract', final_bid=b, x=False, xx=False, vul=v, declarer=d))
                got = try_fold('C07.R1', q, lambda: f.call_method(c, 'is_vul'))
                chk.require(got == ('ok', want), 'C07.R1', w, q, f'Contract(vul={v.name}, declarer={d.name}).is_vul()',
                            f'declarer {d.name} on a {v.name} board is {"" if want else "not "}vulnerable',
                            f'declarer {d.name}, board vulnerability {v.name}: is_vul() = {got}, the declaring side is '
                            f'{"" if want else "not "}vulnerable')
    w, q = loc(repo, 'Player', 'is_vul', 'C07.R1')
    for d in players:
        for v in vuls:
            want = v.name == 'BOTH' or v.name == SIDE[d.name]
            got = try_fold('C07.R1', q, lambda: f.call_method(d, 'is_vul', v))
            chk.require(got == ('ok', want), 'C07.R1', w, q, f'{d}.is_vul({v})', f'{d.name} vulnerable at {v.name}: {want}',
                        f'{d}.is_vul({v}) = {got}, expected {want}')
    w, q = loc(repo, 'Pair', 'is_vul', 'C07.R1')
    for pr in f.members('Pair'):
        for v in vuls:
            want = v.name == 'BOTH' or v.name == pr.name
            got = try_fold('C07.R1', q, lambda: f.call_method(pr, 'is_vul', v))
            chk.require(got == ('ok', want), 'C07.R1', w, q, f'{pr}.is_vul({v})', f'{pr.name} vulnerable at {v.name}: {want}',
                        f'{pr}.is_vul({v}) = {got}, expected {want}')

    # ---- R2 routing / R3 passed out -----------------------------------------------------------------------
    w, q = floc(repo, 'score', 'calc_score', 'C07.R2')
    m, fn = repo.function('score', 'calc_score', 'C07.R2')
    _, callee = repo.function('score', 'calc_bid_score', 'C07.R2')
    cparams = [a.arg for a in callee.args.args]
    if cparams != ['bid', 'x', 'xx', 'vul', 'taken_trick_num']:
        raise AnalysisError('C07.R2', 'score:calc_bid_score', f'unexpected parameter list {cparams}')
    params = [a.arg for a in fn.args.args]
    if len(params) != 2:
        raise AnalysisError('C07.R2', q, 'calc_score(contract, taken_tricks) expected')
    cp, tp = params
    # (argument routing and the passed-out short-circuit are decided by R5 on the complete domain and by the folds of passed-out contracts below:
    # the former reaching-definition rule on the shape of calc_score was dropped - it reported equivalent rewritings)
    for v in vuls:
        for fb in (None, f.member('Bid', 'Pass')):
            for t in (0, 7, 13):
                chk.evals()
                c = f.make('Contract', final_bid=fb, vul=v)
                got = try_fold('C07.R3', q, lambda: f.call_function('score', 'calc_score', c, t))
                chk.require(got == ('ok', 0), 'C07.R3', w, q, f'calc_score(passed out {fb}, {v.name}, {t})',
                            'a passed-out board scores 0', f'passed-out contract ({fb}, {v.name}, {t} tricks) scores {got}')

    # ---- R4 undertrick penalties: the function is folded on its complete "down" domain (35 bids x 3 doubling states x 2
    #      vulnerabilities x every trick count short of the contract) against the closed form of the Laws -------------------------
    w, q = floc(repo, 'score', 'calc_bid_score', 'C07.R4')
    fb = __import__('sa.fold', fromlist=['Folder']).Folder(repo, allow_loops=True, max_steps=2_000_000)
    n_dn = 0
    first_bad = None
    from ..fold import FoldRaise as _FR, Unsupported as _UN
    for b in bids[:35]:
        level = (b.value - 1) // 5 + 1
        for dbl, (x_, xx_) in (('none', (False, False)), ('x', (True, False)), ('xx', (True, True))):
            for isvul in (False, True):
                want = down_oracle(dbl, isvul)
                for taken in range(0, level + 6):
                    n_dn += 1
                    down = level + 6 - taken
                    try:
                        fb.steps = 0
                        got = ('ok', fb.call_function('score', 'calc_bid_score', b, x_, xx_, isvul, taken))
                    except _FR as r_:
                        got = ('raise', r_.kind)
                    except _UN as e_:
                        raise AnalysisError('C07.R4', q, f'calc_bid_score left the foldable subset: {e_}')
                    if got != ('ok', want[down - 1]) and first_bad is None:
                        first_bad = (b, dbl, isvul, taken, down, got, want[down - 1])
    chk.evals(n_dn)
    chk.require(first_bad is None, 'C07.R4', w, q, 'undertrick penalties on the complete down domain',
                f'all {n_dn} (bid, doubling, vulnerability, tricks short) cases score the penalty the Laws give',
                (f'{first_bad[0]} {"redoubled" if first_bad[1] == "xx" else "doubled" if first_bad[1] == "x" else "undoubled"}, '
                 f'{"vulnerable" if first_bad[2] else "not vulnerable"}, {first_bad[3]} tricks ({first_bad[4]} down): calc_bid_score = {first_bad[5]}, '
                 f'the Laws give {first_bad[6]}') if first_bad else '')


# --------------------------------------------------------------------------------------------------------------------------------
# R5: calc_score folded on its complete finite domain against the duplicate scoring table (oracle below)
# --------------------------------------------------------------------------------------------------------------------------------
def duplicate_score(level: int, strain: str, doubled: str, vul: bool, tricks: int) -> int:
    """Duplicate-bridge score from declarer's side (Laws of Duplicate Bridge, Law 77)."""
    need = level + 6
    mult = {'none': 1, 'x': 2, 'xx': 4}[doubled]
    if tricks < need:
        return down_oracle(doubled, vul)[need - tricks - 1]
    per = 20 if strain in 'CD' else 30
    contract_points = (per * level + (10 if strain == 'N' else 0)) * mult
    score = contract_points
    score += (500 if vul else 300) if contract_points >= 100 else 50
    if level == 6:
        score += 750 if vul else 500
    elif level == 7:
        score += 1500 if vul else 1000
    score += {'none': 0, 'x': 50, 'xx': 100}[doubled]
    over = tricks - need
    if doubled == 'none':
        score += per * over
    else:
        score += over * (200 if vul else 100) * (2 if doubled == 'xx' else 1)
    return score


def _score_task(arg):
    root, bid_names = arg
    from ..fold import FoldRaise, Folder as F, Unsupported
    from ..index import Repo
    repo = Repo(root)
    f = F(repo, allow_loops=True, max_steps=2_000_000)
    vuls, players = f.members('Vul'), f.members('Player')
    bad, n = [], 0
    try:
        for bn in bid_names:
            b = f.member('Bid', bn)
            level, strain = (b.value - 1) // 5 + 1, 'CDHSN'[(b.value - 1) % 5]
            # a redoubled contract is represented both ways in the package: (x, xx) = (True, True) by the auction engine, (False, True) by hand
            for dbl, (x_, xx_) in (('none', (False, False)), ('x', (True, False)), ('xx', (True, True)), ('xx', (False, True))):
                for v in vuls:
                    for d in players:
                        isvul = v.name == 'BOTH' or v.name == SIDE[d.name]
                        c = f.make('Contract', final_bid=b, x=x_, xx=xx_, vul=v, declarer=d)
                        for t in range(14):
                            n += 1
                            f.steps = 0
                            try:
                                got = ('ok', f.call_function('score', 'calc_score', c, t))
                            except FoldRaise as r:
                                got = ('raise', r.kind)
                            want = duplicate_score(level, strain, dbl, isvul, t)
                            if got != ('ok', want) and len(bad) < 3:
                                bad.append((bn, dbl, v.name, d.name, t, got, want))
    except Unsupported as e:
        return {'error': str(e)[:200], 'bad': [], 'n': n}
    return {'bad': bad, 'n': n}


def complete_domain(chk):
    import os
    from concurrent.futures import ProcessPoolExecutor
    repo = chk.repo
    w, q = floc(repo, 'score', 'calc_score', 'C07.R5')
    f = Folder(repo)
    names = [b.name for b in f.members('Bid')[:35]]
    chunks = [names[i::16] for i in range(16)]
    work = [(repo.root, c) for c in chunks if c]
    if os.environ.get('SA_SERIAL') == '1':
        res = [_score_task(x) for x in work]
    else:
        with ProcessPoolExecutor(max_workers=__import__('sa.rules.common', fromlist=['pool_size']).pool_size(len(work))) as pool:
            res = list(pool.map(_score_task, work))
    n = sum(r['n'] for r in res)
    for r in res:
        if r.get('error'):
            raise AnalysisError('C07.R5', q, f'calc_score left the foldable subset: {r["error"]}')
    bad = [b for r in res for b in r['bad']]
    chk.evals(n)
    chk.floor('C07.R5', 'points of the scoring domain folded', n, 35 * 4 * 4 * 4 * 14)
    b0 = bad[0] if bad else None
    chk.require(not bad, 'C07.R5', w, q, 'calc_score on the complete domain (35 bids x 3 doubling states (redoubled in both representations) x 4 vulnerabilities x 4 declarers x 14 trick counts)',
                f'all {n} points of the domain score what the duplicate scoring table gives, from declarer\'s side and with the vulnerability of declarer\'s side',
                (f'{b0[0]}{"XX" if b0[1] == "xx" else "X" if b0[1] == "x" else ""} by {b0[3]}, board vulnerability {b0[2]}, {b0[4]} tricks: calc_score = {b0[5]}, '
                 f'the duplicate scoring table gives {b0[6]}') if b0 else '')
