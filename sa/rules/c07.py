"""C07 - scoring (partial): which vulnerability is used, how the contract is routed into the table
function, the passed-out short-circuit and the undertrick tables by role.

Not decided here (stated in DESIGN/MANIFEST): the arithmetic of calc_bid_score for each of its
35x3x2x14 inputs - a numeric result that the existing suite already enumerates exhaustively."""
from __future__ import annotations

import ast

from ..fold import Folder
from ..index import AnalysisError
from ..norm import affine
from ..paths import Summarizer
from .c01 import SIDE
from .common import floc, fold_or_error, loc, try_fold


def down_oracle(doubled: str, vul: bool):
    out, tot = [], 0
    for k in range(1, 14):
        if doubled == 'none':
            tot += 100 if vul else 50
        else:
            if vul:
                step = 200 if k == 1 else 300
            else:
                step = 100 if k == 1 else (200 if k in (2, 3) else 300)
            tot += step * (2 if doubled == 'xx' else 1)
        out.append(-tot)
    return tuple(out)


def run(chk):
    repo = chk.repo
    f = Folder(repo)
    chk.explanation = (
        'R1: Contract.is_vul -> Player.is_vul -> Pair.is_vul folded over 4 declarers x 4 board vulnerabilities (x 3 bids) and '
        'compared with the same-side table (vulnerable iff Both, or NS/EW and declarer on that side). R2: in calc_score the '
        'arguments of the table function are traced by reaching definitions to final_bid / x / xx / is_vul() of the same contract '
        'and the trick parameter. R3: passed-out contracts fold to 0 before anything else. R4: the six undertrick tables are '
        'bound to (doubling, vulnerability) by the guards that select them and compared with the closed form of the Laws; the '
        'index is tricks short - 1. The arithmetic of calc_bid_score for individual inputs is NOT decided (runtime values).')
    chk.assumptions.append('calc_bid_score arithmetic per input is pinned by the exhaustive existing test (not decided statically)')
    vuls = f.members('Vul')
    players = f.members('Player')
    bids = f.members('Bid')

    # ---- R1 -----------------------------------------------------------------------------------------------
    w, q = loc(repo, 'Contract', 'is_vul', 'C07.R1')
    for b in (bids[0], bids[19], bids[34]):
        for v in vuls:
            for d in players:
                chk.evals()
                want = v.name == 'BOTH' or v.name == SIDE[d.name]
                c = fold_or_error('C07.R1', 'Contract', lambda: f.make('Contract', final_bid=b, x=False, xx=False, vul=v, declarer=d))
                got = try_fold('C07.R1', q, lambda: f.call_method(c, 'is_vul'))
                chk.require(got == ('ok', want), 'C07.R1', w, q, f'Contract(vul={v.name}, declarer={d.name}).is_vul()',
                            f'declarer {d.name} on a {v.name} board is {"" if want else "not "}vulnerable',
                            f'declarer {d.name}, board vulnerability {v.name}: is_vul() = {got}, the declaring side is '
                            f'{"" if want else "not "}vulnerable')
    w, q = loc(repo, 'Player', 'is_vul', 'C07.R1')
    for d in players:
        for v in vuls:
            want = v.name == 'BOTH' or v.name == SIDE[d.name]
            got = try_fold('C07.R1', q, lambda: f.call_method(d, 'is_vul', v))
            chk.require(got == ('ok', want), 'C07.R1', w, q, f'{d}.is_vul({v})', f'{d.name} vulnerable at {v.name}: {want}',
                        f'{d}.is_vul({v}) = {got}, expected {want}')
    w, q = loc(repo, 'Pair', 'is_vul', 'C07.R1')
    for pr in f.members('Pair'):
        for v in vuls:
            want = v.name == 'BOTH' or v.name == pr.name
            got = try_fold('C07.R1', q, lambda: f.call_method(pr, 'is_vul', v))
            chk.require(got == ('ok', want), 'C07.R1', w, q, f'{pr}.is_vul({v})', f'{pr.name} vulnerable at {v.name}: {want}',
                        f'{pr}.is_vul({v}) = {got}, expected {want}')

    # ---- R2 routing / R3 passed out -----------------------------------------------------------------------
    w, q = floc(repo, 'score', 'calc_score', 'C07.R2')
    m, fn = repo.function('score', 'calc_score', 'C07.R2')
    _, callee = repo.function('score', 'calc_bid_score', 'C07.R2')
    cparams = [a.arg for a in callee.args.args]
    if cparams != ['bid', 'x', 'xx', 'vul', 'taken_trick_num']:
        raise AnalysisError('C07.R2', 'score:calc_bid_score', f'unexpected parameter list {cparams}')
    params = [a.arg for a in fn.args.args]
    if len(params) != 2:
        raise AnalysisError('C07.R2', q, 'calc_score(contract, taken_tricks) expected')
    cp, tp = params
    ps = Summarizer(repo, 'C07.R2').function_paths('score', 'calc_score')
    n_route = 0
    for p in ps:
        if p.end[0] != 'return':
            continue
        v = p.end[1]
        if isinstance(v, ast.Call) and ast.unparse(v.func) == 'calc_bid_score':
            n_route += 1
            got = dict(zip(cparams, v.args))
            got.update({k.arg: k.value for k in v.keywords})
            want = {'bid': f'{cp}.final_bid', 'x': f'{cp}.x', 'xx': f'{cp}.xx', 'vul': f'{cp}.is_vul()', 'taken_trick_num': tp}
            for k, wv in want.items():
                g = ast.unparse(got[k]) if k in got else None
                chk.require(g == wv, 'C07.R2', repo.where(m, p.end[2]), q, f'calc_bid_score({k}={g})',
                            f'{k} is taken from {wv}', f'calc_bid_score receives {k} = `{g}`, expected `{wv}`')
            passed = [c for c in p.conds() if ast.unparse(c.test) == f'{cp}.is_passed_out()' and c.polarity is False]
            chk.require(bool(passed), 'C07.R3', repo.where(m, p.end[2]), q, 'table lookup only for real contracts',
                        'the table function is reached only when the contract is not passed out',
                        'calc_bid_score is reached without the passed-out test')
    chk.floor('C07.R2', 'calls of calc_bid_score in calc_score', n_route, 1)
    for v in vuls:
        for fb in (None, f.member('Bid', 'Pass')):
            for t in (0, 7, 13):
                chk.evals()
                c = f.make('Contract', final_bid=fb, vul=v)
                got = try_fold('C07.R3', q, lambda: f.call_function('score', 'calc_score', c, t))
                chk.require(got == ('ok', 0), 'C07.R3', w, q, f'calc_score(passed out {fb}, {v.name}, {t})',
                            'a passed-out board scores 0', f'passed-out contract ({fb}, {v.name}, {t} tricks) scores {got}')

    # ---- R4 undertrick penalties: the function is folded on its complete "down" domain (35 bids x 3 doubling states x 2
    #      vulnerabilities x every trick count short of the contract) against the closed form of the Laws -------------------------
    w, q = floc(repo, 'score', 'calc_bid_score', 'C07.R4')
    fb = __import__('sa.fold', fromlist=['Folder']).Folder(repo, allow_loops=True, max_steps=2_000_000)
    n_dn = 0
    first_bad = None
    from ..fold import FoldRaise as _FR, Unsupported as _UN
    for b in bids[:35]:
        level = (b.value - 1) // 5 + 1
        for dbl, (x_, xx_) in (('none', (False, False)), ('x', (True, False)), ('xx', (True, True))):
            for isvul in (False, True):
                want = down_oracle(dbl, isvul)
                for taken in range(0, level + 6):
                    n_dn += 1
                    down = level + 6 - taken
                    try:
                        fb.steps = 0
                        got = ('ok', fb.call_function('score', 'calc_bid_score', b, x_, xx_, isvul, taken))
                    except _FR as r_:
                        got = ('raise', r_.kind)
                    except _UN as e_:
                        raise AnalysisError('C07.R4', q, f'calc_bid_score left the foldable subset: {e_}')
                    if got != ('ok', want[down - 1]) and first_bad is None:
                        first_bad = (b, dbl, isvul, taken, down, got, want[down - 1])
    chk.evals(n_dn)
    chk.require(first_bad is None, 'C07.R4', w, q, 'undertrick penalties on the complete down domain',
                f'all {n_dn} (bid, doubling, vulnerability, tricks short) cases score the penalty the Laws give',
                (f'{first_bad[0]} {"redoubled" if first_bad[1] == "xx" else "doubled" if first_bad[1] == "x" else "undoubled"}, '
                 f'{"vulnerable" if first_bad[2] else "not vulnerable"}, {first_bad[3]} tricks ({first_bad[4]} down): calc_bid_score = {first_bad[5]}, '
                 f'the Laws give {first_bad[6]}') if first_bad else '')
