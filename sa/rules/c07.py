"""C07 - scoring (partial): which vulnerability is used, how the contract is routed into the table
function, the passed-out short-circuit and the undertrick tables by role.

Not decided here (stated in DESIGN/MANIFEST): the arithmetic of calc_bid_score for each of its
35x3x2x14 inputs - a numeric result that the existing suite already enumerates exhaustively."""
from __future__ import annotations

import ast

from ..fold import Folder
from ..index import AnalysisError
from ..norm import affine
from ..paths import Summarizer
from .c01 import SIDE
from .common import floc, fold_or_error, loc, try_fold


def down_oracle(doubled: str, vul: bool):
    out, tot = [], 0
    for k in range(1, 14):
        if doubled == 'none':
            tot += 100 if vul else 50
        else:
            if vul:
                step = 200 if k == 1 else 300
            else:
                step = 100 if k == 1 else (200 if k in (2, 3) else 300)
            tot += step * (2 if doubled == 'xx' else 1)
        out.append(-tot)
    return tuple(out)


def run(chk):
    repo = chk.repo
    f = Folder(repo)
    chk.explanation = (
        'R1: Contract.is_vul -> Player.is_vul -> Pair.is_vul folded over 4 declarers x 4 board vulnerabilities (x 3 bids) and '
        'compared with the same-side table (vulnerable iff Both, or NS/EW and declarer on that side). R2: in calc_score the '
        'arguments of the table function are traced by reaching definitions to final_bid / x / xx / is_vul() of the same contract '
        'and the trick parameter. R3: passed-out contracts fold to 0 before anything else. R4: the six undertrick tables are '
        'bound to (doubling, vulnerability) by the guards that select them and compared with the closed form of the Laws; the '
        'index is tricks short - 1. The arithmetic of calc_bid_score for individual inputs is NOT decided (runtime values).')
    chk.assumptions.append('calc_bid_score arithmetic per input is pinned by the exhaustive existing test (not decided statically)')
    vuls = f.members('Vul')
    players = f.members('Player')
    bids = f.members('Bid')

    # ---- R1 -----------------------------------------------------------------------------------------------
    w, q = loc(repo, 'Contract', 'is_vul', 'C07.R1')
    for b in (bids[0], bids[19], bids[34]):
        for v in vuls:
            for d in players:
                chk.evals()
                want = v.name == 'BOTH' or v.name == SIDE[d.name]
                c = fold_or_error('C07.R1', 'Contract', lambda: f.make('Contract', final_bid=b, x=False, xx=False, vul=v, declarer=d))
                got = try_fold('C07.R1', q, lambda: f.call_method(c, 'is_vul'))
                chk.require(got == ('ok', want), 'C07.R1', w, q, f'Contract(vul={v.name}, declarer={d.name}).is_vul()',
                            f'declarer {d.name} on a {v.name} board is {"" if want else "not "}vulnerable',
                            f'declarer {d.name}, board vulnerability {v.name}: is_vul() = {got}, the declaring side is '
                            f'{"" if want else "not "}vulnerable')
    w, q = loc(repo, 'Player', 'is_vul', 'C07.R1')
    for d in players:
        for v in vuls:
            want = v.name == 'BOTH' or v.name == SIDE[d.name]
            got = try_fold('C07.R1', q, lambda: f.call_method(d, 'is_vul', v))
            chk.require(got == ('ok', want), 'C07.R1', w, q, f'{d}.is_vul({v})', f'{d.name} vulnerable at {v.name}: {want}',
                        f'{d}.is_vul({v}) = {got}, expected {want}')
    w, q = loc(repo, 'Pair', 'is_vul', 'C07.R1')
    for pr in f.members('Pair'):
        for v in vuls:
            want = v.name == 'BOTH' or v.name == pr.name
            got = try_fold('C07.R1', q, lambda: f.call_method(pr, 'is_vul', v))
            chk.require(got == ('ok', want), 'C07.R1', w, q, f'{pr}.is_vul({v})', f'{pr.name} vulnerable at {v.name}: {want}',
                        f'{pr}.is_vul({v}) = {got}, expected {want}')

    # ---- R2 routing / R3 passed out -----------------------------------------------------------------------
    w, q = floc(repo, 'score', 'calc_score', 'C07.R2')
    m, fn = repo.function('score', 'calc_score', 'C07.R2')
    _, callee = repo.function('score', 'calc_bid_score', 'C07.R2')
    cparams = [a.arg for a in callee.args.args]
    if cparams != ['bid', 'x', 'xx', 'vul', 'taken_trick_num']:
        raise AnalysisError('C07.R2', 'score:calc_bid_score', f'unexpected parameter list {cparams}')
    params = [a.arg for a in fn.args.args]
    if len(params) != 2:
        raise AnalysisError('C07.R2', q, 'calc_score(contract, taken_tricks) expected')
    cp, tp = params
    ps = Summarizer(repo, 'C07.R2').function_paths('score', 'calc_score')
    n_route = 0
    for p in ps:
        if p.end[0] != 'return':
            continue
        v = p.end[1]
        if isinstance(v, ast.Call) and ast.unparse(v.func) == 'calc_bid_score':
            n_route += 1
            got = dict(zip(cparams, v.args))
            got.update({k.arg: k.value for k in v.keywords})
            want = {'bid': f'{cp}.final_bid', 'x': f'{cp}.x', 'xx': f'{cp}.xx', 'vul': f'{cp}.is_vul()', 'taken_trick_num': tp}
            for k, wv in want.items():
                g = ast.unparse(got[k]) if k in got else None
                chk.require(g == wv, 'C07.R2', repo.where(m, p.end[2]), q, f'calc_bid_score({k}={g})',
                            f'{k} is taken from {wv}', f'calc_bid_score receives {k} = `{g}`, expected `{wv}`')
            passed = [c for c in p.conds() if ast.unparse(c.test) == f'{cp}.is_passed_out()' and c.polarity is False]
            chk.require(bool(passed), 'C07.R3', repo.where(m, p.end[2]), q, 'table lookup only for real contracts',
                        'the table function is reached only when the contract is not passed out',
                        'calc_bid_score is reached without the passed-out test')
    chk.floor('C07.R2', 'calls of calc_bid_score in calc_score', n_route, 1)
    for v in vuls:
        for fb in (None, f.member('Bid', 'Pass')):
            for t in (0, 7, 13):
                chk.evals()
                c = f.make('Contract', final_bid=fb, vul=v)
                got = try_fold('C07.R3', q, lambda: f.call_function('score', 'calc_score', c, t))
                chk.require(got == ('ok', 0), 'C07.R3', w, q, f'calc_score(passed out {fb}, {v.name}, {t})',
                            'a passed-out board scores 0', f'passed-out contract ({fb}, {v.name}, {t} tricks) scores {got}')

    # ---- R4 undertrick tables by role ------------------------------------------------------------------------
    w, q = floc(repo, 'score', 'calc_bid_score', 'C07.R4')
    tables = {n: tuple(e.value if isinstance(e, ast.Constant) else (-e.operand.value) for e in v.elts)
              for n, v in m.constants.items() if isinstance(v, ast.Tuple) and len(v.elts) == 13 and
              all(isinstance(e, ast.UnaryOp) and isinstance(e.op, ast.USub) and isinstance(e.operand, ast.Constant) or
                  isinstance(e, ast.Constant) for e in v.elts)}
    bps = Summarizer(repo, 'C07.R4').function_paths('score', 'calc_bid_score')
    seen = {}
    for p in bps:
        if p.end[0] != 'return' or p.end[1] is None:
            continue
        v = p.end[1]
        subs = [n for n in ast.walk(v) if isinstance(n, ast.Subscript) and isinstance(n.value, ast.Name) and n.value.id in tables]
        if not subs:
            continue
        val = {}
        for c in p.conds():
            t = ast.unparse(c.test)
            if t in ('x', 'xx'):
                val[t] = c.polarity
        dbl = 'xx' if val.get('xx') else ('x' if val.get('x') else ('none' if val.get('xx') is False and val.get('x') is False else None))
        if dbl is None:
            raise AnalysisError('C07.R4', q, f'cannot bind doubling state for undertrick return `{ast.unparse(v)[:60]}`')
        if isinstance(v, ast.IfExp) and ast.unparse(v.test) == 'vul':
            arms = [(True, v.body), (False, v.orelse)]
        elif isinstance(v, ast.Subscript):
            vv = [c.polarity for c in p.conds() if ast.unparse(c.test) == 'vul']
            if len(vv) != 1:
                raise AnalysisError('C07.R4', q, 'cannot bind vulnerability for an undertrick return')
            arms = [(vv[0], v)]
        else:
            raise AnalysisError('C07.R4', q, f'unrecognised undertrick return `{ast.unparse(v)[:60]}`')
        for isvul, arm in arms:
            if not (isinstance(arm, ast.Subscript) and isinstance(arm.value, ast.Name) and arm.value.id in tables):
                raise AnalysisError('C07.R4', q, f'unrecognised undertrick arm `{ast.unparse(arm)}`')
            name = arm.value.id
            seen[(dbl, isvul)] = name
            want = down_oracle(dbl, isvul)
            chk.require(tables[name] == want, 'C07.R4', repo.where(m, m.constants[name]), f'score:{name}',
                        f'{name} used for doubling={dbl}, vulnerable={isvul}',
                        f'undertrick penalties for doubling={dbl}, vulnerable={isvul} follow the Laws',
                        f'{name} (selected when doubling={dbl}, vulnerable={isvul}) = {tables[name][:5]}..., the Laws give {want[:5]}...')
            a = affine(arm.slice)
            wantidx = ({'bid.level': 1, 'taken_trick_num': -1}, 5)
            chk.require(a == wantidx, 'C07.R4', repo.where(m, p.end[2]), q, f'{name}[{ast.unparse(arm.slice)}]',
                        'the penalty is indexed by tricks short minus one', f'index `{ast.unparse(arm.slice)}` is not level+6-tricks-1')
    chk.floor('C07.R4', 'undertrick (doubling, vulnerability) -> table bindings', len(seen), 6)
