"""C13 - an aborted session still leaves a well-formed log of the completed boards.

Typestate of the streaming log writer on Server.run (open -> write* -> close on EVERY exit, normal
or exceptional), decided by a syntax-directed walk: the writer must be released by a construct that
covers the exceptional edges (a `with` item whose __exit__ must-calls close(), or a try/finally)."""
from __future__ import annotations

import ast

from ..index import AnalysisError, parent
from ..paths import Summarizer
from .common import loc


def ancestors(n):
    out = []
    p = parent(n)
    while p is not None:
        out.append(p)
        p = parent(p)
    return out


def stmt_of(n):
    while n is not None and not isinstance(n, ast.stmt):
        n = parent(n)
    return n


def is_subclass(repo, cls_name, base):
    if not repo.has_cls(cls_name):
        return False
    return any(c.name == base for c in repo.mro(repo.cls(cls_name)))


def run(chk):
    """Two deciders.  R6: abstract sessions (communication skeleton: the real Server.run / bidding_phase / playing_phase, seat threads and
    clients, the real JsonWriter open / _write_content / close on an abstract file) of three boards in which board k is hit by every kind of
    offending action (call the engine answers ILLEGAL, unparseable call, card the engine refuses, unparseable card) or by the operator's
    interrupt, at the first / a middle / the last call or card: the table manager must stop, and the file it leaves must be one JSON document
    with exactly the k-1 finished boards, closed.  R1-R5: the structural typestate rules below, for ALL abort points; a shape they do not
    recognise is recorded, not an error, as long as R6 decides."""
    from . import session as SS
    res = SS.run_family(chk, ['abort'], fam=SS.abort_family(chk.tier))
    SS.record(chk, res)
    from .jsonfile import envelope_rule
    envelope_rule(chk, 'C13.R2')
    chk.floor('C13.R6', 'aborted sessions evaluated', len(res), 12)
    try:
        structural(chk)
    except AnalysisError as e:
        if chk.findings:
            raise
        chk.note(f'structural rules not evaluated ({e.rule} at {e.anchor}: {e.why[:200]}); the verdict rests on the aborted abstract sessions (R6) only')
        chk.explanation = 'The structural typestate rules could not bind this shape of Server.run and were not evaluated.'
    chk.explanation = ('R6: abstract sessions of three boards on the communication skeleton (the real Server.run, bidding_phase, playing_phase, seat threads, '
                       'clients and the real JsonWriter open / _write_content / close on an abstract file; engines and texts are stubs) in which board k = 1..3 is '
                       'hit by an offending action - a call the engine answers ILLEGAL, an unparseable call, a card the engine refuses (not held / out of turn), '
                       'an unparseable card - or by the operator\'s KeyboardInterrupt, at the first, a middle and the last call / card: the table manager stops, '
                       'the output file is one parseable JSON document holding exactly the k-1 finished boards, and it is closed.  ' + chk.explanation)


def structural(chk):
    repo = chk.repo
    chk.explanation = (
        'Typestate of the JSON log writer in Server.run by a syntax-directed walk: the writer instance must be released on '
        'every exit - as a `with` item (then JsonWriter.__enter__ must open and __exit__ must call close() on all its paths and '
        'not swallow the exception) or by close() in a finally that covers every statement after open(); explicit open()/close() '
        'as plain statements with raising statements in between is the recognised-and-wrong shape. The output file is itself '
        'with-managed and entered before the writer. close() writes the closing literal on every path; _write_content calls '
        'json.dumps before its first stream write (no partial record); the per-board write is the last phase of the loop body; '
        'no handler in the session code that swallows the abort.')
    S = Summarizer(repo, 'C13')
    sm = repo.module('network_bridge.server', 'C13')
    w_run, q_run = loc(repo, 'Server', 'run', 'C13.R1')
    _, run_fn = repo.method('Server', 'run', 'C13.R1')

    # ---- R1 ------------------------------------------------------------------------------------------------
    ctors = [n for n in ast.walk(run_fn) if isinstance(n, ast.Call) and isinstance(n.func, ast.Name)
             and is_subclass(repo, n.func.id, 'JsonWriter')]
    chk.floor('C13.R1', 'log writer instances in Server.run', len(ctors), 1)
    for c in ctors:
        par = parent(c)
        where = repo.where(sm, c)
        if isinstance(par, ast.withitem):
            wnode = parent(par)
            name = par.optional_vars.id if isinstance(par.optional_vars, ast.Name) else None
            chk.ok('C13.R1', where, f'log writer `{name}` is a with-item: released on every exit of the block')
            # the stream it writes to must be a with-managed file entered before it
            arg = c.args[0] if c.args else None
            managed = False
            if isinstance(arg, ast.Name):
                for a in [wnode] + [x for x in ancestors(wnode) if isinstance(x, ast.With)]:
                    for it in a.items:
                        if isinstance(it.optional_vars, ast.Name) and it.optional_vars.id == arg.id and \
                                isinstance(it.context_expr, ast.Call) and ast.unparse(it.context_expr.func) == 'open':
                            if a is not wnode or a.items.index(it) < a.items.index(par):
                                managed = True
            chk.require(managed, 'C13.R1', where, q_run, ast.unparse(c),
                        'the output file is with-managed and entered before (closed after) the log writer',
                        f'the stream `{ast.unparse(arg) if arg is not None else None}` handed to the log writer is not a with-managed file '
                        'entered before the writer (closing brackets could be lost / written after close)')
            # the stream IS the configured output file: what an abort leaves behind must be at the path the operator asked for
            opens = [it for a in [wnode] + [x for x in ancestors(wnode) if isinstance(x, ast.With)] for it in a.items
                     if isinstance(it.optional_vars, ast.Name) and isinstance(arg, ast.Name) and it.optional_vars.id == arg.id and isinstance(it.context_expr, ast.Call)]
            if opens:
                oc = opens[0].context_expr
                pexpr = oc.args[0] if oc.args else None
                defs = [n.value for n in ast.walk(run_fn) if isinstance(n, ast.Assign) and len(n.targets) == 1 and isinstance(n.targets[0], ast.Name)
                        and isinstance(pexpr, ast.Name) and n.targets[0].id == pexpr.id]
                ptxt = ast.unparse(defs[0]) if len(defs) == 1 else (ast.unparse(pexpr) if pexpr is not None else None)
                chk.require(ptxt == 'self.output_file_path', 'C13.R1', repo.where(sm, oc), q_run, f'log stream opened on `{ptxt}`',
                            'the log is written directly to the configured output file',
                            f'the log is written to `{ptxt}`, not to `self.output_file_path`: after an abort the configured output file does not exist (or is a stale '
                            f'earlier log), although the completed boards were written somewhere else')
                movers = [n for n in ast.walk(run_fn) if isinstance(n, ast.Call) and ast.unparse(n.func) in ('os.replace', 'os.rename', 'shutil.move', 'shutil.copy', 'shutil.copyfile',
                                                                                                            'os.remove', 'os.unlink')
                          or (isinstance(n, ast.Call) and isinstance(n.func, ast.Attribute) and n.func.attr in ('rename', 'replace', 'unlink') and 'path' in ast.unparse(n.func.value).lower())]
                chk.require(not movers, 'C13.R1', repo.where(sm, movers[0]) if movers else where, q_run, 'output file moved / removed in Server.run',
                            'Server.run does not move, replace or delete log files',
                            f'`{ast.unparse(movers[0])[:70] if movers else ""}`: the log reaches its final place only on the path through this call - an abort before it leaves '
                            f'the configured output file missing or stale')
            # every use of the writer lies inside the with body
            if name:
                outside = [n for n in ast.walk(run_fn) if isinstance(n, ast.Name) and n.id == name and isinstance(n.ctx, ast.Load)
                           and wnode not in ancestors(n)]
                chk.require(not outside, 'C13.R1', where, q_run, f'uses of {name} outside its with block',
                            'the writer is used only while open', f'`{name}` is used outside its with block at line {outside[0].lineno if outside else 0}')
                explicit = [n for n in ast.walk(wnode) if isinstance(n, ast.Call) and isinstance(n.func, ast.Attribute) and
                            isinstance(n.func.value, ast.Name) and n.func.value.id == name and n.func.attr in ('open', 'close')]
                chk.require(not explicit, 'C13.R1', where, q_run, f'explicit {name}.open()/close() inside with',
                            'the with-managed writer is not opened/closed a second time',
                            f'`{ast.unparse(explicit[0]) if explicit else ""}` duplicates the envelope written by the with statement')
        elif isinstance(par, ast.Assign) and len(par.targets) == 1 and isinstance(par.targets[0], ast.Name):
            name = par.targets[0].id
            calls = [n for n in ast.walk(run_fn) if isinstance(n, ast.Call) and isinstance(n.func, ast.Attribute) and
                     isinstance(n.func.value, ast.Name) and n.func.value.id == name]
            opens = [n for n in calls if n.func.attr == 'open']
            closes = [n for n in calls if n.func.attr == 'close']
            if not opens or not closes:
                chk.fail('C13.R1', where, q_run, ast.unparse(par), f'log writer `{name}` is opened {len(opens)}x and closed {len(closes)}x in Server.run')
                continue
            # close must sit in a finally whose try covers everything after open()
            ok = False
            for cl in closes:
                st = stmt_of(cl)
                for a in ancestors(st):
                    if isinstance(a, ast.Try) and st in a.finalbody:
                        open_st = stmt_of(opens[0])
                        blk = parent(a)
                        # open() must be the statement right before the try (or inside nothing that can raise in between)
                        for fld in ('body', 'orelse', 'finalbody'):
                            seq = getattr(blk, fld, None)
                            if isinstance(seq, list) and a in seq and open_st in seq and seq.index(open_st) < seq.index(a):
                                between = seq[seq.index(open_st) + 1: seq.index(a)]
                                if not any(isinstance(x, ast.Call) for b in between for x in ast.walk(b)):
                                    ok = True
            chk.require(ok, 'C13.R1', repo.where(sm, closes[0]), q_run, f'{name}.open() ... {name}.close()',
                        'the log writer is closed on every exit (normal and exceptional)',
                        f'`{name}.close()` is a plain statement after the board loop: any exception raised between `{name}.open()` '
                        f'and it (illegal call, unparseable message, card not held, KeyboardInterrupt) skips it and leaves the log '
                        f'without its closing brackets')
        else:
            raise AnalysisError('C13.R1', q_run, f'log writer constructed in an unrecognised position: `{ast.unparse(stmt_of(c))[:70]}`')

    # ---- R2 / R3: the writer's envelope (__enter__ / _write_content / __exit__, normal and exceptional, with a record that cannot be
    #      serialised at every position) is decided by folding the real writer on an analyser stream: jsonfile.envelope_rule, called from run()
    # the per-board write is a direct statement of the board loop, after both phases
    loops = [n for n in ast.walk(run_fn) if isinstance(n, ast.For)]
    wcalls = [n for n in ast.walk(run_fn) if isinstance(n, ast.Call) and isinstance(n.func, ast.Attribute) and n.func.attr == 'write'
              and isinstance(n.func.value, ast.Name) and any(isinstance(parent(c), ast.withitem) and isinstance(parent(c).optional_vars, ast.Name)
                                                              and parent(c).optional_vars.id == n.func.value.id or
                                                              isinstance(parent(c), ast.Assign) and isinstance(parent(c).targets[0], ast.Name)
                                                              and parent(c).targets[0].id == n.func.value.id for c in ctors)]
    chk.floor('C13.R3', 'record writes in Server.run', len(wcalls), 1)
    for wc_ in wcalls:
        st = stmt_of(wc_)
        loop = parent(st)
        good = isinstance(loop, ast.For) and st in loop.body
        phases_before = False
        if good:
            before = loop.body[:loop.body.index(st)]
            after = loop.body[loop.body.index(st) + 1:]
            names = {ast.unparse(n.func) for b in before for n in ast.walk(b) if isinstance(n, ast.Call)}
            names_after = {ast.unparse(n.func) for b in after for n in ast.walk(b) if isinstance(n, ast.Call)}
            phases_before = {'self.bidding_phase', 'self.playing_phase', 'self.deal'} <= names and \
                not ({'self.bidding_phase', 'self.playing_phase', 'self.deal'} & names_after)
        if not (good and phases_before):
            # this reading knows one arrangement (deal / auction / play as statements of the loop body, then the write); the phases behind a helper
            # or a result object are not judged here: R6 decides on aborted sessions (exactly the k-1 finished boards are in the log)
            raise AnalysisError('C13.R3', q_run, 'the per-board write is not preceded by the three phase calls as statements of the same loop body: not judged structurally (R6 decides)')
        chk.require(good and phases_before, 'C13.R3', repo.where(sm, wc_), q_run, 'per-board record write',
                    'each board is written once, as a whole, after its deal, auction and play',
                    'the record write is not the closing step of the board loop body: an abort inside a board could leave that board in the log')

    # ---- R4: errors are not swallowed; ILLEGAL leads to raise -----------------------------------------------------
    session = [('Server', m) for m in ('run', 'deal', 'bidding_phase', 'playing_phase', '_sync_event')]
    n = 0
    for cls, meth in session:
        c, fn = repo.method(cls, meth, 'C13.R4')
        n += 1
        # a handler that can swallow the abort: catches everything / Exception / BaseException / KeyboardInterrupt and does not re-raise
        def swallows(h):
            names = [ast.unparse(x).split('.')[-1] for x in (h.type.elts if isinstance(h.type, ast.Tuple) else [h.type])] if h.type is not None else ['BaseException']
            broad = any(x in ('Exception', 'BaseException', 'KeyboardInterrupt') for x in names)
            reraises = any(isinstance(x, ast.Raise) for st_ in h.body for x in ast.walk(st_))
            return broad and not reraises
        tries = [t for t in ast.walk(fn) if isinstance(t, ast.Try) and any(swallows(h) for h in t.handlers)]
        chk.require(not tries, 'C13.R4', repo.where(c.module, tries[0]) if tries else repo.where(c.module, fn), f'{cls}.{meth}',
                    f'except handler in {cls}.{meth}', f'{cls}.{meth} has no except handler (errors abort the session)',
                    f'{cls}.{meth} catches exceptions: an offending action would not abort the session / could be half applied')
    chk.instances('C13.R4', n)
    # (that the ILLEGAL answer of take_bid stops the session is decided on the abstract sessions, R6 - not by the shape of the test)
    # parsers raise on malformed input rather than returning None
    for meth in ('parse_bid', 'parse_card', 'parse_match_base'):
        w, q = loc(repo, 'MessageInterface', meth, 'C13.R4')
        ps = S.paths('MessageInterface', meth)
        falls = [p for p in ps if p.end[0] == 'fall' or (p.end[0] == 'return' and (p.end[1] is None or (isinstance(p.end[1], ast.Constant) and p.end[1].value is None)))]
        chk.require(not falls, 'C13.R4', w, q, f'{meth} paths', f'{meth} returns a value or raises on every path',
                    f'{meth} can return None (path `{falls[0].describe()[-60:] if falls else ""}`): a malformed message would not abort')
