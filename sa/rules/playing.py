"""Shared machinery for C04-C06, C11: path summaries of the play engine evaluated under abstract
valuations (seats, trick length, winner indices, possession)."""
from __future__ import annotations

import ast
from typing import Dict, List, Optional

from ..fold import EV, NOVALUE, Folder, PartialEvaluator
from ..index import AnalysisError
from ..norm import ev3, formula
from ..paths import Path, Summarizer, attr_key

BASE = 'PlayingPhase'


class Tok:
    """Opaque abstract value (a card, a hand)."""

    def __init__(self, what):
        self.what = what

    def __eq__(self, o):
        return isinstance(o, Tok) and o.what == self.what

    def __hash__(self):
        return hash(('Tok', self.what))

    def __repr__(self):
        return f'<{self.what}>'


class Playing:
    def __init__(self, chk, rule: str):
        self.chk, self.repo, self.rule = chk, chk.repo, rule
        self.f = Folder(self.repo, allow_loops=True)
        self.summ = Summarizer(self.repo, rule)
        self.ci, self.play_card = self.repo.method(BASE, 'play_card', rule)
        self.mod = self.ci.module
        self.players = self.f.members('Player')
        self.suits = self.f.members('Suit')
        self.pairs = self.f.members('Pair')
        args = [a.arg for a in self.play_card.args.args]
        if len(args) != 2:
            raise AnalysisError(rule, f'{BASE}.play_card', 'expected play_card(self, card)')
        self.cardp = args[1]
        # trick-cards role: the list the played card is appended to in play_card
        cands = set()
        for p in self.summ.paths(BASE, 'play_card', allow_truncated=True):
            for e in p.events:
                if e.kind == 'call' and e.method in ('append', 'insert') and any(ast.unparse(a) == self.cardp for a in e.args):
                    rn = ast.parse(e.recv, mode='eval').body
                    if attr_key(rn):
                        cands.add(attr_key(rn))
        if len(cands) != 1:
            raise AnalysisError(rule, f'{BASE}.play_card', f'cannot bind the current-trick list ({cands})')
        self.trick = cands.pop()

    def step(self, seat: EV, prop: str, n: int) -> EV:
        for _ in range(n):
            seat = self.f.call_method(seat, prop)
        return seat

    def evaluator(self, st: Dict[str, object], cardp: Optional[str] = None, playerp: Optional[str] = None) -> PartialEvaluator:
        """st keys: card, player, leader, active, trick_num, trump, declarer, dummy, me, len, trump_idx, led_idx,
        holds {seat_name: bool}, dummy_known, attrs {attr: value}"""
        cardp = cardp or self.cardp
        box = []
        selfmap = {'self.leader': 'leader', 'self.active_player': 'active', 'self.trick_num': 'trick_num',
                   'self.trump': 'trump', 'self.declarer': 'declarer', 'self.dummy': 'dummy', 'self._player': 'me'}

        def hand_of(node):
            """Tok(('hand', seat)) for an expression denoting a hand, else NOVALUE."""
            pe = box[0]
            k = attr_key(node)
            if k == 'self._hand' and 'me' in st:
                return Tok(('hand', st['me'].name))
            if k == 'self._dummy_hand' and 'dummy' in st:
                return Tok(('hand', st['dummy'].name)) if st.get('dummy_known', True) else None
            if isinstance(node, ast.Subscript) and attr_key(node.value) == 'self.hands':
                s = pe.eval(node.slice)
                if isinstance(s, EV):
                    return Tok(('hand', s.name))
            return NOVALUE

        def m(node):
            pe = box[0]
            if isinstance(node, ast.Name):
                if node.id == cardp and 'card' in st:
                    return st['card']
                if playerp and node.id == playerp and 'player' in st:
                    return st['player']
                if node.id in st.get('locals', {}):
                    return st['locals'][node.id]
                return NOVALUE
            k = attr_key(node)
            if k is not None:
                if k in selfmap and selfmap[k] in st:
                    return st[selfmap[k]]
                h = hand_of(node)
                if h is not NOVALUE:
                    return h
                if k in st.get('attrs', {}):
                    return st['attrs'][k]
                return NOVALUE
            if isinstance(node, ast.Subscript):
                h = hand_of(node)
                if h is not NOVALUE:
                    return h
                if attr_key(node.value) == self.trick and not isinstance(node.slice, ast.Slice):
                    i = pe.eval(node.slice)
                    if i is not NOVALUE:
                        return Tok(('trick_card', i))
                return NOVALUE
            if isinstance(node, ast.Attribute) and node.attr == 'suit':
                v = pe.eval(node.value)
                if isinstance(v, Tok) and v.what[0] == 'trick_card':
                    return Tok(('suit_of_trick_card', v.what[1]))
                return NOVALUE
            if isinstance(node, ast.Call):
                fn = node.func
                if isinstance(fn, ast.Name) and fn.id == 'len' and len(node.args) == 1 and attr_key(node.args[0]) == self.trick \
                        and 'len' in st:
                    return st['len']
                if isinstance(fn, ast.Name) and fn.id == '__repeat__':
                    n = pe.eval(node.args[0])
                    init = pe.eval(node.args[2])
                    steptext = node.args[1].value
                    stepnode = ast.parse(steptext, mode='eval').body
                    if isinstance(n, int) and isinstance(init, EV) and isinstance(stepnode, ast.Attribute) and 0 <= n <= 8:
                        try:
                            return self.step(init, stepnode.attr, n)
                        except Exception:  # noqa
                            return NOVALUE
                    return NOVALUE
                if isinstance(fn, ast.Attribute) and fn.attr == 'calc_highest' and len(node.args) == 2 and 'trump_idx' in st:
                    a0 = pe.eval(node.args[0])
                    if attr_key(node.args[1]) != self.trick and ast.unparse(node.args[1]) != self.trick:
                        return NOVALUE
                    if isinstance(a0, EV) and a0 == st.get('trump'):
                        return st['trump_idx']
                    if isinstance(a0, Tok) and a0.what[0] == 'suit_of_trick_card':
                        if a0.what[1] == 0:
                            return st['led_idx']
                        return st.get('other_idx', NOVALUE)
                    return NOVALUE
                return NOVALUE
            if isinstance(node, ast.Compare) and len(node.ops) == 1 and isinstance(node.ops[0], (ast.In, ast.NotIn)) \
                    and 'holds' in st:
                left = pe.eval(node.left)
                right = pe.eval(node.comparators[0])
                if isinstance(left, Tok) and left.what == 'card' and isinstance(right, Tok) and right.what[0] == 'hand':
                    r = st['holds'].get(right.what[1])
                    if r is None:
                        return NOVALUE
                    return r if isinstance(node.ops[0], ast.In) else (not r)
                return NOVALUE
            return NOVALUE
        pe = PartialEvaluator(self.f, self.mod, [m])
        box.append(pe)
        return pe

    @staticmethod
    def consistent(p: Path, pe: PartialEvaluator) -> bool:
        for c in p.conds():
            fm = getattr(c, '_formula', None)
            if fm is None:
                fm = c._formula = formula(c.test)
            v = ev3(fm, pe.truth)
            if v is not None and v != c.polarity:
                return False
        if p.truncated:
            raise AnalysisError('paths', 'loop bound', f'`{ast.unparse(p.end[2])[:50]}` runs more often than the path summariser unrolls '
                                                       'in a state the rule evaluates')
        return True

    @staticmethod
    def post(p: Path, attr: str, pe: PartialEvaluator):
        e = p.env.get(attr)
        if e is None:
            e = ast.parse(attr, mode='eval').body
        return pe.eval(e)
