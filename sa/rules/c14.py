"""C14 - every deal survives every encoding round trip (partial: decided on a covering family of
deal shapes, not for each of the 5.4e28 deals)."""
from __future__ import annotations

import ast
import itertools

from ..fold import DV, EV, Folder, FoldRaise, Unsupported
from ..index import AnalysisError, parent
from .common import floc, loc, try_fold

RANK = {10: 'T', 11: 'J', 12: 'Q', 13: 'K', 14: 'A'}
SEATS = ['N', 'E', 'S', 'W']
FIELD = {'N': 'north', 'E': 'east', 'S': 'south', 'W': 'west'}
PBN_SUITS = ['S', 'H', 'D', 'C']

MATRICES = {
    'balanced': [[4, 3, 3, 3], [3, 4, 3, 3], [3, 3, 4, 3], [3, 3, 3, 4]],
    'one void each (1st suit)': [[0, 5, 4, 4], [4, 0, 5, 4], [4, 4, 0, 5], [5, 4, 4, 0]],
    'one void each (2nd)': [[5, 0, 4, 4], [4, 5, 0, 4], [4, 4, 5, 0], [0, 4, 4, 5]],
    'double voids': [[7, 6, 0, 0], [6, 7, 0, 0], [0, 0, 7, 6], [0, 0, 6, 7]],
    'single-suit hands': [[13, 0, 0, 0], [0, 13, 0, 0], [0, 0, 13, 0], [0, 0, 0, 13]],
    'single-suit hands shifted': [[0, 13, 0, 0], [0, 0, 13, 0], [0, 0, 0, 13], [13, 0, 0, 0]],
    'freak': [[10, 1, 1, 1], [1, 10, 1, 1], [1, 1, 10, 1], [1, 1, 1, 10]],
}


def build_deals(f: Folder):
    suits = {s: f.member('Suit', s) for s in PBN_SUITS}
    out = []
    for name, m in MATRICES.items():
        for rev in (False, True):
            hands = {s: set() for s in SEATS}
            for j, su in enumerate(PBN_SUITS):
                ranks = list(range(14, 1, -1))
                if rev:
                    ranks.reverse()
                pos = 0
                for i, seat in enumerate(SEATS):
                    for r in ranks[pos:pos + m[i][j]]:
                        hands[seat].add(f.make('Card', rank=r, suit=suits[su]))
                    pos += m[i][j]
            out.append((name + (' (low cards first)' if rev else ''), hands))
    # partial deals: some hands unknown / empty
    base = out[0][1]
    for empty in (('S', 'W'), ('N',), ('N', 'E', 'S'), ('N', 'E', 'S', 'W')):
        out.append((f'partial: {"".join(empty)} empty', {s: (set() if s in empty else set(base[s])) for s in SEATS}))
    return out


def pbn_oracle(hands, first: str) -> str:
    parts = []
    i = SEATS.index(first)
    for k in range(4):
        h = hands[SEATS[(i + k) % 4]]
        if not h:
            parts.append('-')
            continue
        parts.append('.'.join(''.join(RANK.get(c.fields['rank'], str(c.fields['rank']))
                                      for c in sorted((c for c in h if c.fields['suit'].name == su),
                                                      key=lambda c: -c.fields['rank'])) for su in PBN_SUITS))
    return f'{first}:' + ' '.join(parts)


def idx(c) -> int:
    return c.fields['rank'] - 2 + 13 * (c.fields['suit'].value - 1)


def same_hands(obj, hands) -> bool:
    return isinstance(obj, DV) and all(set(obj.fields.get(FIELD[s], ())) == hands[s] for s in SEATS)


def run(chk):
    repo = chk.repo
    f = Folder(repo, allow_loops=True, max_steps=400000)
    chk.explanation = (
        'PARTIAL. Encoders and decoders (Hands.to_pbn/convert_pbn, to_binary/convert_binary, writer.convert_deal / '
        'parser.hands_parser) are folded inside the analyser on a covering family of deal shapes - every suit-length pattern '
        'class that the code can distinguish: balanced, a void in each suit position, double voids, 13-card suits, freaks, high '
        'and low cards swapped, partial deals with 1-4 empty hands - x all four first seats; the encoder text/vector is compared '
        'with the canonical form (oracle in this checker) and the decoded hands with the original sets. The numpy pair (to_np_binary / '
        'convert_np_binary) is folded the same way on a model of numpy\'s one-dimensional arrays (sa.npstub: zeros/where/index and '
        'mask reads and writes with numpy\'s documented semantics; numpy itself is never run) for four dtypes (default, float32, int8, bool). generate_random_hands: the pack is only shuffled and sliced, so the four constant slices are evaluated under '
        'three different permutations: 4 disjoint 13-card hands covering the 52 cards. NOT decided: equality for each individual '
        'deal (runtime value); the family covers the shapes, the rank tables are C15.')
    chk.assumptions.append('cards are treated uniformly by the encoders (per-card comprehension / loop), so deal *shapes* are the relevant classes')
    deals = build_deals(f)
    chk.floor('C14.R1', 'deal shapes in the covering family', len(deals), 14)
    w_tp, q_tp = loc(repo, 'Hands', 'to_pbn', 'C14.R1')
    w_cp, q_cp = loc(repo, 'Hands', 'convert_pbn', 'C14.R1')
    w_tb, q_tb = loc(repo, 'Hands', 'to_binary', 'C14.R2')
    w_cb, q_cb = loc(repo, 'Hands', 'convert_binary', 'C14.R2')
    w_cd, q_cd = floc(repo, 'data_handler.json_handler.writer', 'convert_deal', 'C14.R3')
    w_hp, q_hp = floc(repo, 'data_handler.json_handler.parser', 'hands_parser', 'C14.R3')
    players = {p.name: p for p in f.members('Player')}

    def fold(rule, q, thunk):
        try:
            return ('ok', thunk())
        except FoldRaise as r:
            return ('raise', r.kind)
        except Unsupported as e:
            raise AnalysisError(rule, q, f'left the foldable subset: {e}')

    for name, hands in deals:
        H = fold('C14.R1', 'Hands', lambda: f.call_class('Hands', '__call__') if False else
                 f._construct(repo.cls('Hands'), [], {'north_hand': set(hands['N']), 'east_hand': set(hands['E']),
                                                      'south_hand': set(hands['S']), 'west_hand': set(hands['W'])}))
        if H[0] != 'ok':
            raise AnalysisError('C14.R1', 'Hands.__init__', f'cannot construct hands: {H}')
        H = H[1]
        full = all(len(hands[s]) in (0, 13) for s in SEATS)
        # ---- PBN ------------------------------------------------------------------------------------------
        if full:
            for first in SEATS:
                chk.evals()
                t = fold('C14.R1', q_tp, lambda: f.call_method(H, 'to_pbn', players[first]))
                want = pbn_oracle(hands, first)
                chk.require(t == ('ok', want), 'C14.R1', w_tp, q_tp, f'to_pbn({first}) of {name}',
                            f'PBN text of "{name}" from {first} is canonical (S.H.D.C, high to low, void empty, unknown hand "-")',
                            f'deal "{name}" from first seat {first}: to_pbn gives {t[1]!r}, canonical form is {want!r}')
                back = fold('C14.R1', q_cp, lambda: f.call_class('Hands', 'convert_pbn', want))
                chk.require(back[0] == 'ok' and same_hands(back[1], hands), 'C14.R1', w_cp, q_cp, f'convert_pbn of {name} from {first}',
                            f'convert_pbn reads the canonical text of "{name}" from {first} back to the same four hands',
                            f'convert_pbn({want!r}) does not give back the four hands of "{name}" ({back[0]})')
        # ---- binary tuple -----------------------------------------------------------------------------------
        chk.evals()
        b = fold('C14.R2', q_tb, lambda: f.call_method(H, 'to_binary'))
        good = b[0] == 'ok' and isinstance(b[1], dict) and len(b[1]) == 4
        if good:
            for s in SEATS:
                v = b[1].get(players[s])
                good = good and isinstance(v, tuple) and len(v) == 52 and \
                    {i for i, x in enumerate(v) if x == 1} == {idx(c) for c in hands[s]} and set(v) <= {0, 1}
        chk.require(good, 'C14.R2', w_tb, q_tb, f'to_binary of {name}',
                    f'binary vectors of "{name}" have 52 slots with a 1 exactly at each card index',
                    f'to_binary of "{name}" is not the 52-slot indicator vector of each hand')
        if good:
            back = fold('C14.R2', q_cb, lambda: f.call_class('Hands', 'convert_binary', b[1]))
            chk.require(back[0] == 'ok' and same_hands(back[1], hands), 'C14.R2', w_cb, q_cb, f'convert_binary of {name}',
                        f'convert_binary reads the vectors of "{name}" back to the same hands',
                        f'convert_binary does not give back the hands of "{name}" ({back[0]})')
        # ---- JSON lists ---------------------------------------------------------------------------------------
        chk.evals()
        d = fold('C14.R3', q_cd, lambda: f.call_function('data_handler.json_handler.writer', 'convert_deal', H))
        want = {s: [c.fields['suit'].name + RANK.get(c.fields['rank'], str(c.fields['rank'])) for c in sorted(hands[s], key=idx)]
                for s in SEATS}
        chk.require(d == ('ok', want), 'C14.R3', w_cd, q_cd, f'convert_deal of {name}',
                    f'JSON deal of "{name}" lists each hand under N/E/S/W in ascending card order',
                    f'convert_deal of "{name}" differs from the canonical lists (e.g. N: {d[1].get("N") if d[0] == "ok" and isinstance(d[1], dict) else d})')
        back = fold('C14.R3', q_hp, lambda: f.call_function('data_handler.json_handler.parser', 'hands_parser', want))
        chk.require(back[0] == 'ok' and same_hands(back[1], hands), 'C14.R3', w_hp, q_hp, f'hands_parser of {name}',
                    f'hands_parser reads the JSON deal of "{name}" back to the same hands',
                    f'hands_parser does not give back the hands of "{name}" ({back[0]})')
        # equality of Hands itself (used by readers' callers)
        if full:
            eq = fold('C14.R1', 'Hands.__eq__', lambda: f.call_method(H, '__eq__', H))
            chk.require(eq == ('ok', True), 'C14.R1', *loc(repo, 'Hands', '__eq__', 'C14.R1'), f'Hands == itself for {name}',
                        'a deal equals itself', f'Hands.__eq__ says a deal differs from itself: {eq}')
    # a differing deal must compare unequal
    a = f._construct(repo.cls('Hands'), [], {'north_hand': set(deals[0][1]['N']), 'east_hand': set(deals[0][1]['E']),
                                             'south_hand': set(deals[0][1]['S']), 'west_hand': set(deals[0][1]['W'])})
    for s in SEATS:
        other = {k: set(v) for k, v in deals[0][1].items()}
        t = 'only'
        other[s] = set(sorted(other[s], key=idx)[1:])      # only this hand differs (one card missing)
        bdeal = f._construct(repo.cls('Hands'), [], {'north_hand': other['N'], 'east_hand': other['E'], 'south_hand': other['S'],
                                                     'west_hand': other['W']})
        eq = fold('C14.R1', 'Hands.__eq__', lambda: f.call_method(a, '__eq__', bdeal))
        chk.require(eq == ('ok', False), 'C14.R1', *loc(repo, 'Hands', '__eq__', 'C14.R1'), f'Hands.__eq__ with the {s} hand different',
                    f'deals differing only in the {s} hand compare unequal', f'Hands.__eq__ does not see that the {s} hands differ: {eq}')

    # ---- numpy pair: folded on the 1-d array model (sa.npstub) ----------------------------------------------------------
    from .. import npstub
    f.numpy = npstub
    w_np, q_np = loc(repo, 'Hands', 'to_np_binary', 'C14.R2')
    w_cn, q_cn = loc(repo, 'Hands', 'convert_np_binary', 'C14.R2')
    n_np = 0
    for name, hands in deals:
        H = f._construct(repo.cls('Hands'), [], {'north_hand': set(hands['N']), 'east_hand': set(hands['E']),
                                                 'south_hand': set(hands['S']), 'west_hand': set(hands['W'])})
        for dt in (None, 'float32', 'int8', 'bool_'):
            chk.evals()
            n_np += 1
            b = fold('C14.R2', q_np, lambda: f.call_method(H, 'to_np_binary', *([npstub.DType(dt)] if dt else [])))
            good = b[0] == 'ok' and isinstance(b[1], dict) and len(b[1]) == 4
            why = f'{b[0]}: {b[1] if b[0] != "ok" else type(b[1]).__name__}'
            if good:
                for s in SEATS:
                    v = b[1].get(players[s])
                    okv = isinstance(v, npstub.Arr) and len(v) == 52 and set(v.data) <= {0, 1} and \
                        {i for i, x in enumerate(v.data) if x == 1} == {idx(c) for c in hands[s]} and \
                        npstub.kind(v.dtype) == ('f' if dt == 'float32' else 'b' if dt == 'bool_' else 'i') and (dt is None or v.dtype.name == dt)
                    if not okv:
                        why = f'vector of {s}: {v!r}'[:160]
                    good = good and okv
            chk.require(good, 'C14.R2', w_np, q_np, f'to_np_binary({dt or "default dtype"}) of {name}',
                        f'numpy vectors of "{name}" ({dt or "default dtype"}): 52 slots per seat with a 1 exactly at each card index',
                        f'to_np_binary({dt or ""}) of "{name}" is not the 52-slot indicator vector of each hand ({why})')
            if good:
                back = fold('C14.R2', q_cn, lambda: f.call_class('Hands', 'convert_np_binary', b[1]))
                chk.require(back[0] == 'ok' and same_hands(back[1], hands), 'C14.R2', w_cn, q_cn, f'convert_np_binary({dt or "default dtype"}) of {name}',
                            f'convert_np_binary reads the vectors of "{name}" back to the same hands',
                            f'convert_np_binary does not give back the hands of "{name}" ({back[0]}{": " + str(back[1]) if back[0] != "ok" else ""})')
        # the reader on vectors built by this checker (not by the subject's writer)
        chk.evals()
        vecs = {players[s]: npstub.Arr([1 if i in {idx(c) for c in hands[s]} else 0 for i in range(52)], 'int32') for s in SEATS}
        back = fold('C14.R2', q_cn, lambda: f.call_class('Hands', 'convert_np_binary', vecs))
        chk.require(back[0] == 'ok' and same_hands(back[1], hands), 'C14.R2', w_cn, q_cn, f'convert_np_binary of the indicator vectors of {name}',
                    f'convert_np_binary turns the indicator vectors of "{name}" into its hands',
                    f'convert_np_binary of the indicator vectors of "{name}" does not give its hands ({back[0]})')
    chk.floor('C14.R2', 'numpy conversions folded on the array model', n_np, 40)
    f.numpy = None

    # ---- random dealer ---------------------------------------------------------------------------------------------
    w_g, q_g = loc(repo, 'Hands', 'generate_random_hands', 'C14.R4')
    _, g = repo.method('Hands', 'generate_random_hands', 'C14.R4')
    shuffles = [n for n in ast.walk(g) if isinstance(n, ast.Call) and ast.unparse(n.func) == 'random.shuffle']
    chk.require(len(shuffles) == 1, 'C14.R4', w_g, q_g, 'random.shuffle of the pack', 'the pack is shuffled once', 'the pack is not shuffled exactly once')
    perms = {'identity': lambda x: None, 'reversed': lambda x: x.reverse(),
             'interleaved': lambda x: x.__setitem__(slice(None), x[1::2] + x[0::2])}
    for pname, fn in perms.items():
        chk.evals()
        f.stubs['random.shuffle'] = fn
        h = fold('C14.R4', q_g, lambda: f.call_class('Hands', 'generate_random_hands'))
        good = h[0] == 'ok' and isinstance(h[1], DV)
        if good:
            hs = [h[1].fields.get(FIELD[s]) for s in SEATS]
            good = all(isinstance(x, set) and len(x) == 13 for x in hs) and len(set().union(*hs)) == 52 and \
                {idx(c) for x in hs for c in x} == set(range(52))
        chk.require(good, 'C14.R4', w_g, q_g, f'dealer under the {pname} permutation',
                    f'under the {pname} permutation the four slices are disjoint 13-card hands covering the pack',
                    f'under the {pname} permutation of the pack the dealer does not return 4 disjoint 13-card hands covering 52 cards')
    f.stubs.pop('random.shuffle', None)
    # ---- the JSON card lists reach the file through the streaming JSON writer: a deal written after a record that could not be
    #      serialised (or in a session that ends early) must still decode - the envelope of the writer, folded as for C13 / C17
    from .jsonfile import envelope_rule
    envelope_rule(chk, 'C14.R5')
