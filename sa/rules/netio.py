"""Shared helpers for the protocol rules (C19, C20 and the skeleton rules): scripted message
endpoints for folding the real connection code inside the analyser, template site locators, and
the covering families of hands / team names.  Nothing of the subject is imported: the methods are
interpreted from their ASTs by sa.fold with the socket layer replaced by the stand-ins below."""
from __future__ import annotations

import ast
from typing import Any, Dict, List, Optional

from ..fold import DV, EV, ClsRef, Folder, FoldRaise, Unsupported
from ..index import AnalysisError, Repo


class Native:
    """Base of analyser-side stand-ins visible to folded code."""
    _sa_native = True


class ScriptSock(Native):
    """A byte-stream socket stand-in: recv(n) serves a scripted byte string under a chunking plan
    (at most `plan[i]` bytes for the i-th call, then at most n), b'' for ever after the end."""

    def __init__(self, data: bytes = b'', plan: Optional[List[int]] = None):
        self.data, self.pos, self.plan, self.calls = data, 0, list(plan or []), 0
        self.sent: List[bytes] = []
        self.closed = False
        self.recv_sizes: List[int] = []

    def recv(self, n, *flags):
        self.recv_sizes.append(n)
        k = n
        if self.calls < len(self.plan):
            k = min(n, self.plan[self.calls])
        self.calls += 1
        out = self.data[self.pos:self.pos + k]
        self.pos += len(out)
        return out

    def sendall(self, b, *flags):
        self.sent.append(b)

    def send(self, b, *flags):
        # a plain send() may accept only part of the buffer (short write): the model accepts at most 5 bytes per call
        part = bytes(b[:5])
        self.sent.append(part)
        return len(part)

    def close(self):
        self.closed = True

    def connect(self, addr):
        return None

    def settimeout(self, t):
        return None


class Endpoint:
    """Message-level stand-in for MessageInterface.send_message / receive_message of one object."""

    def __init__(self, inbound: List[Any]):
        self.inbound = list(inbound)
        self.sent: List[Any] = []

    def install(self, folder: Folder):
        def send(f, self_val, args, kw):
            self.sent.append(args[0] if args else kw.get('message'))
            return None

        def recv(f, self_val, args, kw):
            if not self.inbound:
                raise FoldRaise('EndOfScript', 'receive_message with no scripted message left')
            return self.inbound.pop(0)
        folder.method_stubs[('MessageInterface', 'send_message')] = send
        folder.method_stubs[('MessageInterface', 'receive_message')] = recv


def new_folder(repo: Repo, steps: int = 400000) -> Folder:
    f = Folder(repo, allow_loops=True, max_steps=steps)
    f.stubs['time.sleep'] = lambda *a, **k: None
    f.stubs['Thread.__init__'] = lambda *a, **k: None
    return f


def fresh(folder: Folder, cls_name: str, **fields) -> DV:
    """An instance of a subject class with the given fields, assignable by folded code."""
    obj = DV(folder.repo.cls(cls_name, 'netio'), dict(fields))
    folder._fresh.add(id(obj))
    folder._keep.append(obj)
    return obj


def seats(folder: Folder) -> List[EV]:
    return folder.members('Player')


def card(folder: Folder, rank: int, suit: str) -> DV:
    return folder.make('Card', rank=rank, suit=folder.member('Suit', suit))


SUITS = ['S', 'H', 'D', 'C']


def hand_family(folder: Folder):
    """Covering family of hands of 0..13 cards for the hand text: the builder touches cards only
    through their order, suit identity and the rank table, so the family varies exactly those:
    every void pattern (16) x three rank fillings, each single card (52), each 13-card suit, the
    empty hand, all honours / all spots, and 4-3-3-3 / 7-6-0-0 / 10-1-1-1 shapes."""
    out = []
    out.append(('empty', frozenset()))
    for s in SUITS:
        out.append((f'13 cards of {s}', frozenset(card(folder, r, s) for r in range(2, 15))))
        for r in range(2, 15):
            out.append((f'single {s}{r}', frozenset([card(folder, r, s)])))
    fills = {'low': [2, 3, 4, 5], 'high': [14, 13, 12, 11, 10], 'mixed': [14, 10, 9, 2]}
    for mask in range(16):
        present = [s for i, s in enumerate(SUITS) if mask >> i & 1]
        for name, ranks in fills.items():
            cs = []
            for j, s in enumerate(present):
                cs += [card(folder, r, s) for r in ranks[:max(1, 13 // max(1, len(present)) - j) if name != 'mixed' else 3]]
            if cs and len(cs) <= 13:
                out.append((f'voids={[s for s in SUITS if s not in present]} {name}', frozenset(cs)))
    out.append(('4-3-3-3', frozenset([card(folder, r, 'S') for r in (14, 12, 10, 2)] + [card(folder, r, 'H') for r in (13, 11, 3)] +
                                     [card(folder, r, 'D') for r in (10, 9, 8)] + [card(folder, r, 'C') for r in (7, 6, 5)])))
    out.append(('7-6-0-0', frozenset([card(folder, r, 'H') for r in range(8, 15)] + [card(folder, r, 'C') for r in range(2, 8)])))
    out.append(('10-1-1-1', frozenset([card(folder, r, 'D') for r in range(5, 15)] + [card(folder, 10, 'S'), card(folder, 10, 'H'), card(folder, 10, 'C')])))
    return out


TEAM_NAMES = ['teamNS', 'Blue Chip', 'a', 'O\'Neil (jr.) #2', 'E/W', 'N/S : x', 'x. E/W : y', 'as North using protocol version 18',
              'seated', 'Dr. No.', ' lead', 'trail ', 'two  spaces', 'ÄÖ-Ünï', 'North']


def method_calls(fn: ast.AST, attr: str) -> List[ast.Call]:
    """Call nodes `<anything>.<attr>(...)` / `<attr>(...)` inside fn, in source order."""
    out = [n for n in ast.walk(fn) if isinstance(n, ast.Call) and (
        (isinstance(n.func, ast.Attribute) and n.func.attr == attr) or (isinstance(n.func, ast.Name) and n.func.id == attr))]
    return sorted(out, key=lambda n: (n.lineno, n.col_offset))


def reach(repo, cls_name: str, meth: str, rule: str = 'reach') -> ast.Module:
    """The method and the methods of its class it reaches through self-calls, as ONE tree to search for call sites in (a builder that
    was moved into a helper method is still found)."""
    ci, fn = repo.method(cls_name, meth, rule)
    seen, todo, out = set(), [fn], []
    while todo:
        g = todo.pop(0)
        if id(g) in seen:
            continue
        seen.add(id(g))
        out.append(g)
        for n in ast.walk(g):
            if isinstance(n, ast.Call) and isinstance(n.func, ast.Attribute) and isinstance(n.func.value, (ast.Name, ast.Call)):
                recv = n.func.value
                if (isinstance(recv, ast.Name) and recv.id in ('self', 'cls')) or (isinstance(recv, ast.Call) and isinstance(recv.func, ast.Name) and recv.func.id == 'super'):
                    for c in repo.mro(ci):
                        if n.func.attr in c.methods and c.name.split('.')[-1] not in ('MessageInterface', 'SocketInterface'):
                            todo.append(c.methods[n.func.attr])
                            break
    return ast.Module(body=out, type_ignores=[])


def contains_call(node: ast.AST, attr: str) -> bool:
    return bool(method_calls(node, attr))


def eval_in(folder: Folder, expr: ast.AST, env: Dict[str, Any], mod, ci, rule: str, anchor: str):
    """Evaluate an expression of the subject under an environment; leaving the foldable subset is an
    analysis error, a raise of the subject is returned as ('raise', kind)."""
    folder.steps = 0
    try:
        return ('ok', folder._eval(expr, dict(env), mod, ci))
    except FoldRaise as r:
        return ('raise', r.kind)
    except Unsupported as e:
        raise AnalysisError(rule, anchor, f'expression `{ast.unparse(expr)[:60]}` left the foldable subset: {e}')


def call_in(rule: str, anchor: str, thunk):
    try:
        return ('ok', thunk())
    except FoldRaise as r:
        return ('raise', r.kind + ': ' + str(r)[:80])
    except Unsupported as e:
        raise AnalysisError(rule, anchor, f'left the foldable subset: {e}')
