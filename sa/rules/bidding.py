"""Shared machinery for C01-C03: role binding (DESIGN A2) for BiddingPhase, path classes of
take_bid, and evaluation of path guards / effects under abstract valuations."""
from __future__ import annotations

import ast
from typing import Dict, List, Optional

from ..fold import EV, NOVALUE, Folder, PartialEvaluator
from ..index import AnalysisError
from ..norm import formula, ev3
from ..paths import Path, Summarizer, attr_key

CLS = 'BiddingPhase'


def _self_attr(n: ast.AST) -> Optional[str]:
    return attr_key(n)


class Roles:
    pass


class Bidding:
    def __init__(self, chk, rule: str):
        self.chk, self.repo, self.rule = chk, chk.repo, rule
        self.f = Folder(self.repo)
        self.summ = Summarizer(self.repo, rule)
        self.ci, self.take_bid = self.repo.method(CLS, 'take_bid', rule)
        self.mod = self.ci.module
        self.where = self.repo.where(self.mod, self.take_bid)
        self.qual = f'{CLS}.take_bid'
        args = [a.arg for a in self.take_bid.args.args]
        if len(args) != 2:
            raise AnalysisError(rule, self.qual, 'expected signature take_bid(self, bid)')
        self.bidp = args[1]
        self.paths: List[Path] = self.summ.paths(CLS, 'take_bid', allow_truncated=True)
        self.bids = self.f.members('Bid')
        self.players = self.f.members('Player')
        self.state_cls = self.repo.cls('BiddingPhaseState', rule)
        self._bidsets = {}
        self._bind_roles()

    # -- path classes ----------------------------------------------------------------------------
    def kind(self, p: Path) -> str:
        if p.end[0] == 'raise':
            return 'raise'
        if p.end[0] == 'return' and p.end[1] is not None:
            t = ast.unparse(p.end[1])
            for k in ('ILLEGAL', 'ONGOING', 'FINISHED'):
                if t == f'BiddingPhaseState.{k}':
                    return k
        raise AnalysisError(self.rule, self.qual, f'path ends in `{p.describe()[-60:]}`: not a BiddingPhaseState / raise')

    # -- roles (A2) --------------------------------------------------------------------------------
    def _bind_roles(self):
        r = Roles()
        rule = self.rule
        # active: attribute compared with None in has_done
        _, hd = self.repo.method(CLS, 'has_done', rule)
        rets = [s for s in hd.body if isinstance(s, ast.Return)]
        cand = [attr_key(n) for n in ast.walk(rets[0].value) if attr_key(n)] if len(rets) == 1 and rets[0].value else []
        if len(set(cand)) != 1:
            raise AnalysisError(rule, f'{CLS}.has_done', 'cannot bind the active-seat attribute')
        r.active = cand[0]
        kinds = {id(p): self.kind(p) for p in self.paths}
        illegal = [p for p in self.paths if kinds[id(p)] == 'ILLEGAL']
        accept = [p for p in self.paths if kinds[id(p)] in ('ONGOING', 'FINISHED')]
        if not illegal:
            raise AnalysisError(rule, self.qual, 'instance floor: no path returns ILLEGAL')
        if not accept:
            raise AnalysisError(rule, self.qual, 'instance floor: no accepting path')
        # mask: subscripted attribute in the guards of the ILLEGAL paths
        masks = set()
        for p in illegal:
            for c in p.conds():
                for n in ast.walk(c.test):
                    # the availability vector is the attribute indexed by the call itself (bid.idx / bid.value - 1)
                    if isinstance(n, ast.Subscript) and attr_key(n.value) and any(
                            isinstance(x, ast.Attribute) and isinstance(x.value, ast.Name) and x.value.id == self.bidp and x.attr in ('idx', 'value')
                            for x in ast.walk(n.slice)):
                        masks.add(attr_key(n.value))
        masks -= {r.active}
        hist_like = set()
        # history / per-seat history: receivers of append(bid)
        hist, seat_hist = set(), set()
        for p in accept:
            for e in p.events:
                if e.kind == 'call' and e.method == 'append' and len(e.args) == 1 and ast.unparse(e.args[0]) == self.bidp:
                    rn = ast.parse(e.recv, mode='eval').body
                    if attr_key(rn):
                        hist.add(attr_key(rn))
                    elif isinstance(rn, ast.Subscript) and attr_key(rn.value):
                        seat_hist.add(attr_key(rn.value))
        if len(hist) != 1 or len(seat_hist) != 1:
            raise AnalysisError(rule, self.qual, f'cannot bind the history roles (common {hist}, per-seat {seat_hist})')
        r.history, r.seat_history = hist.pop(), seat_hist.pop()
        masks -= {r.history, r.seat_history}
        if len(masks) != 1:
            raise AnalysisError(rule, self.qual, f'cannot bind the availability-mask attribute ({masks})')
        r.mask = masks.pop()
        # flags, last bid / bidder, table: from assignments on accepting paths
        xs, xxs, lbid, lbidder, table = set(), set(), set(), set(), set()
        for p in accept:
            bs = self.bidset(p)
            for e in p.events:
                if e.kind == 'assign' and isinstance(e.value, ast.Constant) and e.value.value is True:
                    if bs == {'X'}:
                        xs.add(e.target)
                    elif bs == {'XX'}:
                        xxs.add(e.target)
                if e.kind == 'assign' and ast.unparse(e.value) == self.bidp:
                    lbid.add(e.target)
                if e.kind == 'assign' and ast.unparse(e.value) == r.active and e.target != r.active:
                    lbidder.add(e.target)
                if e.kind == 'store' and len(e.keys) == 2 and e.value is not None:
                    table.add(e.target)
        if len(xs) != 1 or len(xxs) != 1:
            # fall back on how contract() fills the Contract fields x / xx
            fx, fxx = self._flags_from_contract()
            xs = xs if len(xs) == 1 else fx
            xxs = xxs if len(xxs) == 1 else fxx
        for name, s in (('x flag', xs), ('xx flag', xxs), ('last bid', lbid), ('last bidder', lbidder),
                        ('first-to-name table', table)):
            if len(s) != 1:
                raise AnalysisError(rule, self.qual, f'cannot bind the {name} attribute uniquely ({sorted(s)})')
        r.x, r.xx, r.last_bid, r.last_bidder, r.table = xs.pop(), xxs.pop(), lbid.pop(), lbidder.pop(), table.pop()
        # vul / dealer from __init__
        _, init = self.repo.method(CLS, '__init__', rule)
        r.vul = r.dealer = None
        r.vul_param = r.dealer_param = None
        for a in init.args.args[1:]:
            ann = ast.unparse(a.annotation) if a.annotation is not None else ''
            if ann == 'Vul':
                r.vul_param = a.arg
            elif ann == 'Player':
                r.dealer_param = a.arg
        if r.vul_param is None or r.dealer_param is None:
            raise AnalysisError(rule, f'{CLS}.__init__', 'cannot find the dealer / vulnerability parameters by annotation')
        self.init_paths = self.summ.paths(CLS, '__init__')
        if len(self.init_paths) != 1:
            raise AnalysisError(rule, f'{CLS}.__init__', 'constructor is expected to be straight-line')
        for e in self.init_paths[0].events:
            if e.kind == 'assign' and ast.unparse(e.value) == r.vul_param:
                r.vul = e.target
        if r.vul is None:
            raise AnalysisError(rule, f'{CLS}.__init__', 'vulnerability parameter is not stored')
        self.roles = r
        self.kinds = kinds
        self.illegal, self.accept = illegal, accept
        self.raising = [p for p in self.paths if kinds[id(p)] == 'raise']

    def _flags_from_contract(self):
        xs, xxs = set(), set()
        try:
            cpaths = self.summ.paths(CLS, 'contract')
        except AnalysisError:
            return xs, xxs
        cc = self.repo.cls('Contract', self.rule)
        fields = [n for n in cc.order if n in cc.annots]
        for p in cpaths:
            v = p.end[1] if p.end and p.end[0] == 'return' else None
            if isinstance(v, ast.Call) and ast.unparse(v.func) == 'Contract':
                got = dict(zip(fields, v.args))
                got.update({k.arg: k.value for k in v.keywords})
                if attr_key(got.get('x')):
                    xs.add(attr_key(got['x']))
                if attr_key(got.get('xx')):
                    xxs.add(attr_key(got['xx']))
        return xs, xxs

    # -- which calls can take a path (guards that mention only the call) ----------------------------
    def bidset(self, p: Path) -> set:
        out = set()
        for b in self.bids:
            pe = PartialEvaluator(self.f, self.mod, [lambda n, b=b: b if isinstance(n, ast.Name) and n.id == self.bidp else NOVALUE])
            ok = True
            for c in p.conds():
                names = {n.id for n in ast.walk(c.test) if isinstance(n, ast.Name)}
                if 'self' in names:
                    continue
                r = ev3(formula(c.test), pe.truth)
                if r is not None and r != c.polarity:
                    ok = False
                    break
            if ok:
                out.add(b.name)
        return out

    # -- evaluation under a valuation ----------------------------------------------------------------
    def evaluator(self, st: Dict[str, object]) -> PartialEvaluator:
        """st keys: bid, active, x, xx, last_bidder, last_bid, vul, slot, n, h1, h2, table_slot(dict (pair,suit)->v)."""
        r = self.roles
        pe_box = []

        def m(node):
            pe = pe_box[0]
            if isinstance(node, ast.Name) and node.id == self.bidp and 'bid' in st:
                return st['bid']
            k = attr_key(node)
            if k is not None:
                for role, key in ((r.active, 'active'), (r.x, 'x'), (r.xx, 'xx'), (r.last_bidder, 'last_bidder'),
                                  (r.last_bid, 'last_bid'), (r.vul, 'vul')):
                    if k == role and key in st:
                        return st[key]
                return NOVALUE
            if isinstance(node, ast.Subscript):
                base = node.value
                if attr_key(base) == r.mask and 'slot' in st and 'bid' in st and not isinstance(node.slice, ast.Slice):
                    idx = pe.eval(node.slice)
                    if idx is not NOVALUE and idx == st['bid'].value - 1:
                        return st['slot']
                    return NOVALUE
                if attr_key(base) == r.history and 'n' in st and not isinstance(node.slice, ast.Slice):
                    idx = pe.eval(node.slice)
                    if idx == -1 and st['n'] >= 1 and 'h1' in st:
                        return st['h1']
                    if idx == -2 and st['n'] >= 2 and 'h2' in st:
                        return st['h2']
                    return NOVALUE
                if isinstance(base, ast.Subscript) and attr_key(base.value) == r.table and 'table_slot' in st:
                    k1, k2 = pe.eval(base.slice), pe.eval(node.slice)
                    if k1 is NOVALUE or k2 is NOVALUE:
                        return NOVALUE
                    return st['table_slot'].get((k1, k2), NOVALUE)
            if isinstance(node, ast.Call) and isinstance(node.func, ast.Name) and node.func.id == 'len' \
                    and len(node.args) == 1 and attr_key(node.args[0]) == r.history and 'n' in st:
                return st['n']
            return NOVALUE
        pe = PartialEvaluator(self.f, self.mod, [m])
        pe_box.append(pe)
        return pe

    def consistent(self, p: Path, pe: PartialEvaluator, bid=None) -> bool:
        if bid is not None:
            bs = self._bidsets.get(id(p))
            if bs is None:
                bs = self._bidsets[id(p)] = self.bidset(p)
            if bid.name not in bs:
                return False
        for c in p.conds():
            fm = getattr(c, '_formula', None)
            if fm is None:
                fm = c._formula = formula(c.test)
            v = ev3(fm, pe.truth)
            if v is not None and v != c.polarity:
                return False
        if p.truncated:
            raise AnalysisError('paths', 'loop bound', f'`{ast.unparse(p.end[2])[:50]}` runs more often than the path summariser unrolls '
                                                       'in a state the rule evaluates')
        return True

    def post(self, p: Path, role: str, pe: PartialEvaluator):
        """Value of a role attribute at the end of the path (entry value if never assigned)."""
        e = p.env.get(role)
        if e is None:
            e = ast.parse(role, mode='eval').body
        return pe.eval(e)

    def mask_delta(self, p: Path, pe: PartialEvaluator, init: bool = False) -> Optional[Dict[int, object]]:
        """idx -> stored value for the stores to the mask along the path (None = not evaluable)."""
        n = len(self.bids)
        delta: Dict[int, object] = {}
        for e in p.events:
            if e.kind in ('store', 'aug') and e.target == self.roles.mask:
                if e.kind == 'aug' or len(e.keys) != 1 or e.value is None:
                    return None
                val = pe.eval(e.value)
                if val is NOVALUE and isinstance(e.value, ast.IfExp) and isinstance(e.value.body, ast.Constant) and isinstance(e.value.orelse, ast.Constant):
                    # `1 if <condition over state the valuation leaves open> else 0`: one of the two constants
                    val = ('either', e.value.body.value, e.value.orelse.value)
                if val is NOVALUE:
                    return None
                if e.slice is not None:
                    lo = pe.eval(e.slice.lower) if e.slice.lower is not None else None
                    hi = pe.eval(e.slice.upper) if e.slice.upper is not None else None
                    if lo is NOVALUE or hi is NOVALUE or e.slice.step is not None:
                        return None
                    for i in range(n)[lo:hi]:
                        delta[i] = val
                else:
                    i = pe.eval(e.keys[0])
                    if i is NOVALUE or not isinstance(i, int):
                        return None
                    delta[i % n if -n <= i < n else i] = val
            elif e.kind == 'assign' and e.target == self.roles.mask and not init:
                return None
        return delta
