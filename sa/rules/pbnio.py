"""Shared helpers for the PBN reader / writer rules (C17, C18)."""
from __future__ import annotations

import ast
import re

from ..fold import DV, Folder, FoldRaise, NOVALUE, PartialEvaluator, Unsupported
from ..index import AnalysisError, parent
from .c13 import ancestors, stmt_of

VALUE_ALPHABET_SAMPLES = ['1', '12', 'Board 7', 'A  1', ' lead', 'trail ', "O'Neil (jr.) #2", 'a.b,c-d_e/f+g:h', 'Team-1/2', '']


def parser_constants(repo, rule):
    """TAG_PATTERN / the whitespace pattern used for game separation, read from the class body."""
    ci = repo.cls('PbnParser', rule)
    f = Folder(repo, allow_loops=True)
    out = {}
    for name in ('TAG_PATTERN', 'REPLACE_PATTERN'):
        if name not in ci.assigns:
            raise AnalysisError(rule, f'PbnParser.{name}', 'pattern constant not found')
        try:
            out[name] = f._eval(ci.assigns[name], {}, ci.module, ci)
        except (Unsupported, FoldRaise) as e:
            raise AnalysisError(rule, f'PbnParser.{name}', f'pattern is not a constant: {e}')
        try:
            re.compile(out[name])
        except re.error as e:
            raise AnalysisError(rule, f'PbnParser.{name}', f'pattern does not compile: {e}')
    return out


def separator_pattern(repo, rule):
    """The pattern expression fullmatch()ed against a line in parse_stream to detect a game boundary."""
    ci, fn = repo.method('PbnParser', 'parse_stream', rule)
    f = Folder(repo, allow_loops=True)
    calls = [n for n in ast.walk(fn) if isinstance(n, ast.Call) and ast.unparse(n.func) in ('re.fullmatch', 're.match')
             and len(n.args) >= 2 and ast.unparse(n.args[1]) == 'line']
    seps = []
    for c in calls:
        st = stmt_of(c)
        if isinstance(st, ast.Assign) and isinstance(st.targets[0], ast.Name):
            # is this match result the test of an `if` that yields / resets?
            name = st.targets[0].id
            for node in ast.walk(fn):
                if isinstance(node, ast.If) and any(isinstance(x, ast.Name) and x.id == name for x in ast.walk(node.test)):
                    if any(isinstance(x, ast.Yield) for b in node.body for x in ast.walk(b)):
                        blk = parent(node)
                        seq = getattr(blk, 'body', [])
                        # reaching definition: the assignment is the nearest preceding sibling of the test
                        if node in seq and st in seq and seq.index(st) < seq.index(node) and not any(
                                isinstance(z, ast.Assign) and isinstance(z.targets[0], ast.Name) and z.targets[0].id == name
                                for z in seq[seq.index(st) + 1:seq.index(node)]):
                            seps.append((c, node))
    if len(seps) > 1 and len({id(n) for _, n in seps}) == 1:
        # several match results feed ONE yielding test: the blank-line test is the fullmatch; the others are extra triggers
        # (judged by the rule that the separator test depends on the blank-line match and the comment state only)
        full = [x for x in seps if ast.unparse(x[0].func) == 're.fullmatch']
        if len(full) == 1:
            seps = full
    if len(seps) != 1:
        raise AnalysisError(rule, 'PbnParser.parse_stream', f'cannot identify the game-separator test ({len(seps)} candidates)')
    call, ifnode = seps[0]
    arg = call.args[0]
    obj = DV(ci, {})
    try:
        pat = f._eval(arg, {'self': obj}, ci.module, ci)
    except (Unsupported, FoldRaise) as e:
        raise AnalysisError(rule, 'PbnParser.parse_stream', f'separator pattern is not constant: {e}')
    return pat, ast.unparse(call.func), call, ifnode, fn, ci


def fold_parse_board(repo, rule, lines):
    """parse_board is a pure function of the tag buffer: fold it on the given buffer."""
    ci = repo.cls('PbnParser', rule)
    f = Folder(repo, allow_loops=True, max_steps=100000)
    obj = DV(ci, {'tag_pair_buffer': list(lines)})
    try:
        return ('ok', f.call_method(obj, 'parse_board'))
    except FoldRaise as r:
        return ('raise', r.kind)
    except Unsupported as e:
        raise AnalysisError(rule, 'PbnParser.parse_board', f'left the foldable subset: {e}')


def line_source(repo, rule):
    """How parse_stream obtains its lines: ('iter', None) for `for line in fp`, ('readline', n|None) for fp.readline([n])
    (directly or through iter(lambda: fp.readline(n), '')).  Anything else is an unrecognised shape."""
    ci, fn = repo.method('PbnParser', 'parse_stream', rule)
    fp = fn.args.args[1].arg if len(fn.args.args) > 1 else None
    f = Folder(repo, allow_loops=True)
    loops = [n for n in ast.walk(fn) if isinstance(n, ast.For) and isinstance(n.target, ast.Name) and n.target.id == 'line']
    rl = [n for n in ast.walk(fn) if isinstance(n, ast.Call) and isinstance(n.func, ast.Attribute) and n.func.attr in ('readline', 'read', 'readlines')
          and isinstance(n.func.value, ast.Name) and n.func.value.id == fp]
    if len(loops) == 1 and isinstance(loops[0].iter, ast.Name) and loops[0].iter.id == fp and not rl:
        return 'iter', None, loops[0]
    if len(rl) == 1 and rl[0].func.attr == 'readline':
        arg = rl[0].args[0] if rl[0].args else (rl[0].keywords[0].value if rl[0].keywords else None)
        if arg is None:
            return 'readline', None, rl[0]
        try:
            n = f._eval(arg, {'self': DV(ci, {})}, ci.module, ci)
        except (Unsupported, FoldRaise) as e:
            raise AnalysisError(rule, 'PbnParser.parse_stream', f'size argument of readline is not constant: {e}')
        return 'readline', n, rl[0]
    raise AnalysisError(rule, 'PbnParser.parse_stream', 'cannot identify how lines are taken from the stream (`for line in fp` or fp.readline expected)')


def check_line_source(chk, rule, repo, max_line=255):
    kind, n, node = line_source(repo, rule)
    ci = repo.cls('PbnParser', rule)
    ok = n is None or (isinstance(n, int) and (n < 0 or n >= max_line))
    chk.require(ok, rule, repo.where(ci.module, node), 'PbnParser.parse_stream', f'lines taken by {kind}({n if n is not None else ""})',
                'the reader takes whole lines from the stream (a legal PBN line has up to 255 characters including the newline)',
                f'`{ast.unparse(node)}` returns at most {n} characters per call: a legal line of {max_line} characters (which the writer produces for long values) is '
                f'split, its remainder "\\n" fullmatches the game-separator pattern, and one game is read as two')
