"""Shared helpers for the PBN reader / writer rules (C17, C18)."""
from __future__ import annotations

import ast
import re

from ..fold import DV, Folder, FoldRaise, NOVALUE, PartialEvaluator, Unsupported
from ..index import AnalysisError, parent
from .c13 import ancestors, stmt_of

VALUE_ALPHABET_SAMPLES = ['1', '12', 'Board 7', 'A  1', ' lead', 'trail ', "O'Neil (jr.) #2", 'a.b,c-d_e/f+g:h', 'Team-1/2', '']


def parser_constants(repo, rule):
    """TAG_PATTERN / the whitespace pattern used for game separation, read from the class body."""
    ci = repo.cls('PbnParser', rule)
    f = Folder(repo, allow_loops=True)
    out = {}
    for name in ('TAG_PATTERN', 'REPLACE_PATTERN'):
        if name not in ci.assigns:
            raise AnalysisError(rule, f'PbnParser.{name}', 'pattern constant not found')
        try:
            out[name] = f._eval(ci.assigns[name], {}, ci.module, ci)
        except (Unsupported, FoldRaise) as e:
            raise AnalysisError(rule, f'PbnParser.{name}', f'pattern is not a constant: {e}')
        try:
            re.compile(out[name])
        except re.error as e:
            raise AnalysisError(rule, f'PbnParser.{name}', f'pattern does not compile: {e}')
    return out


def separator_pattern(repo, rule):
    """The pattern expression fullmatch()ed against a line in parse_stream to detect a game boundary."""
    ci, fn = repo.method('PbnParser', 'parse_stream', rule)
    f = Folder(repo, allow_loops=True)
    calls = [n for n in ast.walk(fn) if isinstance(n, ast.Call) and ast.unparse(n.func) in ('re.fullmatch', 're.match')
             and len(n.args) >= 2 and ast.unparse(n.args[1]) == 'line']
    seps = []
    for c in calls:
        st = stmt_of(c)
        if isinstance(st, ast.Assign) and isinstance(st.targets[0], ast.Name):
            # is this match result the test of an `if` that yields / resets?
            name = st.targets[0].id
            for node in ast.walk(fn):
                if isinstance(node, ast.If) and any(isinstance(x, ast.Name) and x.id == name for x in ast.walk(node.test)):
                    if any(isinstance(x, ast.Yield) for b in node.body for x in ast.walk(b)):
                        blk = parent(node)
                        seq = getattr(blk, 'body', [])
                        # reaching definition: the assignment is the nearest preceding sibling of the test
                        if node in seq and st in seq and seq.index(st) < seq.index(node) and not any(
                                isinstance(z, ast.Assign) and isinstance(z.targets[0], ast.Name) and z.targets[0].id == name
                                for z in seq[seq.index(st) + 1:seq.index(node)]):
                            seps.append((c, node))
    if len(seps) != 1:
        raise AnalysisError(rule, 'PbnParser.parse_stream', f'cannot identify the game-separator test ({len(seps)} candidates)')
    call, ifnode = seps[0]
    arg = call.args[0]
    obj = DV(ci, {})
    try:
        pat = f._eval(arg, {'self': obj}, ci.module, ci)
    except (Unsupported, FoldRaise) as e:
        raise AnalysisError(rule, 'PbnParser.parse_stream', f'separator pattern is not constant: {e}')
    return pat, ast.unparse(call.func), call, ifnode, fn, ci


def fold_parse_board(repo, rule, lines):
    """parse_board is a pure function of the tag buffer: fold it on the given buffer."""
    ci = repo.cls('PbnParser', rule)
    f = Folder(repo, allow_loops=True, max_steps=100000)
    obj = DV(ci, {'tag_pair_buffer': list(lines)})
    try:
        return ('ok', f.call_method(obj, 'parse_board'))
    except FoldRaise as r:
        return ('raise', r.kind)
    except Unsupported as e:
        raise AnalysisError(rule, 'PbnParser.parse_board', f'left the foldable subset: {e}')
