"""Statefulness hazards that silently turn a function of its arguments into a function of history
(rule suffix .M, evaluated for every property over the modules that property depends on):

M1  memoisation (functools.lru_cache / cache / cached_property, or a hand-written dict memo) is
    sound only when (a) the cached callable reads nothing that is mutated after construction,
    (b) its parameters are compared by value over ALL of their fields (Enum, int/str/bool,
    frozen dataclass without compare=False fields or custom __eq__/__hash__), and (c) the result
    is immutable - the engines mutate hand sets in place, so a shared cached set is consumed.
M2  class-level mutable containers (list / dict / set literals or constructors in a class body)
    that a method mutates in place through `self` without the constructor re-binding them per
    instance: every instance shares, and leaks state into, the same object.
M3  mutable default arguments mutated in the body.
The expected count on the tree is zero; the thorough tier's mutants keep positive examples."""
from __future__ import annotations

import ast
from typing import Dict, List, Optional, Set

from ..index import AnalysisError, Repo
from .common import MUTATOR_METHODS, writers_of

CACHE_DECOS = {'lru_cache', 'cache', 'cached_property', 'cached', 'memoize', 'memoized', 'memo'}

# module (relative to bridge_env) -> properties whose behaviour is computed by code of that module
RELEVANT = {
    'bid': {'C01', 'C02', 'C03', 'C15', 'C08', 'C11', 'C12', 'C19'},
    'bidding_phase': {'C01', 'C02', 'C03', 'C08', 'C11'},
    'card': {'C04', 'C05', 'C06', 'C14', 'C15', 'C12', 'C19'},
    'contract': {'C03', 'C07', 'C15', 'C12', 'C08', 'C18'},
    'hands': {'C14', 'C05', 'C17', 'C18', 'C12', 'C08'},
    'pair': {'C07', 'C15', 'C08', 'C04'},
    'player': {'C01', 'C02', 'C04', 'C07', 'C15', 'C09', 'C10', 'C11', 'C14'},
    'playing_phase': {'C04', 'C05', 'C06', 'C11', 'C08', 'C12'},
    'score': {'C07', 'C16', 'C08'},
    'suit': {'C15', 'C04', 'C06', 'C14'},
    'vul': {'C07', 'C15', 'C17', 'C18', 'C19'},
    'table': set(),
    'data_handler.abstract_classes': {'C12', 'C17'},
    'data_handler.json_handler.parser': {'C12', 'C17'},
    'data_handler.json_handler.writer': {'C12', 'C13', 'C17', 'C08'},
    'data_handler.pbn_handler.parser': {'C17', 'C18', 'C14'},
    'data_handler.pbn_handler.writer': {'C18', 'C17', 'C14'},
    'network_bridge.server': {'C08', 'C09', 'C10', 'C11', 'C13', 'C19', 'C20'},
    'network_bridge.client': {'C11', 'C19', 'C06', 'C09', 'C20'},
    'network_bridge.socket_interface': {'C19', 'C08', 'C09', 'C10', 'C11', 'C13'},
    'network_bridge.bidding_system': {'C11'},
    'network_bridge.playing_system': {'C06', 'C11'},
}

MUTABLE_ANN = ('Set[', 'List[', 'Dict[', 'set[', 'list[', 'dict[', 'MutableSet', 'MutableMapping', 'ndarray', 'Hands', 'Set', 'List', 'Dict', 'PlayingHistory', 'IO[')
VALUE_OK = {'int', 'str', 'bool', 'float', 'bytes', 'None'}


def _deco_name(d: ast.AST) -> str:
    if isinstance(d, ast.Call):
        d = d.func
    if isinstance(d, ast.Attribute):
        return d.attr
    if isinstance(d, ast.Name):
        return d.id
    return ''


def _mutated_attrs(repo: Repo, ci) -> Set[str]:
    """Attributes of `ci` (incl. subclasses' methods) assigned or mutated in place outside __init__."""
    out: Set[str] = set()
    classes = [c for m in repo.modules.values() for c in m.classes.values() if ci in repo.mro(c)]
    for c in classes:
        for name, fn in c.methods.items():
            if name == '__init__':
                continue
            for n in ast.walk(fn):
                tg = []
                if isinstance(n, ast.Assign):
                    tg = n.targets
                elif isinstance(n, (ast.AugAssign, ast.AnnAssign)):
                    tg = [n.target]
                elif isinstance(n, ast.Call) and isinstance(n.func, ast.Attribute) and n.func.attr in MUTATOR_METHODS:
                    tg = [n.func.value]
                for t in tg:
                    while isinstance(t, ast.Subscript):
                        t = t.value
                    if isinstance(t, ast.Attribute) and isinstance(t.value, ast.Name) and t.value.id == 'self':
                        out.add(t.attr)
    return out


def _is_container(v: ast.AST, mod=None, name=None) -> Optional[str]:
    if isinstance(v, (ast.Dict, ast.DictComp)) or (isinstance(v, ast.Call) and isinstance(v.func, ast.Name) and v.func.id in ('dict', 'defaultdict', 'OrderedDict')):
        return 'dict'
    if isinstance(v, (ast.List, ast.ListComp)) or (isinstance(v, ast.Call) and isinstance(v.func, ast.Name) and v.func.id in ('list', 'deque')):
        return 'list'
    if isinstance(v, (ast.Set, ast.SetComp)) or (isinstance(v, ast.Call) and isinstance(v.func, ast.Name) and v.func.id == 'set'):
        return 'set'
    return None


def _value_type_problem(repo: Repo, ann: Optional[ast.AST]) -> Optional[str]:
    """Why a parameter of this annotated type is not compared by value over all its fields (None = fine)."""
    if ann is None:
        return 'parameter has no annotation'
    txt = ast.unparse(ann)
    for n in ast.walk(ann):
        name = n.id if isinstance(n, ast.Name) else (n.attr if isinstance(n, ast.Attribute) else None)
        if name is None or name in VALUE_OK or name in ('Optional', 'Tuple', 'Union', 'typing', 'tuple', 'FrozenSet', 'frozenset'):
            continue
        if name in ('Set', 'List', 'Dict', 'set', 'list', 'dict'):
            return f'`{txt}` is unhashable / mutable'
        if repo.has_cls(name):
            c = repo.cls(name)
            if c.is_enum:
                continue
            if c.is_dataclass:
                if not any('frozen=True' in d for d in c.decorators):
                    return f'dataclass `{name}` is not frozen'
                if any('eq=False' in d for d in c.decorators) or '__eq__' in c.methods or '__hash__' in c.methods:
                    return f'dataclass `{name}` does not use field-wise equality'
                for fld, v in c.assigns.items():
                    if isinstance(v, ast.Call) and _deco_name(v) == 'field' and any(k.arg in ('compare', 'hash') and isinstance(k.value, ast.Constant)
                                                                                     and k.value.value is False for k in v.keywords):
                        return f'field `{name}.{fld}` is excluded from equality/hash: two different values of `{name}` share one cache entry'
                continue
            return f'instances of `{name}` are compared by identity / are mutable'
        return f'type `{name}` is not known to be compared by value'
    return None


def run(chk):
    repo: Repo = chk.repo
    pid = chk.pid
    rule = f'{pid}.M'
    n_fn = 0
    for mname, mod in repo.modules.items():
        rel = mname[len('bridge_env.'):] if mname.startswith('bridge_env.') else mname
        if pid not in RELEVANT.get(rel, RELEVANT.get(rel.split('.')[-1], set())):
            continue
        # ---- M1: decorators -------------------------------------------------------------------------------------------
        for m, c, fn in repo.all_functions():
            if m is not mod:
                continue
            n_fn += 1
            qual = f'{c.name}.{fn.name}' if c is not None else f'{rel}:{fn.name}'
            decos = [_deco_name(d) for d in fn.decorator_list]
            cached = [d for d in decos if d in CACHE_DECOS]
            if cached:
                where = repo.where(m, fn)
                params = [a for a in fn.args.args]
                is_method = c is not None and params and params[0].arg in ('self',) and 'staticmethod' not in decos
                if is_method:
                    mutated = _mutated_attrs(repo, c)
                    reads = {n.attr for n in ast.walk(fn) if isinstance(n, ast.Attribute) and isinstance(n.value, ast.Name) and n.value.id == 'self'}
                    stale = sorted(reads & mutated)
                    frozen = c.is_enum or (c.is_dataclass and any('frozen=True' in d for d in c.decorators))
                    chk.require(not stale and (frozen or not reads), rule, where, qual, f'@{cached[0]} on {qual}',
                                f'{qual}: cached value cannot go stale',
                                f'`@{cached[0]}` on {qual}: the body reads {stale or sorted(reads)}, which '
                                + ('is mutated after construction - the first value computed is returned for ever' if stale else f'belongs to the mutable class {c.name}'))
                    params = params[1:]
                for a in params:
                    why = _value_type_problem(repo, a.annotation)
                    chk.require(why is None, rule, where, qual, f'@{cached[0]} on {qual}: parameter {a.arg}',
                                f'{qual}: cache key `{a.arg}` is compared by value over all its fields',
                                f'`@{cached[0]}` on {qual}: parameter `{a.arg}` - {why}')
                ret = ast.unparse(fn.returns) if fn.returns is not None else None
                if ret is None:
                    raise AnalysisError(rule, qual, f'`@{cached[0]}` on a function without a return annotation: cannot decide whether the shared result is mutable')
                mut = [t for t in MUTABLE_ANN if t in ret]
                chk.require(not mut, rule, where, qual, f'@{cached[0]} on {qual}: result',
                            f'{qual}: cached result is immutable',
                            f'`@{cached[0]}` on {qual} returns `{ret}`: every caller receives the SAME mutable object; the play engines remove played cards '
                            f'from hand sets in place, so a later call with equal arguments gets a consumed / foreign result')
            # ---- M1b: hand-written memo table: every input the cached value depends on must be part of the key -------------
            stores = [n for n in ast.walk(fn) if isinstance(n, ast.Assign) and len(n.targets) == 1 and isinstance(n.targets[0], ast.Subscript)
                      and isinstance(n.targets[0].value, ast.Name) and n.targets[0].value.id in mod.constants
                      and _is_container(mod.constants[n.targets[0].value.id], mod, n.targets[0].value.id) == 'dict']
            for st in stores:
                table = st.targets[0].value.id
                reads = [n for n in ast.walk(fn) if (isinstance(n, ast.Subscript) and isinstance(n.ctx, ast.Load) and isinstance(n.value, ast.Name) and n.value.id == table) or
                         (isinstance(n, ast.Call) and isinstance(n.func, ast.Attribute) and n.func.attr == 'get' and isinstance(n.func.value, ast.Name) and n.func.value.id == table) or
                         (isinstance(n, ast.Compare) and any(isinstance(c, ast.Name) and c.id == table for c in n.comparators))]
                if not reads:
                    continue        # a registry that is only written here, not a memo
                defs = {}
                for n in ast.walk(fn):
                    if isinstance(n, ast.Assign) and len(n.targets) == 1 and isinstance(n.targets[0], ast.Name):
                        defs.setdefault(n.targets[0].id, []).append(n.value)
                key = st.targets[0].slice
                if isinstance(key, ast.Name) and len(defs.get(key.id, [])) == 1:
                    key_def = defs[key.id][0]
                else:
                    key_def = key
                key_atoms = {ast.unparse(e) for e in (key_def.elts if isinstance(key_def, ast.Tuple) else [key_def])}
                pnames = {a.arg for a in fn.args.args + fn.args.kwonlyargs} - {'self', 'cls'}
                needed = {}
                key_nodes = set(map(id, ast.walk(key_def)))
                for n in ast.walk(fn):
                    if isinstance(n, ast.Name) and n.id in pnames and isinstance(n.ctx, ast.Load) and id(n) not in key_nodes:
                        cur = n
                        from ..index import parent as _parent
                        par = _parent(cur)
                        whole = False
                        while isinstance(par, ast.Attribute) and par.value is cur:
                            nxt = _parent(par)
                            if isinstance(nxt, ast.Call) and nxt.func is par:
                                whole = True        # a method of the parameter may read any of its fields
                                break
                            cur, par = par, nxt
                        atom = n.id if whole else ast.unparse(cur)
                        needed.setdefault(atom, n)
                uncovered = [a for a in needed if not any(a == k or a.startswith(k + '.') for k in key_atoms)]
                # a parameter that only takes part in asserts / emptiness tests before the lookup still selects the value; keep it simple: all uses count
                chk.require(not uncovered, rule, repo.where(m, st), qual, f'memo table {table} keyed by ({", ".join(sorted(key_atoms))})',
                            f'{qual}: every input the cached value depends on is part of the key of `{table}`',
                            f'`{table}` caches the result of {qual} under ({", ".join(sorted(key_atoms))}) but the value also depends on '
                            f'{sorted(uncovered)}: a later call that differs only there is answered with the first caller\'s result')
        # ---- M2: class-level mutable containers mutated through self ----------------------------------------------------------
        for c in mod.classes.values():
            if c.is_enum or c.is_namedtuple or c.is_dataclass:
                continue
            for name, v in c.assigns.items():
                is_mut = isinstance(v, (ast.List, ast.Dict, ast.Set, ast.ListComp, ast.DictComp, ast.SetComp)) or \
                    (isinstance(v, ast.Call) and isinstance(v.func, ast.Name) and v.func.id in ('list', 'dict', 'set', 'defaultdict', 'deque', 'OrderedDict'))
                if not is_mut:
                    continue
                init = c.methods.get('__init__')
                rebinds = init is not None and any(isinstance(n, (ast.Assign, ast.AnnAssign)) and any(
                    isinstance(t, ast.Attribute) and isinstance(t.value, ast.Name) and t.value.id == 'self' and t.attr == name
                    for t in (n.targets if isinstance(n, ast.Assign) else [n.target])) for n in ast.walk(init))
                mutators = []
                for mn, fn in c.methods.items():
                    for n in ast.walk(fn):
                        if isinstance(n, ast.Call) and isinstance(n.func, ast.Attribute) and n.func.attr in MUTATOR_METHODS:
                            t = n.func.value
                            while isinstance(t, ast.Subscript):
                                t = t.value
                            if isinstance(t, ast.Attribute) and isinstance(t.value, ast.Name) and t.value.id in ('self', 'cls', c.name) and t.attr == name:
                                mutators.append((mn, n))
                        if isinstance(n, (ast.Assign, ast.AugAssign)):
                            for t in (n.targets if isinstance(n, ast.Assign) else [n.target]):
                                if isinstance(t, ast.Subscript):
                                    b = t.value
                                    while isinstance(b, ast.Subscript):
                                        b = b.value
                                    if isinstance(b, ast.Attribute) and isinstance(b.value, ast.Name) and b.value.id in ('self', 'cls', c.name) and b.attr == name:
                                        mutators.append((mn, n))
                if mutators and not rebinds:
                    mn, n = mutators[0]
                    chk.fail(rule, repo.where(mod, n), f'{c.name}.{mn}', f'class-level `{c.name}.{name}` mutated in place',
                             f'`{name}` is a mutable container created once in the body of class {c.name} and never re-bound per instance in __init__, yet '
                             f'`{ast.unparse(n)[:60]}` mutates it in place: every {c.name} instance (each board, each replica) shares and corrupts the same object')
        # ---- M4: module-level containers reordered / emptied in place by a function (directly or through a local alias) ---------
        shared = {n: _is_container(v) for n, v in mod.constants.items() if _is_container(v) in ('list', 'set')}
        if shared:
            for m, c, fn in repo.all_functions():
                if m is not mod:
                    continue
                qual = f'{c.name}.{fn.name}' if c is not None else f'{rel}:{fn.name}'
                alias = {}
                for n in ast.walk(fn):
                    if isinstance(n, ast.Assign) and len(n.targets) == 1 and isinstance(n.targets[0], ast.Name) and isinstance(n.value, ast.Name) and n.value.id in shared:
                        alias[n.targets[0].id] = n.value.id

                def root(e):
                    while isinstance(e, ast.Subscript):
                        e = e.value
                    if isinstance(e, ast.Name):
                        return e.id if e.id in shared else alias.get(e.id)
                    return None
                for n in ast.walk(fn):
                    hit = None
                    if isinstance(n, ast.Call) and isinstance(n.func, ast.Attribute) and n.func.attr in MUTATOR_METHODS and root(n.func.value):
                        hit = root(n.func.value)
                    elif isinstance(n, ast.Call) and ast.unparse(n.func) in ('random.shuffle', 'shuffle', 'heapq.heappush', 'heapq.heappop', 'heapq.heapify') and n.args and root(n.args[0]):
                        hit = root(n.args[0])
                    elif isinstance(n, (ast.Assign, ast.AugAssign, ast.Delete)):
                        for t in (n.targets if isinstance(n, (ast.Assign, ast.Delete)) else [n.target]):
                            if isinstance(t, ast.Subscript) and root(t):
                                hit = root(t)
                            if isinstance(n, ast.AugAssign) and isinstance(t, ast.Name) and root(t):
                                hit = root(t)
                    if hit:
                        chk.fail(rule, repo.where(m, n), qual, f'module-level `{hit}` mutated in place by {qual}',
                                 f'`{ast.unparse(n)[:70]}` mutates the module-level container `{hit}` in place: every call (and every thread - the server deals while '
                                 f'other code may deal too) works on the same object, so a result taken from it can change under the caller\'s hands')
        # ---- M5: a result that depends on the iteration order of a set (hash order differs between processes: Enum members and
        #      strings hash by a per-process random seed, so the table manager and a client process can disagree) ------------------
        for m, c, fn in repo.all_functions():
            if m is not mod:
                continue
            qual = f'{c.name}.{fn.name}' if c is not None else f'{rel}:{fn.name}'
            for n in ast.walk(fn):
                if not isinstance(n, ast.For):
                    continue
                it = n.iter
                is_set = isinstance(it, (ast.Set, ast.SetComp)) or (isinstance(it, ast.Call) and isinstance(it.func, ast.Name) and it.func.id in ('set', 'frozenset'))
                if not is_set:
                    continue
                order_sensitive = None
                for x in ast.walk(n):
                    if isinstance(x, (ast.Break, ast.Return)):
                        order_sensitive = order_sensitive or 'leaves the loop early'
                    if isinstance(x, ast.Assign) and any(isinstance(t, ast.Subscript) for t in x.targets):
                        order_sensitive = order_sensitive or f'fills `{ast.unparse(x.targets[0].value)}` in iteration order'
                    if isinstance(x, ast.Call) and isinstance(x.func, ast.Attribute) and x.func.attr in ('append', 'insert', 'extend', 'setdefault'):
                        order_sensitive = order_sensitive or f'`{ast.unparse(x)[:40]}` in iteration order'
                if order_sensitive:
                    chk.fail(rule, repo.where(m, n), qual, f'iteration over the set `{ast.unparse(it)[:40]}` decides a result',
                             f'`for {ast.unparse(n.target)} in {ast.unparse(it)[:50]}` {order_sensitive}: the order of a set of seats / names depends on the '
                             f'process\'s hash seed, so two processes (table manager and a client) or two runs can compute different results (e.g. a different '
                             f'declarer when both partners named the denomination in the same round)')
        # ---- M6: a value memoised in an attribute must be reset by everything that changes what it was computed from ----------------
        for c in mod.classes.values():
            if c.is_enum or c.is_namedtuple:
                continue
            hierarchy = [k for m2 in repo.modules.values() for k in m2.classes.values() if c in repo.mro(k) or k in repo.mro(c)]

            def find_method(name, start=c):
                for k in repo.mro(start):
                    if name in k.methods:
                        return k, k.methods[name]
                return None, None

            def reads_of(fn_, depth=3, seen=()):
                out = set()
                for x in ast.walk(fn_):
                    if isinstance(x, ast.Attribute) and isinstance(x.value, ast.Name) and x.value.id == 'self' and isinstance(x.ctx, ast.Load):
                        out.add(x.attr)
                    if depth > 0 and isinstance(x, ast.Call) and isinstance(x.func, ast.Attribute):
                        v = x.func.value
                        if (isinstance(v, ast.Name) and v.id == 'self') or (isinstance(v, ast.Call) and isinstance(v.func, ast.Name) and v.func.id == 'super'):
                            k2, f2 = find_method(x.func.attr)
                            if f2 is not None and f2.name not in seen:
                                out |= reads_of(f2, depth - 1, seen + (f2.name,))
                return out
            for mname, fn in c.methods.items():
                for n in ast.walk(fn):
                    if not (isinstance(n, ast.If) and isinstance(n.test, ast.Compare) and len(n.test.ops) == 1 and isinstance(n.test.ops[0], ast.Is)
                            and isinstance(n.test.comparators[0], ast.Constant) and n.test.comparators[0].value is None
                            and isinstance(n.test.left, ast.Attribute) and isinstance(n.test.left.value, ast.Name) and n.test.left.value.id == 'self'):
                        continue
                    view = n.test.left.attr
                    fills = [x for x in n.body if isinstance(x, ast.Assign) and len(x.targets) == 1 and isinstance(x.targets[0], ast.Attribute)
                             and isinstance(x.targets[0].value, ast.Name) and x.targets[0].value.id == 'self' and x.targets[0].attr == view]
                    returns = any(isinstance(x, ast.Return) and isinstance(x.value, ast.Attribute) and isinstance(x.value.value, ast.Name)
                                  and x.value.value.id == 'self' and x.value.attr == view for x in ast.walk(fn))
                    if not fills or not returns:
                        continue
                    tmp = ast.FunctionDef(name='_', args=fn.args, body=[ast.Expr(fills[0].value)], decorator_list=[])
                    sources = reads_of(tmp) - {view}
                    # writers of the sources anywhere in the hierarchy, outside constructors
                    for k in hierarchy:
                        for wname, wfn in k.methods.items():
                            if wname == '__init__':
                                continue
                            written = {a for a, _ in writers_of(wfn, sources)}
                            if not written:
                                continue

                            def resets_unconditionally(f_):
                                return any(isinstance(x, ast.Assign) and any(isinstance(t, ast.Attribute) and isinstance(t.value, ast.Name) and t.value.id == 'self'
                                                                               and t.attr == view for t in x.targets) for x in f_.body)
                            if resets_unconditionally(wfn):
                                continue
                            callers = [(k2, f2) for k2 in hierarchy for f2 in k2.methods.values() if f2 is not wfn and any(
                                isinstance(x, ast.Call) and isinstance(x.func, ast.Attribute) and x.func.attr == wname for x in ast.walk(f2))]
                            relevant = [(k2, f2) for k2, f2 in callers if c in repo.mro(k2) or k2 is c]
                            if relevant and all(resets_unconditionally(f2) for _, f2 in relevant):
                                continue
                            chk.fail(rule, repo.where(mod, fills[0]), f'{c.name}.{mname}', f'memo `self.{view}` in {c.name}.{mname} not reset by {k.name}.{wname}',
                                     f'{c.name}.{mname} keeps its result in `self.{view}` (computed from {sorted(sources)}), but {k.name}.{wname} changes '
                                     f'{sorted(written)} without resetting it on every path: after another seat plays, the stale set is handed out '
                                     f'(e.g. the whole hand while the seat must follow suit)')
        # ---- M4b: a piece of module-level data aliased into instance state that is then mutated in place ------------------------------
        def shared_data(v):
            if isinstance(v, (ast.List, ast.Dict, ast.Set, ast.ListComp, ast.DictComp, ast.SetComp)):
                return True
            if isinstance(v, ast.Call):
                f_ = ast.unparse(v.func)
                return f_.split('.')[0] in ('np', 'numpy') or f_ in ('list', 'dict', 'set', 'defaultdict', 'deque', 'bytearray')
            return False
        shared2 = {n for n, v in mod.constants.items() if shared_data(v)}
        if shared2:
            for c in mod.classes.values():
                aliased = {}
                for mname, fn in c.methods.items():
                    for n in ast.walk(fn):
                        if isinstance(n, ast.Assign) and len(n.targets) == 1 and isinstance(n.targets[0], ast.Attribute) and isinstance(n.targets[0].value, ast.Name) \
                                and n.targets[0].value.id == 'self':
                            v = n.value
                            base = v
                            while isinstance(base, ast.Subscript):
                                base = base.value
                            if isinstance(base, ast.Name) and base.id in shared2 and (v is base or isinstance(v, ast.Subscript)):
                                aliased[n.targets[0].attr] = (base.id, n, mname)
                for attr, (const, node, mname) in aliased.items():
                    muts = []
                    for k in [k for m2 in repo.modules.values() for k in m2.classes.values() if c in repo.mro(k)]:
                        for wname, wfn in k.methods.items():
                            for a_, wnode in writers_of(wfn, {attr}):
                                if isinstance(wnode, ast.Assign) and any(isinstance(t, ast.Attribute) and t.attr == attr for t in wnode.targets):
                                    continue        # re-binding, not in-place mutation
                                if isinstance(wnode, ast.AnnAssign) and isinstance(wnode.target, ast.Attribute) and wnode.target.attr == attr:
                                    continue
                                muts.append((k.name, wname, wnode))
                    if muts:
                        k_, w_, wn = muts[0]
                        chk.fail(rule, repo.where(mod, node), f'{c.name}.{mname}', f'`self.{attr}` aliases module-level `{const}` and is mutated in place',
                                 f'`{ast.unparse(node)[:70]}` makes `self.{attr}` a view of the module-level `{const}` (no copy), and `{ast.unparse(wn)[:50]}` in {k_}.{w_} '
                                 f'then writes into it: every {c.name} object that takes the same row shares those writes (two auctions alive at the same last bid corrupt '
                                 f'each other\'s double / redouble slots), and the table itself is spoilt for later boards')
        # ---- M7: lazily built module-level table published before it is complete ----------------------------------------------------------
        for m, c, fn in repo.all_functions():
            if m is not mod:
                continue
            qual = f'{c.name}.{fn.name}' if c is not None else f'{rel}:{fn.name}'
            globs = {n_ for st in ast.walk(fn) if isinstance(st, ast.Global) for n_ in st.names}
            for g in globs:
                for n in ast.walk(fn):
                    if isinstance(n, ast.If) and any(isinstance(x, ast.Name) and x.id == g for x in ast.walk(n.test)):
                        assigns = [i for i, st in enumerate(n.body) if isinstance(st, ast.Assign) and any(isinstance(t, ast.Name) and t.id == g for t in st.targets)]
                        if not assigns:
                            continue
                        later = n.body[assigns[0] + 1:]
                        fills = [x for st in later for x in ast.walk(st)
                                 if (isinstance(x, ast.Assign) and any(isinstance(t, ast.Subscript) and isinstance(t.value, ast.Name) and t.value.id == g for t in x.targets))
                                 or (isinstance(x, ast.Call) and isinstance(x.func, ast.Attribute) and x.func.attr in MUTATOR_METHODS and isinstance(x.func.value, ast.Name)
                                     and x.func.value.id == g)]
                        if fills:
                            chk.fail(rule, repo.where(m, n.body[assigns[0]]), qual, f'module-level `{g}` published before it is filled',
                                     f'`{ast.unparse(n.body[assigns[0]])}` makes the table visible (the `{ast.unparse(n.test)}` test of other threads now fails) before '
                                     f'`{ast.unparse(fills[0])[:50]}` has filled it: a thread that converts a text while another thread is inside the first call sees a '
                                     f'partial table and raises KeyError for a valid text - the server converts calls from five threads')
        # ---- M8: identity comparison (`is` / `is not`) of values that are equal by VALUE: text, numbers, tuples.  Whether two equal strings are
        #      the same object is an accident of interning (a literal of the source is interned, the same text read from a file or socket is
        #      not), so the test succeeds in the unit tests and fails on data ------------------------------------------------------------------------
        def _value_const(node, m_):
            if isinstance(node, ast.Constant) and isinstance(node.value, (str, bytes, int, float, complex)) and not isinstance(node.value, bool):
                return repr(node.value)
            if isinstance(node, ast.Tuple) and isinstance(node.ctx, ast.Load):
                return ast.unparse(node)
            if isinstance(node, ast.Name):
                r_ = repo.resolve_name(m_, node.id)
                if r_ and r_[0] == 'const' and isinstance(r_[2], (ast.Constant, ast.Tuple, ast.JoinedStr)) and not (isinstance(r_[2], ast.Constant) and (r_[2].value is None or isinstance(r_[2].value, bool))):
                    return f'{node.id} = {ast.unparse(r_[2])[:40]}'
            return None
        for m, c, fn in repo.all_functions():
            if m is not mod:
                continue
            qual = f'{c.name}.{fn.name}' if c is not None else f'{rel}:{fn.name}'
            for n in ast.walk(fn):
                if isinstance(n, ast.Compare) and any(isinstance(o, (ast.Is, ast.IsNot)) for o in n.ops):
                    operands = [n.left] + list(n.comparators)
                    for i, o in enumerate(n.ops):
                        if isinstance(o, (ast.Is, ast.IsNot)):
                            for side in (operands[i], operands[i + 1]):
                                vc = _value_const(side, m)
                                if vc is not None:
                                    chk.fail(rule, repo.where(m, n), qual, f'identity comparison with a value: `{ast.unparse(n)[:60]}`',
                                             f'`{ast.unparse(n)}` compares by identity with the value {vc}: two equal texts / numbers need not be the same object (a literal of the '
                                             f'source is interned, the same text parsed from a file, a message or built at run time is not), so the test is true in unit tests '
                                             f'and false on data - compare with == / !=')
                                    break
        # ---- M9: a one-shot iterator kept in a module-level or class-level name: a generator expression, map / filter / zip / iter / reversed /
        #      enumerate object stored once at import time is exhausted by its first use, every later use sees it empty -------------------------------
        ONE_SHOT = {'map', 'filter', 'zip', 'iter', 'reversed', 'enumerate'}

        def _one_shot(v):
            return isinstance(v, ast.GeneratorExp) or (isinstance(v, ast.Call) and isinstance(v.func, ast.Name) and v.func.id in ONE_SHOT)
        holders = [(n_, v_, None) for n_, v_ in mod.constants.items() if _one_shot(v_)]
        for cname_, ci_ in mod.classes.items():
            holders += [(n_, v_, ci_) for n_, v_ in ci_.assigns.items() if _one_shot(v_) and not ci_.is_enum]
        for n_, v_, ci_ in holders:
            users = [f'{c.name}.{fn.name}' if c is not None else fn.name for m, c, fn in repo.all_functions() if m is mod and any(
                (isinstance(x, ast.Name) and x.id == n_ and ci_ is None) or (isinstance(x, ast.Attribute) and x.attr == n_ and ci_ is not None) for x in ast.walk(fn))]
            if users:
                chk.fail(rule, repo.where(mod, v_), f'{rel}:{n_}' if ci_ is None else f'{ci_.name}.{n_}', f'one-shot iterator kept in `{n_}`',
                         f'`{n_} = {ast.unparse(v_)[:60]}` is an iterator created once at import time and used in {users[:3]}: the first membership test or loop consumes it '
                         f'(up to the item found), every later use sees what is left - the second call of the same function gives a different answer')
        # ---- M3: mutable default arguments mutated in the body ------------------------------------------------------------------
        for m, c, fn in repo.all_functions():
            if m is not mod:
                continue
            qual = f'{c.name}.{fn.name}' if c is not None else f'{rel}:{fn.name}'
            pos = fn.args.args[len(fn.args.args) - len(fn.args.defaults):] if fn.args.defaults else []
            for a, d in list(zip(pos, fn.args.defaults)) + [(a, d) for a, d in zip(fn.args.kwonlyargs, fn.args.kw_defaults) if d is not None]:
                if isinstance(d, (ast.List, ast.Dict, ast.Set)) or (isinstance(d, ast.Call) and isinstance(d.func, ast.Name) and d.func.id in ('list', 'dict', 'set')):
                    muts = [n for n in ast.walk(fn) if isinstance(n, ast.Call) and isinstance(n.func, ast.Attribute) and n.func.attr in MUTATOR_METHODS
                            and isinstance(n.func.value, ast.Name) and n.func.value.id == a.arg]
                    stores = [n for n in ast.walk(fn) if isinstance(n, ast.Assign) and any(isinstance(t, ast.Attribute) and isinstance(n.value, ast.Name)
                                                                                         and n.value.id == a.arg for t in n.targets)]
                    if muts or stores:
                        chk.fail(rule, repo.where(m, fn), qual, f'mutable default `{a.arg}` of {qual}',
                                 f'parameter `{a.arg}={ast.unparse(d)}` of {qual} is a mutable default that is '
                                 + ('mutated in the body' if muts else 'stored on the instance') + ': calls / instances share one object across boards')
    # ---- M10: a class with its own copy protocol gives copy.deepcopy an independent object --------------------------------------
    from . import copyproto
    copyproto.run(chk, rule, {rel_ for rel_, pids_ in RELEVANT.items() if pid in pids_})
    chk.ok(rule, 'package', f'{n_fn} functions of the modules {pid} depends on: no unsound memoisation, no shared class-level mutable state, no mutated mutable default')
