"""Shared rules for the JSON writer / parser / schema triangle (C12, C17.R1, C14.R3)."""
from __future__ import annotations

import ast
import json
import os
from typing import Dict, List, Optional, Set

from ..index import AnalysisError, parent
from ..paths import Summarizer
from ..typeflow import (JsonTyper, RAW, TypeInfer, against_schema, mismatch, parse_annotation, show)
from .common import floc, loc

JH = 'data_handler.json_handler'


def load_schemas(repo, rule):
    base = os.path.join(repo.root, 'bridge_env', 'data_handler', 'json_handler')
    out = {}
    for fn in ('log_format.schema.json', 'board_setting_format.schema.json'):
        p = os.path.join(base, fn)
        if not os.path.exists(p):
            raise AnalysisError(rule, p, 'schema file not found')
        try:
            out[fn] = json.load(open(p, encoding='utf-8'))
        except ValueError as e:
            raise AnalysisError(rule, p, f'schema is not valid JSON: {e}')
    return out


def resolver(schemas, current):
    def resolve(node):
        seen = 0
        cur_file = current
        while isinstance(node, dict) and '$ref' in node and seen < 10:
            ref = node['$ref']
            fn, _, frag = ref.partition('#')
            if fn:
                cur_file = fn
            doc = schemas.get(cur_file)
            if doc is None:
                raise AnalysisError('schema', ref, 'unresolvable $ref')
            node = doc
            for part in [x for x in frag.split('/') if x]:
                node = node[part]
            seen += 1
        return node
    return resolve


class WriterRecord:
    """The record dict a JSON writer hands to _write_content: unconditional keys (dict literal) and
    optional keys (stores on some paths), with the typing context of the write method."""

    def __init__(self, repo, cls: str, rule: str, chk=None):
        self.repo, self.cls = repo, cls
        ci, fn = repo.method(cls, 'write', rule)
        self.mod, self.fn = ci.module, fn
        self.where = repo.where(ci.module, fn)
        self.qual = f'{cls}.write'
        params = {a.arg: parse_annotation(a.annotation) for a in fn.args.args[1:]}
        self.ti = TypeInfer(repo, ci.module, params, owner=repo.cls(cls, rule))
        self.typer = JsonTyper(self.ti)
        S = Summarizer(repo, rule)
        self.guard_ok = True
        paths = S.paths(cls, 'write', dyn=cls)
        self.literal: Optional[ast.Dict] = None
        self.optional: Dict[str, ast.AST] = {}
        self.raise_paths = [p for p in paths if p.end[0] == 'raise']
        n_ok = 0
        for p in paths:
            if p.end[0] == 'raise':
                continue
            enters = [e for e in p.events if e.kind == 'enter' and e.callee.endswith('._write_content')]
            if len(enters) != 1:
                raise AnalysisError(rule, self.qual, 'record is not handed to _write_content exactly once on a path')
            call = enters[0].node.value
            arg = call.args[0] if call.args else None
            if not isinstance(arg, ast.Name):
                raise AnalysisError(rule, self.qual, 'record argument is not a local name')
            name = arg.id
            # the dict literal assigned to that local in the method body
            binds = [n for n in ast.walk(fn) if isinstance(n, ast.Assign) and len(n.targets) == 1 and isinstance(n.targets[0], ast.Name) and n.targets[0].id == name]
            persistent = [n for n in binds if isinstance(n.value, ast.Attribute) and isinstance(n.value.value, ast.Name) and n.value.value.id == 'self']
            if persistent and chk is not None:
                # the record object outlives the call: a key stored for one board only (under an `if`) stays in the record of later boards
                cond_keys = []
                for n in ast.walk(fn):
                    if isinstance(n, ast.If):
                        for x in ast.walk(n):
                            if isinstance(x, ast.Assign) and isinstance(x.targets[0], ast.Subscript) and isinstance(x.targets[0].value, ast.Name) \
                                    and x.targets[0].value.id == name and isinstance(x.targets[0].slice, ast.Constant):
                                cond_keys.append(x.targets[0].slice.value)
                removed = {x.args[0].value for x in ast.walk(fn) if isinstance(x, ast.Call) and isinstance(x.func, ast.Attribute) and x.func.attr == 'pop'
                           and isinstance(x.func.value, ast.Name) and x.func.value.id == name and x.args and isinstance(x.args[0], ast.Constant)}
                cleared = any(isinstance(x, ast.Call) and isinstance(x.func, ast.Attribute) and x.func.attr == 'clear' and isinstance(x.func.value, ast.Name)
                              and x.func.value.id == name for x in ast.walk(fn))
                stale = [k for k in cond_keys if k not in removed]
                if stale and not cleared:
                    chk.fail(rule, repo.where(ci.module, persistent[0]), self.qual, f'record kept in `{ast.unparse(persistent[0].value)}` across writes; key {stale[0]!r} stored conditionally',
                             f'`{ast.unparse(persistent[0])}`: one record object is reused for every board, and {stale} is stored only when given and never removed - a board '
                             f'written without it after a board that had it is logged (and read back) with the EARLIER board\'s {stale[0]}')
            lits = [n for n in ast.walk(fn) if isinstance(n, ast.Assign) and len(n.targets) == 1 and
                    isinstance(n.targets[0], ast.Name) and n.targets[0].id == name and isinstance(n.value, ast.Dict)]
            if len(lits) != 1 or not isinstance(parent(lits[0]), ast.FunctionDef):
                raise AnalysisError(rule, self.qual, 'record is not built from one unconditional dict literal')
            self.literal = lits[0].value
            n_ok += 1
            on_path = set()
            for e in p.events:
                if e.kind == 'store' and e.target == name and len(e.keys) == 1 and isinstance(e.keys[0], ast.Constant):
                    self.optional[e.keys[0].value] = e.node.value
                    on_path.add(e.keys[0].value)
            # keys stored on EVERY writing path (e.g. in both arms of an if / else) are written unconditionally
            self.always = on_path if getattr(self, 'always', None) is None else (self.always & on_path)
        if n_ok == 0 or self.literal is None:
            raise AnalysisError(rule, self.qual, 'no writing path found')
        self.keys = [k.value for k in self.literal.keys if isinstance(k, ast.Constant)]
        if len(self.keys) != len(self.literal.keys):
            raise AnalysisError(rule, self.qual, 'record dict has non-literal keys')

    def json_type(self):
        j = self.typer.of(self.literal)
        opt = {k: self.typer.of(v) for k, v in self.optional.items()}
        return j, opt

    def value(self, key) -> Optional[ast.AST]:
        for k, v in zip(self.literal.keys, self.literal.values):
            if k.value == key:
                return v
        return self.optional.get(key)


def check_writer_schema(chk, rule, rec: WriterRecord, schema_file: str, item_path: List[str], schemas):
    resolve = resolver(schemas, schema_file)
    node = schemas[schema_file]
    for part in item_path:
        node = node[part]
    j, opt = rec.json_type()
    problems = against_schema(j, node, resolve)
    props = resolve(node).get('properties', {})
    for k, v in opt.items():
        if k in props:
            problems += against_schema(v, props[k], resolve, k)
    unknown_keys = [k for k in list(j.get('properties', {})) + list(opt) if k not in props]
    for k in rec.keys + list(rec.optional):
        sub = [pr for pr in problems if pr.startswith(k + ':') or pr.startswith(k + '.') or pr.startswith(k + '[')]
        v = rec.value(k)
        chk.require(not sub, rule, chk.repo.where(rec.mod, v), rec.qual, f"'{k}': {ast.unparse(v)[:60]}",
                    f'written key {k!r} has a JSON type the schema {schema_file} allows',
                    f'{schema_file}: ' + '; '.join(sub))
    rest = [pr for pr in problems if not any(pr.startswith(k + c) for k in rec.keys + list(rec.optional) for c in ':.[')]
    rest = [pr for pr in rest if not any(f'required key {k!r} is not written unconditionally' in pr for k in (getattr(rec, 'always', None) or ()))]
    chk.require(not rest, rule, rec.where, rec.qual, f'record vs {schema_file}',
                'every required key of the schema is written unconditionally', '; '.join(rest))
    chk.require(not unknown_keys, rule, rec.where, rec.qual, f'keys not in {schema_file}: {unknown_keys}',
                'every written key is described by the schema', f'keys {unknown_keys} are written but not described by {schema_file}')


def data_keys(expr: ast.AST, data: str) -> Set[str]:
    out = set()
    for n in ast.walk(expr):
        if isinstance(n, ast.Subscript) and isinstance(n.value, ast.Name) and n.value.id == data and \
                isinstance(n.slice, ast.Constant) and isinstance(n.slice.value, str):
            out.add(n.slice.value)
    return out


class ReaderRecord:
    """The constructor call a converter returns (BoardSetting(...) / BoardLog(...)) with every local
    replaced by its reaching definition; typed-field flow and key provenance per field."""

    def __init__(self, repo, func: str, result_cls: str, rule: str, setting: 'ReaderRecord' = None):
        self.repo = repo
        self.m, self.fn = repo.function(f'{JH}.parser', func, rule)
        self.where, self.qual = floc(repo, f'{JH}.parser', func, rule)
        self.data = self.fn.args.args[0].arg
        paths = [p for p in Summarizer(repo, rule).function_paths(f'{JH}.parser', func) if p.end[0] == 'return']
        if not paths:
            raise AnalysisError(rule, self.qual, 'no returning path')
        self.path = paths[0]
        ci = repo.cls(result_cls, rule)
        names = [n for n in ci.order if n in ci.annots]
        per_path = []
        for pth in paths:
            call = pth.end[1]
            if not (isinstance(call, ast.Call) and ast.unparse(call.func) == result_cls):
                raise AnalysisError(rule, self.qual, f'does not return {result_cls}(...)')
            d = dict(zip(names, call.args))
            d.update({k.arg: k.value for k in call.keywords})
            per_path.append(d)
        self.fields: Dict[str, ast.AST] = {}
        for fld in per_path[0]:
            alts = {}
            for pth, d in zip(paths, per_path):
                if fld not in d:
                    raise AnalysisError(rule, self.qual, f'field {fld} is not supplied on every path')
                alts.setdefault(ast.unparse(d[fld]), (d[fld], []))[1].append(pth)
            if len(alts) == 1:
                self.fields[fld] = next(iter(alts.values()))[0]
                continue
            # `x = None; if <guard>: x = E`  (statement form of `E if <guard> else None`): rebuild the conditional expression
            none_alt = [k for k, (e, _) in alts.items() if isinstance(e, ast.Constant) and e.value is None]
            if len(alts) != 2 or len(none_alt) != 1:
                raise AnalysisError(rule, self.qual, f'field {fld} has {len(alts)} different definitions over the paths of the converter')
            (e1, p1) = next(v for k, v in alts.items() if k != none_alt[0])
            (_, p0) = alts[none_alt[0]]

            def condset(pth):
                return {(ast.unparse(c.test), c.polarity): c for c in pth.conds()}
            common1 = set.intersection(*[set(condset(x)) for x in p1])
            common0 = set.intersection(*[set(condset(x)) for x in p0])
            sel = [(t, pol) for (t, pol) in common1 if (t, not pol) in common0]
            if len(sel) != 1:
                raise AnalysisError(rule, self.qual, f'cannot find the guard that decides field {fld}')
            t, pol = sel[0]
            test = condset(p1[0])[(t, pol)].test
            if not pol:
                test = ast.UnaryOp(ast.Not(), test)
            self.fields[fld] = ast.IfExp(test, e1, ast.Constant(None))
        self.annots = {n: parse_annotation(ci.annots[n]) for n in names}
        self.ti = TypeInfer(repo, self.m, {}, raw_names=[self.data])
        self.setting = setting
        self.asserted = set()
        for e in self.path.events:
            if e.kind == 'assert':
                t = e.test
                if isinstance(t, ast.Compare) and isinstance(t.ops[0], ast.In) and isinstance(t.left, ast.Constant):
                    self.asserted.add(t.left.value)

    def deps(self, expr: ast.AST) -> Set[str]:
        out = data_keys(expr, self.data)
        if self.setting is not None:
            for n in ast.walk(expr):
                if isinstance(n, ast.Attribute) and isinstance(n.value, ast.Call) and \
                        ast.unparse(n.value.func) == 'convert_board_setting' and n.attr in self.setting.fields:
                    out |= self.setting.deps(self.setting.fields[n.attr])
        return out

    def conditional_keys(self) -> Set[str]:
        """Keys read only under an `'k' in data` guard (optional for the reader)."""
        out = set()
        for f, e in self.fields.items():
            for n in ast.walk(e):
                if isinstance(n, ast.IfExp):
                    for c in ast.walk(n.test):
                        if isinstance(c, ast.Compare) and isinstance(c.ops[0], ast.In) and isinstance(c.left, ast.Constant) \
                                and ast.unparse(c.comparators[0]) == self.data:
                            out.add(c.left.value)
        if self.setting is not None:
            out |= self.setting.conditional_keys()
        return out

    def all_keys(self) -> Set[str]:
        s = set()
        for e in self.fields.values():
            s |= self.deps(e)
        return s | self.asserted


def check_typed_fields(chk, rule, rr: ReaderRecord):
    n = 0
    for fld, expr in rr.fields.items():
        rr.ti.checks.clear()
        got = rr.ti.infer(expr)
        annot = rr.annots.get(fld)
        n += 1
        bad = mismatch(got, annot) if annot is not None else None
        if bad is not None and (bad.startswith('Unknown ') or bad.startswith('Any ') or 'Any' in show(got)):
            raise AnalysisError(rule, rr.qual, f'cannot type `{ast.unparse(expr)[:70]}` for field {fld} ({bad})')
        chk.require(bad is None, rule, rr.repo.where(rr.m, expr), rr.qual, f'{fld}={ast.unparse(expr)[:70]}',
                    f'field {fld}: {show(annot)} receives {show(got)}',
                    f'field `{fld}` is declared {show(annot)} but receives {bad} (`{ast.unparse(expr)[:80]}`): the value read back '
                    f'is not the library object that was written')
        for (callee, slot, inferred, ann, node) in list(rr.ti.checks):
            n += 1
            b2 = mismatch(inferred, ann)
            if b2 is not None and (b2.startswith('Unknown ') or b2.startswith('Any ') or 'Any' in show(inferred)):
                raise AnalysisError(rule, rr.qual, f'cannot type `{ast.unparse(node)[:70]}` for {callee}.{slot} ({b2})')
            chk.require(b2 is None, rule, rr.repo.where(rr.m, node), rr.qual, f'{callee}({slot}={ast.unparse(node)[:60]})',
                        f'{callee}.{slot}: {show(ann)} receives {show(inferred)}',
                        f'`{callee}` slot `{slot}` is declared {show(ann)} but receives {b2} (`{ast.unparse(node)[:80]}`)')
    return n


def converter_names(expr: ast.AST, mod=None, depth: int = 2) -> Set[str]:
    out = set()
    for n in ast.walk(expr):
        if isinstance(n, ast.Call):
            out.add(ast.unparse(n.func))
            # look through a helper function of the reader module (e.g. a per-trick converter that was extracted)
            if mod is not None and depth > 0 and isinstance(n.func, ast.Name) and n.func.id in mod.functions:
                out |= converter_names(mod.functions[n.func.id], mod, depth - 1)
        if isinstance(n, ast.Subscript) and isinstance(n.value, ast.Name) and n.value.id[:1].isupper():
            out.add(n.value.id + '[]')
    return out


TYPE_CONVERTER = {'Player': {'Player[]', 'Player.convert_formal_name'}, 'Pair': {'Pair[]'}, 'Suit': {'Suit[]'},
                  'Vul': {'Vul.str_to_vul'}, 'Bid': {'Bid.str_to_bid'}, 'Card': {'Card.str_to_card'},
                  'Contract': {'Contract.str_to_contract'}, 'Hands': {'hands_parser', 'Hands.convert_pbn'},
                  'TrickHistory': {'TrickHistory'}, 'BoardSetting': {'convert_board_setting'}}


def leaves(t):
    if t[0] == 'leaf':
        return {t[1]}
    out = set()
    for x in t[1:]:
        if isinstance(x, tuple):
            out |= leaves(x)
    return out


def check_converters(chk, rule, repo, mod, qual, fields, annots, inline=None):
    """For every library value type a reader field declares, the inverse converter of the writer's
    notation (str() <-> X[...] / X.str_to_x, established as inverses by C15) must be the one applied."""
    for fld, expr in fields.items():
        ann = annots.get(fld)
        if ann is None or (isinstance(expr, ast.Constant) and expr.value is None):
            continue
        used = converter_names(expr, mod)
        if inline is not None:
            for n in ast.walk(expr):
                if isinstance(n, ast.Attribute) and isinstance(n.value, ast.Call) and ast.unparse(n.value.func) == 'convert_board_setting' \
                        and n.attr in inline.fields:
                    used |= converter_names(inline.fields[n.attr], mod)
        for leaf in sorted(leaves(ann)):
            if leaf not in TYPE_CONVERTER:
                continue
            ok = bool(used & TYPE_CONVERTER[leaf])
            chk.require(ok, rule, repo.where(mod, expr), qual, f'{fld}: converter for {leaf} in `{ast.unparse(expr)[:60]}`',
                        f'field {fld}: {leaf} values are rebuilt by {sorted(TYPE_CONVERTER[leaf])}',
                        f'field `{fld}` ({leaf}) is rebuilt by {sorted(used) or "no converter"}; the writer\'s notation is inverted by '
                        f'{sorted(TYPE_CONVERTER[leaf])} (e.g. Vul["None"] / Vul["All"] do not exist)')


def check_truthiness(chk, rule, repo, module=f'{JH}.parser'):
    """Presence of a JSON value is tested with `in` / `is None`, never by its truth value: [] / 0 / "" / {} are legal values
    that were written (a board with no completed trick, a result of 0 tricks, an empty settings list) and must be read back."""
    m = repo.module(module, rule)
    n_ctx = 0
    for mod, c, fn in repo.all_functions():
        if mod is not m:
            continue
        qual = f'{c.name}.{fn.name}' if c is not None else f'{module.split(".")[-1]}:{fn.name}'
        raw = set()
        params = [a.arg for a in fn.args.args if a.arg not in ('self', 'cls', 'fp')]
        ann = {a.arg: (ast.unparse(a.annotation) if a.annotation is not None else '') for a in fn.args.args}
        for pn in params:
            if ann.get(pn, '') in ('dict', 'Dict', 'list', 'List') or ann.get(pn, '').startswith(('Dict[', 'List[', 'dict[', 'list[')) or pn in ('data', 'd'):
                raw.add(pn)

        def is_raw(e):
            if isinstance(e, ast.Name):
                return e.id in raw
            if isinstance(e, ast.Subscript):
                return is_raw(e.value)
            if isinstance(e, ast.Call) and isinstance(e.func, ast.Attribute) and e.func.attr == 'get':
                return is_raw(e.func.value)
            if isinstance(e, ast.Call) and ast.unparse(e.func) in ('json.load', 'json.loads'):
                return True
            return False
        changed = True
        while changed:
            changed = False
            for n in ast.walk(fn):
                if isinstance(n, (ast.Assign, ast.AnnAssign)) and n.value is not None:
                    t = n.targets[0] if isinstance(n, ast.Assign) else n.target
                    if isinstance(t, ast.Name) and t.id not in raw and is_raw(n.value):
                        raw.add(t.id)
                        changed = True
                if isinstance(n, (ast.For, ast.comprehension)) and is_raw(n.iter):
                    for x in ast.walk(n.target):
                        if isinstance(x, ast.Name) and x.id not in raw:
                            raw.add(x.id)
                            changed = True
        ctxs = []
        for n in ast.walk(fn):
            if isinstance(n, (ast.If, ast.IfExp, ast.While)):
                ctxs.append(n.test)
            elif isinstance(n, ast.BoolOp):
                ctxs += n.values[:-1] if not isinstance(parent(n), (ast.If, ast.IfExp, ast.While, ast.UnaryOp)) else n.values
            elif isinstance(n, ast.UnaryOp) and isinstance(n.op, ast.Not):
                ctxs.append(n.operand)
            elif isinstance(n, ast.comprehension):
                ctxs += n.ifs
            elif isinstance(n, ast.Assert):
                ctxs.append(n.test)
            elif isinstance(n, ast.Call) and isinstance(n.func, ast.Name) and n.func.id == 'bool' and n.args:
                ctxs.append(n.args[0])
        for t in ctxs:
            n_ctx += 1
            if isinstance(t, ast.BoolOp):
                continue      # its operands are visited on their own
            if is_raw(t):
                chk.fail(rule, repo.where(m, t), qual, f'truth value of JSON value `{ast.unparse(t)[:60]}`',
                         f'`{ast.unparse(t)[:80]}` is used as a truth value: an empty list / 0 / "" that was written (no completed trick, 0 tricks, an empty list of '
                         f'boards) is treated as absent and read back as something else - test presence with `in` and `is None`')
    chk.ok(rule, repo.where(m, m.tree), f'{n_ctx} boolean contexts in the JSON reader: no JSON value is used as a truth value')
