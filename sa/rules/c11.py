"""C11 - all replicas of a board agree with the table manager.

R1  one state machine: the play state (leader, turn, trick number, counts, history, played cards,
    current trick, trump, declarer, dummy) is written only by methods of the base class
    PlayingPhase; no replica class overrides a state-machine method (play_card, _record,
    _set_next_leader, calc_highest, has_done); both play_card_by_player overrides hand the
    unmodified card to the shared play_card exactly once on every accepting path.
R2  a replica is never stricter than the table manager: for every (seat on turn, seat named,
    observer seat, dummy seat, card held or not, dummy disclosed or not) the observer accepts
    whenever the full-information engine accepts (path-sensitive summaries of both overrides).
    R1 + R2 make agreement of observer and table manager inductive over the public plays.
R4  abstract interpretation of the whole session with the bundled Client as the four peers, for
    every role configuration: no mirror is built from anything but the announced dealer /
    vulnerability / contract / own hand / disclosed dummy hand, every call and card a mirror is fed
    is the one the table manager's engine applied at that step (same board, index, seat), no
    client is answered ERROR, every client finishes iff the server does, and at the end of every
    board the four mirrors hold the table manager's calls, contract, cards, trick number, leader
    and turn.
Not decided: card and call values inside the mirrors (opaque tokens here; their text round trip is C19)."""
from __future__ import annotations

import ast

from ..index import AnalysisError
from ..report import Check
from . import session as S
from .common import external_mutations, loc, writers_of

STATE = {'leader', 'active_player', 'trick_num', 'taken_tricks', 'playing_history', 'used_cards', '_trick_cards', 'trump', 'declarer', 'dummy',
         'contract', '_contract'}
MACHINE = ('play_card', '_record', '_set_next_leader', 'calc_highest', 'has_done', '_check_active_player')
REPLICAS = ('PlayingPhaseWithHands', 'ObservedPlayingPhase')


def run(chk):
    repo = chk.repo
    chk.explanation = __doc__
    from . import playout
    playout.run(chk, 'C11')      # R5: four replicas in lock-step with the table manager's engine through complete play-outs
    chk.trusted += ['sa.skeleton engine stubs (turn logic as established by C01-C05)', 'C05 path summaries (sa.rules.c05) reused for R2']
    chk.assumptions += ['the observer is given its true hand and the true dummy hand (C10/C19)', 'policies return legal calls and cards (C01, C06)']
    base = repo.cls('PlayingPhase', 'C11.R1')
    # ---- R1 -----------------------------------------------------------------------------------------------------------
    init_attrs = {a for a, _ in writers_of(base.methods['__init__'], STATE)} if '__init__' in base.methods else set()
    state = init_attrs or STATE
    chk.floor('C11.R1', 'play-state attributes initialised by PlayingPhase.__init__', len(init_attrs), 8)
    n_over = 0
    for cname in REPLICAS:
        ci = repo.cls(cname, 'C11.R1')
        if not any(c.name == 'PlayingPhase' for c in repo.mro(ci)):
            raise AnalysisError('C11.R1', cname, 'replica class no longer derives from PlayingPhase')
        for m in MACHINE:
            n_over += 1
            fn = ci.methods.get(m)
            chk.require(fn is None, 'C11.R1', repo.where(ci.module, fn) if fn is not None else repo.where(ci.module, ci.node), f'{cname}.{m}', f'{cname} overrides {m}',
                        f'{cname} inherits {m} from PlayingPhase (one state machine for every replica)',
                        f'{cname} overrides `{m}`: this replica no longer runs the table manager\'s state machine and can disagree on turn / trick / winner')
        for meth, fn in ci.methods.items():
            for attr, node in writers_of(fn, state):
                chk.require(False, 'C11.R1', repo.where(ci.module, node), f'{cname}.{meth}', f'{cname}.{meth} writes {attr}',
                            'replica classes do not write the shared play state',
                            f'`{ast.unparse(node)[:80]}` in {cname}.{meth} writes `{attr}`, which belongs to the shared state machine of PlayingPhase')
        # properties shadowing state attributes
        for meth, fn in ci.methods.items():
            if meth in state:
                chk.fail('C11.R1', repo.where(ci.module, fn), f'{cname}.{meth}', f'{cname} redefines {meth}', f'{cname} redefines the state attribute `{meth}` as a method/property')
    chk.instances('C11.R1', n_over)
    for (m, qual, node) in external_mutations(repo, {'leader', 'active_player', 'trick_num', 'taken_tricks', 'playing_history', '_trick_cards'},
                                              exclude_classes=('PlayingPhase', 'BiddingPhase', 'PlayingHistory')):
        chk.fail('C11.R1', repo.where(m, node), qual, ast.unparse(node)[:80], f'`{ast.unparse(node)[:80]}` mutates play state from outside the engine')
    chk.ok('C11.R1', 'package', 'no code outside PlayingPhase mutates leader / turn / trick number / counts / history / current trick')

    from .playfold import acceptance_rule
    acc = Check('C11', chk.tier, repo, chk.seed)
    acceptance_rule(acc, 'C05.R5', 'C11.R2')
    for f_ in acc.findings:
        if f_.rule == 'C11.R2':
            chk.fail('C11.R2', f_.where, f_.qual, f_.construct, f_.reason)
    chk.evals(acc.evaluations)
    # ---- R2 (and the `exactly once, unmodified card` clause of R1) via the C05 summaries ------------------------------------
    from . import c05
    shadow = Check('C05', chk.tier, repo, chk.seed)
    c05.run(shadow)
    chk.evals(shadow.evaluations)
    n2 = 0
    for f in shadow.findings:
        if f.rule == 'C05.R2' and 'legal play refused' in f.construct:
            n2 += 1
            chk.fail('C11.R2', f.where, f.qual, f.construct, 'a replica refuses a play the table manager accepts: ' + f.reason, **f.extra)
        elif f.rule == 'C05.R3' and 'trick' in f.construct:
            chk.fail('C11.R1', f.where, f.qual, f.construct, 'the card handed to the shared state machine is not the played card, exactly once: ' + f.reason)
        else:
            chk.fail('C11.D', f.where, f.qual, f'[{f.rule}] {f.construct}', '(the statement of C11 rests on C05) ' + f.reason, **f.extra)
    r2 = shadow.rules.get('C05.R2', {})
    skipped = [x for x in shadow.notes if 'not evaluated' in x]
    if skipped:
        # the path summaries of C05 could not bind this shape of the engines; acceptance is decided by the folds (C05.R5 / C11.R2 above) and the
        # complete play-outs in lock-step (C11.R5)
        chk.note('C11.R2 via the C05 path summaries not evaluated: ' + skipped[0][:200])
    else:
        chk.floor('C11.R2', 'accepted-play situations evaluated for both engines', r2.get('obligations', 0), 40)
    if not n2:
        chk.ok('C11.R2', 'bridge_env/playing_phase.py', f'in {r2.get("obligations", 0)} evaluated situations every play in turn of a held card (dummy disclosed) is accepted by '
                                                           f'ObservedPlayingPhase and PlayingPhaseWithHands alike')

    # ---- R4 ---------------------------------------------------------------------------------------------------------------
    res = S.run_family(chk, ['duality'])
    S.record(chk, res)
    chk.floor('C11.R4', 'abstract sessions', len(res), 30)
    chk.exhaustive = chk.tier == 'thorough'
    chk.extra['sessions'] = {'runs': len(res), 'configurations': len({r['vid'] for r in res}), 'policies': sorted({r['policy'] for r in res}),
                             'events_interpreted': sum(r['stats'].get('events', 0) for r in res)}
