"""CLI:  /venv/bin/python -m sa.check <Cxx> [--tier quick|thorough] [--repo DIR]
             /venv/bin/python -m sa.check --replay <replay.json>

exit 0 = every obligation discharged; exit 1 + `VIOLATION property=<id> replay=<path>` = an
obligation is not discharged at a recognised construct; exit 2 + `ANALYSIS-ERROR` = the rule
could not be evaluated (vanished anchor, unrecognised shape, instance floor not met)."""
from __future__ import annotations

import argparse
import importlib
import json
import os
import sys

from .index import Repo
from .report import Check, analysis_error


# The statement of a property often rests on another one ("the contract, declarer, tricks and score that follow from those
# by the rules" in C08 are C02/C03/C04/C07's subject).  The rules of the properties listed here are evaluated again inside the
# dependent check and their findings are reported under <pid>.D, so that a change to an engine or converter is reported by every
# property whose statement it falsifies.  (Findings only; an analysis error inside a dependency is noted, the dependency's own
# check reports it.)
DEPENDS = {
    'C08': ['C02', 'C03', 'C04', 'C07', 'C12', 'C19'],
    'C09': ['C02', 'C03', 'C04', 'C19'],
    'C10': ['C02', 'C03', 'C04', 'C19'],
    'C06': ['C05'],
    'C04': ['C05'],          # a refused play that has already entered the trick corrupts the trick state
    'C11': ['C04', 'C03', 'C19'],        # C05 is evaluated inside sa.rules.c11 itself (R2)
    'C12': ['C15'],
    'C17': ['C14', 'C15'],
    'C18': ['C14', 'C15'],
    'C19': ['C15'],
    'C13': [],
    'C20': ['C19F'],
}


def run_dependencies(chk) -> None:
    from .index import AnalysisError
    pending = []
    for dep in DEPENDS.get(chk.pid, []):
        shadow = Check(dep[:3], chk.tier, chk.repo, chk.seed)
        rule = f'{chk.pid}.D'
        try:
            importlib.import_module(f'sa.rules.{dep.lower()}').run(shadow)
        except AnalysisError as e:
            chk.note(f'dependency {dep} could not be evaluated completely ({e.rule}: {e.why[:160]}); see the {dep} check')
            if not shadow.findings:
                # what this property rests on is not decided on this tree: no silent pass (reported after the other dependencies)
                pending.append(AnalysisError(f'{chk.pid}.D', f'{dep} ({e.anchor})', f'the statement of {chk.pid} rests on {dep}, which could not be evaluated: {e.rule}: {e.why[:200]}'))
                continue
        chk.evals(shadow.evaluations)
        for f in shadow.findings:
            chk.fail(rule, f.where, f.qual, f'[{f.rule}] {f.construct}', f'(the statement of {chk.pid} rests on {dep}) {f.reason}', **f.extra)
        if not shadow.findings:
            chk.ok(rule, f'rules of {dep}', f'{dep}: {shadow.discharged} obligations of the property {chk.pid} rests on are discharged')
    if pending and not chk.findings:
        raise pending[0]


def run_property(pid: str, tier: str, repo_root: str, seed: int, only_key=None) -> int:
    try:
        repo = Repo(repo_root)
        mod = importlib.import_module(f'sa.rules.{pid.lower()}')
        chk = Check(pid, tier, repo, seed, only_key=only_key)
        from .index import AnalysisError
        from .rules import hygiene
        err = None
        try:
            mod.run(chk)
        except AnalysisError as e:
            err = e
        try:
            hygiene.run(chk)
        except AnalysisError as e:
            err = err or e
        if err is None:
            run_dependencies(chk)
        elif not chk.findings:
            raise err
        else:
            # a recognised-and-wrong construct has been named: that verdict stands although another rule could not be evaluated
            msg = f'rule {err.rule} could not be evaluated at {err.anchor} ({err.why[:200]}); the violations reported are definite'
            chk.note(msg)
            print('NOTE: ' + msg)
        if tier == 'thorough' and not only_key and os.environ.get('SA_NO_SELFTEST') != '1':
            # cross-check of the callee resolution (sa.index) against mypy's type-resolved program
            import subprocess
            pr = subprocess.run([sys.executable, '-m', 'sa.mypycheck', repo.root], capture_output=True, text=True, cwd=os.path.dirname(os.path.dirname(os.path.abspath(__file__))),
                                timeout=600)
            try:
                mc = json.loads([l for l in pr.stdout.splitlines() if l.startswith('{')][-1])
            except Exception:  # noqa
                mc = {'available': False, 'why': (pr.stderr or pr.stdout)[-200:]}
            chk.extra['mypy_cross_check'] = mc
            if mc.get('disagreements'):
                raise AnalysisError('E1', 'callee resolution', 'sa.index and mypy disagree on the defining class of: ' + '; '.join(mc['disagreements'][:3]))
            # fidelity of the analyser's model of Python: the corpus of sa/foldcorpus evaluated by sa.fold and by CPython
            from . import foldtest
            fres = foldtest.run()
            fsum = {k: sum(1 for r in fres if r[1] == k) for k in ('agree', 'unsupported', 'crash', 'MISMATCH')}
            chk.extra['fold_fidelity'] = {'corpus_functions': len(fres), **fsum}
            if fsum['MISMATCH']:
                bad = [r[0] for r in fres if r[1] == 'MISMATCH'][:3]
                raise AnalysisError('E4', 'sa.fold', f'the folder disagrees with CPython on {fsum["MISMATCH"]} corpus function(s): {", ".join(bad)}')
            from . import selftest
            selftest.run_for(chk)
        return chk.finish()
    except SystemExit:
        raise
    except BaseException as e:  # noqa - any crash is an analysis error, never a verdict
        return analysis_error(pid, e)


def main(argv=None) -> int:
    ap = argparse.ArgumentParser()
    ap.add_argument('property', nargs='?')
    ap.add_argument('--tier', default=os.environ.get('VERIF_TIER', 'quick'), choices=['quick', 'thorough'])
    ap.add_argument('--repo', default=os.environ.get('SA_REPO', '/repo'))
    ap.add_argument('--replay')
    args = ap.parse_args(argv)
    seed = int(os.environ.get('VERIF_SEED', '0') or 0)
    if args.replay:
        with open(args.replay) as fh:
            rec = json.load(fh)
        print(f'replaying {rec["rule"]} at {rec["where"]} ({rec["function"]}): {rec["reason"]}')
        rc = run_property(rec['property'], 'quick', args.repo, seed, only_key=rec['key'])
        print('still violated' if rc == 1 else ('no longer violated' if rc == 0 else 'analysis error'))
        return rc
    if not args.property:
        ap.error('property id required')
    return run_property(args.property.upper(), args.tier, args.repo, seed)


if __name__ == '__main__':
    sys.exit(main())
