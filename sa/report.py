"""Obligation bookkeeping, verdict format, known findings, evidence files."""
from __future__ import annotations

import json
import os
import re
import sys
import time
from typing import Dict, List, Optional

from .index import AnalysisError, Repo, key_of

VERIF = os.path.dirname(os.path.dirname(os.path.abspath(__file__)))


def evidence_dir() -> str:
    return os.environ.get('SA_EVIDENCE_DIR', os.path.join(VERIF, 'evidence'))


class Finding:
    def __init__(self, pid, rule, where, qual, construct, reason, extra=None):
        self.pid, self.rule, self.where, self.qual = pid, rule, where, qual
        self.construct, self.reason, self.extra = construct, reason, extra or {}

    @property
    def key(self) -> str:
        mod = self.where.split(':')[0]
        return f'{self.rule}|{mod}|{self.qual}|{key_of(self.construct)}'

    def to_json(self):
        return {'property': self.pid, 'rule': self.rule, 'where': self.where, 'function': self.qual,
                'construct': self.construct, 'reason': self.reason, 'key': self.key, **self.extra}


def load_known(path: Optional[str] = None) -> Dict[str, str]:
    """`known:` lines -> {key: description}.  `fixed:` lines suppress nothing."""
    path = path or os.path.join(VERIF, 'KNOWN_FINDINGS.txt')
    out: Dict[str, str] = {}
    if not os.path.exists(path):
        return out
    for line in open(path, encoding='utf-8'):
        line = line.strip()
        m = re.match(r'known:\s+property=(\S+)\s+rule=(\S+)\s+construct=(\S+)\s+::\s+(.*)', line)
        if m:
            out[f'{m.group(1)}::{m.group(3)}'] = m.group(4)
    return out


def _unresolved(test) -> bool:
    """A guard the valuation cannot evaluate is benign when it only reads state the valuation leaves open (the rule then holds
    for every value of that state).  It is NOT benign when it contains the un-inlined result of a helper call on self / super():
    the path may be infeasible and the valuation cannot tell."""
    import ast as _ast
    for n in _ast.walk(test):
        if isinstance(n, _ast.Call) and isinstance(n.func, _ast.Attribute):
            v = n.func.value
            if isinstance(v, _ast.Name) and v.id in ('self', 'cls'):
                return True
            if isinstance(v, _ast.Call) and isinstance(v.func, _ast.Name) and v.func.id == 'super':
                return True
        if isinstance(n, _ast.Name) and n.id.startswith('__raises_line_'):
            return True
    return False


class Check:
    """One run of one property's rules."""

    def __init__(self, pid: str, tier: str, repo: Repo, seed: int = 0, only_key: Optional[str] = None):
        self.pid, self.tier, self.repo, self.seed = pid, tier, repo, seed
        self.t0 = time.time()
        self.obligations = 0
        self.discharged = 0
        self.findings: List[Finding] = []
        self.samples: List[dict] = []
        self.rules: Dict[str, Dict[str, int]] = {}
        self.evaluations = 0
        self.nontrivial: set = set()
        self.notes: List[str] = []
        self.assumptions: List[str] = []
        self.explanation = ''
        self.trusted: List[str] = ["CPython ast module (the parsed tree is what runs)",
                                   "sa.index callee/class resolution"]
        self.exhaustive: Optional[bool] = None
        self.extra: Dict[str, object] = {}
        self.only_key = only_key
        self._focus = None

    def focus(self, path=None, pe=None):
        """The obligations judged next concern this path under this valuation.  A failure may only be reported for a path whose
        guards all evaluate (definitely taken); a path that is merely not refuted (some guard unknown under the valuation, e.g.
        after a helper was extracted) yields an analysis error instead of a verdict."""
        self._focus = (path, pe) if path is not None else None

    def _indefinite(self):
        if self._focus is None:
            return None
        from .norm import ev3, formula
        import ast as _ast
        path, pe = self._focus
        for c in path.conds():
            fm = getattr(c, '_formula', None)
            if fm is None:
                fm = c._formula = formula(c.test)
            try:
                v = ev3(fm, pe.truth)
            except Exception:  # noqa
                v = None
            if v is None and (getattr(self, 'strict_guards', False) or _unresolved(c.test)):
                return _ast.unparse(c.test)[:120]
        return None

    # -- recording ---------------------------------------------------------
    def _rule(self, rule):
        return self.rules.setdefault(rule, {'obligations': 0, 'discharged': 0, 'instances': 0})

    def ok(self, rule: str, where: str, what: str):
        r = self._rule(rule)
        r['obligations'] += 1
        r['discharged'] += 1
        self.obligations += 1
        self.discharged += 1
        self.nontrivial.add((rule, what))
        if len([s for s in self.samples if s['rule'] == rule]) < 3:
            self.samples.append({'rule': rule, 'at': where, 'obligation': what, 'verdict': 'discharged'})

    def fail(self, rule: str, where: str, qual: str, construct: str, reason: str, **extra):
        if 'fold.NoValue' in reason or 'fold.NoValue' in construct:
            raise AnalysisError(rule, qual, f'not evaluable under the rule\'s valuation (shape not recognised), no verdict: {reason[:200]}')
        unk = self._indefinite()
        if unk is not None:
            raise AnalysisError(rule, qual, f'guard `{unk}` cannot be evaluated under the rule\'s valuation, so the offending path is not known to be feasible: '
                                            f'no verdict ({reason[:160]})')
        r = self._rule(rule)
        r['obligations'] += 1
        self.obligations += 1
        self.nontrivial.add((rule, construct))
        f = Finding(self.pid, rule, where, qual, construct, reason, extra)
        if any(g.key == f.key for g in self.findings):
            return
        self.findings.append(f)
        self.samples.append({'rule': rule, 'at': where, 'obligation': reason, 'verdict': 'VIOLATED',
                             'construct': construct})

    def require(self, cond: bool, rule: str, where: str, qual: str, construct: str, what: str,
                reason: Optional[str] = None, **extra):
        """Obligation `what` at a recognised construct: discharged iff cond."""
        if cond:
            self.ok(rule, where, what)
        else:
            self.fail(rule, where, qual, construct, reason or f'not established: {what}', **extra)
        return cond

    def evals(self, n: int = 1):
        self.evaluations += n

    def instances(self, rule: str, n: int = 1):
        self._rule(rule)['instances'] += n

    def floor(self, rule: str, what: str, got: int, need: int):
        """Instance floor: fewer recognised instances than confirmed by hand = analysis error."""
        if got < need:
            raise AnalysisError(rule, what, f'instance floor not met: recognised {got}, need >= {need}')
        self.instances(rule, got)

    def note(self, s: str):
        self.notes.append(s)

    # -- verdict -----------------------------------------------------------
    def finish(self) -> int:
        known = load_known()
        new, listed = [], []
        for f in self.findings:
            if self.only_key and f.key != self.only_key:
                continue
            if f'{self.pid}::{f.key}' in known:
                listed.append(f)
            else:
                new.append(f)
        rdir = os.path.join(evidence_dir(), 'replay')
        for f in listed:
            print(f'KNOWN-FINDING: property={self.pid} {f.where} {f.qual} rule={f.rule} :: {f.reason}')
        for f in new:
            os.makedirs(rdir, exist_ok=True)
            rp = os.path.join(rdir, f'{self.pid}.{f.rule}.{key_of(f.key)}.json')
            with open(rp, 'w') as fh:
                json.dump(f.to_json(), fh, indent=1)
            print(f'VIOLATION property={self.pid} replay={rp}')
            print(f'  {f.where} {f.qual} rule={f.rule} construct=`{f.construct}`')
            print(f'  reason: {f.reason}')
            for k, v in f.extra.items():
                print(f'  {k}: {v}')
        self.write_evidence(len(new), len(listed))
        inv = self.repo.inventory()
        print(f'[{self.pid}] tier={self.tier} analysed {inv["modules"]} modules / {inv["functions"]} functions '
              f'(digest {inv["source_digest"]}); obligations {self.obligations}, discharged {self.discharged}, '
              f'violations {len(new)}, known {len(listed)}; {time.time() - self.t0:.2f}s')
        for rule, r in sorted(self.rules.items()):
            print(f'   {rule}: {r["discharged"]}/{r["obligations"]} obligations, {r["instances"]} instances')
        return 1 if new else 0

    def write_evidence(self, nviol: int, nknown: int):
        os.makedirs(evidence_dir(), exist_ok=True)
        cov = {
            'explanation': self.explanation,
            'obligations': self.obligations,
            'discharged': self.discharged,
            'evaluations': max(self.evaluations, self.obligations),
            'distinct_nontrivial': len(self.nontrivial),
            'rule': 'one case = one rule obligation at one recognised construct (path, call site, table row, '
                    'truth-table row, template instance or role configuration); distinct = distinct '
                    '(rule, obligation text); non-trivial = the rule found a construct to judge',
            'samples': self.samples[:40],
            'checker_cmd': f'/venv/bin/python -m sa.check {self.pid} --tier {self.tier}',
            'trusted_base': self.trusted,
            'per_rule': self.rules,
            'analysed': self.repo.inventory(),
            'known_findings_listed': nknown,
            'notes': self.notes,
        }
        if self.exhaustive is not None:
            cov['exhaustive'] = self.exhaustive
        cov.update(self.extra)
        ev = {'property_id': self.pid, 'tier': self.tier, 'seed': self.seed, 'level': 'other',
              'coverage': cov, 'assumptions': self.assumptions,
              'wall_s': round(time.time() - self.t0, 3), 'violations': nviol}
        with open(os.path.join(evidence_dir(), f'{self.pid}.json'), 'w') as fh:
            json.dump(ev, fh, indent=1, default=str)


def analysis_error(pid: str, e: Exception) -> int:
    if isinstance(e, AnalysisError):
        print(f'ANALYSIS-ERROR property={pid} rule={e.rule} anchor={e.anchor} :: {e.why}')
    else:
        import traceback
        tb = traceback.extract_tb(sys.exc_info()[2])
        loc = f'{os.path.basename(tb[-1].filename)}:{tb[-1].lineno}' if tb else '?'
        print(f'ANALYSIS-ERROR property={pid} rule=internal anchor={loc} :: {type(e).__name__}: {e}')
        if os.environ.get('SA_DEBUG'):
            traceback.print_exc()
    return 2
